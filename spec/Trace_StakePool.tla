--------------------------- MODULE Trace_StakePool ---------------------------
(***************************************************************************)
(* Trace specification of the staking family (C10, C11, C23).  Every line  *)
(* of the trace is one call of the REAL code with the state read back from *)
(* the real objects / the real Merkle-Patricia trie before and after it.   *)
(* The trace actions only consume events and maintain the tracked abstract *)
(* state; each property is an invariant named Cxx_* that evaluates the     *)
(* OBLIGATIONS of StakePoolOps.tla (the same operators TLC checks the      *)
(* model against) on the recorded step.  Events of other families ("Txn")  *)
(* are skipped here and validated by Trace_Ledger.                          *)
(***************************************************************************)
EXTENDS TraceLib, StakePoolOps

VARIABLES l,       \* next line
          ev,      \* the event just consumed (or Null)
          rew,     \* C10: tracked Reward of every delegate pool of the object under test
          rew0,    \*      ... before the event just consumed
          sprew, sprew0   \* C10: tracked provider reward, after / before

vars == <<l, ev, rew, rew0, sprew, sprew0>>
Null == [ev |-> "none"]

TraceInit == l = 1 /\ ev = Null /\ rew = <<>> /\ rew0 = <<>> /\ sprew = 0 /\ sprew0 = 0

IsEvent(e) == l <= Len(Trace) /\ Trace[l].ev = e /\ l' = l + 1

TraceReset ==
  /\ IsEvent("Reset")
  /\ ev' = Null
  /\ rew' = IF "rewards" \in DOMAIN Trace[l] THEN PutPairs(<<>>, Trace[l].rewards, 1) ELSE <<>>
  /\ sprew' = IF "sp_reward" \in DOMAIN Trace[l] THEN Trace[l].sp_reward ELSE 0
  /\ rew0' = <<>> /\ sprew0' = 0

(* C10: one call of DistributeRewards / DistributeRewardsRandN            *)
TraceDist ==
  /\ IsEvent("Dist")
  /\ LET e == Trace[l] IN
       /\ ev' = e
       /\ rew0' = rew /\ sprew0' = sprew
       /\ rew' = PutPairs(rew, e.post, 1)            \* (values are capped at 2^29 by the recorder)
       /\ sprew' = e.sp_post

TraceSkip ==
  /\ l <= Len(Trace) /\ Trace[l].ev \notin {"Reset", "Dist"}
  /\ l' = l + 1 /\ ev' = Null
  /\ UNCHANGED <<rew, rew0, sprew, sprew0>>

TraceNext == TraceReset \/ TraceDist \/ TraceSkip
TraceSpec == TraceInit /\ [][TraceNext]_vars

-----------------------------------------------------------------------------
(* C10                                                                      *)
IsDist == ev.ev = "Dist"
Names(ps) == {ps[i].a : i \in 1..Len(ps)}
\* the stake pool before the call, rebuilt from the logged projection
SPof(e) == [pools |-> [d \in Names(e.pools) |-> [bal |-> PairOf(e.pools, d, 0), reward |-> PairOf(e.pre, d, 0)]],
            reward |-> e.sp_pre, killed |-> e.killed, minStake |-> e.min_stake, cnum |-> e.cnum, cden |-> e.cden]
IncOf(e) == [d \in Names(e.pools) |-> PairOf(e.inc, d, 0)]
\* a call that returned an error aborts the transaction that made it: the property speaks of payments made
Judged == IsDist /\ ~ev.err /\ ~ev.panic
PaidEv == ~ev.v_zero /\ ~ev.killed /\ ~ev.under
\* vcheck marks the events that match the signature of a recorded known finding (known_findings.jsonl);
\* the invariants a finding is about skip exactly those events
Known == "known" \in DOMAIN ev /\ ev.known

\* harness sanity (exit 2): nothing touches the rewards between two calls; the recorder's own
\* classification agrees with the model's on every event TLC can recompute
HarnessContinuity ==
  IsDist => /\ \A i \in 1..Len(ev.pre) : ev.pre[i].d = Get(rew0, ev.pre[i].a, 0)
            /\ ev.sp_pre = sprew0
HarnessFlags ==
  (IsDist /\ ~ev.big) => /\ ev.under = (TotalStake(SPof(ev)) < ev.min_stake)
                          /\ ev.v_zero = (ev.v = 0)
                          /\ ev.n_pools = Cardinality(Names(ev.pools))
                          /\ ev.sum_diff = ev.sp_inc + SumPairs(ev.inc, 1) - ev.v
                          /\ \A i \in 1..Len(ev.inc) : PairOf(ev.post, ev.inc[i].a, 0) = PairOf(ev.pre, ev.inc[i].a, 0) + ev.inc[i].d
                          /\ ev.sp_post = ev.sp_pre + ev.sp_inc

\* the deferred exactness assertion of DistributeRewards (or anything else) panicked
C10_NoPanic == IsDist => ~ev.panic

\* values beyond TLC's 32-bit integers ("big"): the sums and cross-multiplications are evaluated by the
\* recorder with big integers, TLC checks the resulting differences against the same bounds
C10_ExactSum ==
  (Judged /\ ~Known) => IF ev.big
              THEN (IF PaidEv THEN ev.sum_diff = 0 ELSE ev.all_zero)
              ELSE OblExactSum(SPof(ev), ev.v, ev.sp_inc, IncOf(ev))
C10_Charge ==
  Judged => IF ev.big
              THEN (PaidEv => ev.charge_dev <= 1 + ev.tol_hi)
              ELSE OblCharge(SPof(ev), ev.v, ev.sp_inc)
C10_Subset ==
  Judged => IF ev.big
              THEN (ev.kind = "randn" => ev.n_credited <= ev.n)
              ELSE OblSubset(SPof(ev), ev.kind, ev.n, IncOf(ev))
C10_Proportional ==
  (Judged /\ ~Known) => IF ev.big
              THEN ((PaidEv /\ ev.n_pools > 0) => ev.prop_dev <= PropTol + ev.tol_hi)
              ELSE OblProportional(SPof(ev), ev.v, ev.kind, ev.n, ev.sp_inc, IncOf(ev))
=============================================================================
