--------------------------- MODULE Trace_StakePool ---------------------------
(***************************************************************************)
(* Trace specification of the staking family (C10, C11, C23).  Every line  *)
(* of the trace is one call of the REAL code with the state read back from *)
(* the real objects / the real Merkle-Patricia trie before and after it.   *)
(* The trace actions only consume events and maintain the tracked abstract *)
(* state; each property is an invariant named Cxx_* that evaluates the     *)
(* OBLIGATIONS of StakePoolOps.tla (the same operators TLC checks the      *)
(* model against) on the recorded step.  Events of other families ("Txn")  *)
(* are skipped here and validated by Trace_Ledger.                          *)
(***************************************************************************)
EXTENDS TraceLib, StakePoolOps

VARIABLES l,       \* next line
          ev,      \* the event just consumed (or Null)
          rew,     \* C10: tracked Reward of every delegate pool of the object under test
          rew0,    \*      ... before the event just consumed
          sprew, sprew0,  \* C10: tracked provider reward, after / before
          tb, tr, tsp,    \* C11: tracked delegate balances / rewards ("prov/delegate" -> n), provider rewards
          tb0, tr0, tsp0, \*      ... before the event just consumed
          kk, kb, kk0, kb0  \* C23: tracked stake-pool key set and delegate balances, after / before

c10vars == <<rew, rew0, sprew, sprew0>>
c11vars == <<tb, tr, tsp, tb0, tr0, tsp0>>
c23vars == <<kk, kb, kk0, kb0>>
vars == <<l, ev, c10vars, c11vars, c23vars>>
Null == [ev |-> "none"]

M(ps) == PutPairs(<<>>, ps, 1)
Field(e, f, def) == IF f \in DOMAIN e THEN e[f] ELSE def

TraceInit == /\ l = 1 /\ ev = Null /\ rew = <<>> /\ rew0 = <<>> /\ sprew = 0 /\ sprew0 = 0
             /\ tb = <<>> /\ tr = <<>> /\ tsp = <<>> /\ tb0 = <<>> /\ tr0 = <<>> /\ tsp0 = <<>>
             /\ kk = {} /\ kb = <<>> /\ kk0 = {} /\ kb0 = <<>>

IsEvent(e) == l <= Len(Trace) /\ Trace[l].ev = e /\ l' = l + 1

TraceReset ==
  /\ IsEvent("Reset")
  /\ ev' = Null
  /\ rew' = IF "rewards" \in DOMAIN Trace[l] THEN PutPairs(<<>>, Trace[l].rewards, 1) ELSE <<>>
  /\ sprew' = IF "sp_reward" \in DOMAIN Trace[l] THEN Trace[l].sp_reward ELSE 0
  /\ rew0' = <<>> /\ sprew0' = 0
  /\ tb' = M(Field(Trace[l], "bal", <<>>)) /\ tr' = M(Field(Trace[l], "rew", <<>>)) /\ tsp' = M(Field(Trace[l], "sp", <<>>))
  /\ tb0' = <<>> /\ tr0' = <<>> /\ tsp0' = <<>>
  /\ kk' = {} /\ kb' = <<>> /\ kk0' = {} /\ kb0' = <<>>

(* C10: one call of DistributeRewards / DistributeRewardsRandN            *)
TraceDist ==
  /\ IsEvent("Dist")
  /\ LET e == Trace[l] IN
       /\ ev' = e
       /\ rew0' = rew /\ sprew0' = sprew
       /\ rew' = PutPairs(rew, e.post, 1)            \* (values are capped at 2^29 by the recorder)
       /\ sprew' = e.sp_post
  /\ UNCHANGED <<c11vars, c23vars>>

(* C11: one lock / unlock / collect transaction, reward payment or kill; the tracked pools become what  *)
(* was read back from the MPT after the step                                                            *)
TraceStake ==
  /\ IsEvent("Stake")
  /\ LET e == Trace[l] IN
       /\ ev' = e
       /\ tb0' = tb /\ tr0' = tr /\ tsp0' = tsp
       /\ tb' = M(e.post_bal) /\ tr' = M(e.post_rew) /\ tsp' = M(e.sp_post)
  /\ UNCHANGED <<c10vars, c23vars>>

(* C23: one kill / shutdown transaction, reward payment or delegate unlock (or the staking that sets a   *)
(* trace up)                                                                                            *)
SetOf(q) == {q[i] : i \in 1..Len(q)}
TraceKill ==
  /\ IsEvent("Kill")
  /\ LET e == Trace[l] IN
       /\ ev' = e
       /\ kk0' = (IF e.op = "setup" THEN SetOf(e.keys_pre) ELSE kk)
       /\ kb0' = (IF e.op = "setup" THEN M(e.bal_pre) ELSE kb)
       /\ kk' = SetOf(e.keys_post) /\ kb' = M(e.bal_post)
  /\ UNCHANGED <<c10vars, c11vars>>

TraceSkip ==
  /\ l <= Len(Trace) /\ Trace[l].ev \notin {"Reset", "Dist", "Stake", "Kill"}
  /\ l' = l + 1 /\ ev' = Null
  /\ UNCHANGED <<c10vars, c11vars, c23vars>>

TraceNext == TraceReset \/ TraceDist \/ TraceStake \/ TraceKill \/ TraceSkip
TraceSpec == TraceInit /\ [][TraceNext]_vars

-----------------------------------------------------------------------------
(* C10                                                                      *)
IsDist == ev.ev = "Dist"
Names(ps) == {ps[i].a : i \in 1..Len(ps)}
\* the stake pool before the call, rebuilt from the logged projection
SPof(e) == [pools |-> [d \in Names(e.pools) |-> [bal |-> PairOf(e.pools, d, 0), reward |-> PairOf(e.pre, d, 0)]],
            reward |-> e.sp_pre, killed |-> e.killed, minStake |-> e.min_stake, cnum |-> e.cnum, cden |-> e.cden]
IncOf(e) == [d \in Names(e.pools) |-> PairOf(e.inc, d, 0)]
\* a call that returned an error aborts the transaction that made it: the property speaks of payments made
Judged == IsDist /\ ~ev.err /\ ~ev.panic
PaidEv == ~ev.v_zero /\ ~ev.killed /\ ~ev.under
\* vcheck marks the events that match the signature of a recorded known finding (known_findings.jsonl,
\* TraceLib!IsKnown); the invariants a finding is about skip exactly those events
Known == IsKnown(ev)

\* harness sanity (exit 2): nothing touches the rewards between two calls; the recorder's own
\* classification agrees with the model's on every event TLC can recompute
HarnessContinuity ==
  IsDist => /\ \A i \in 1..Len(ev.pre) : ev.pre[i].d = Get(rew0, ev.pre[i].a, 0)
            /\ ev.sp_pre = sprew0
HarnessFlags ==
  (IsDist /\ ~ev.big) => /\ ev.under = (TotalStake(SPof(ev)) < ev.min_stake)
                          /\ ev.v_zero = (ev.v = 0)
                          /\ ev.n_pools = Cardinality(Names(ev.pools))
                          /\ ev.sum_diff = ev.sp_inc + SumPairs(ev.inc, 1) - ev.v
                          /\ \A i \in 1..Len(ev.inc) : PairOf(ev.post, ev.inc[i].a, 0) = PairOf(ev.pre, ev.inc[i].a, 0) + ev.inc[i].d
                          /\ ev.sp_post = ev.sp_pre + ev.sp_inc

\* the deferred exactness assertion of DistributeRewards (or anything else) panicked
C10_NoPanic == (IsDist /\ ~Known) => ~ev.panic

\* values beyond TLC's 32-bit integers ("big"): the sums and cross-multiplications are evaluated by the
\* recorder with big integers, TLC checks the resulting differences against the same bounds
C10_ExactSum ==
  (Judged /\ ~Known) => IF ev.big
              THEN (IF PaidEv THEN ev.sum_diff = 0 ELSE ev.all_zero)
              ELSE OblExactSum(SPof(ev), ev.v, ev.sp_inc, IncOf(ev))
C10_Charge ==
  (Judged /\ ~Known) => IF ev.big
              THEN (PaidEv => ev.charge_dev <= 1 + ev.tol_hi)
              ELSE OblCharge(SPof(ev), ev.v, ev.sp_inc)
C10_Subset ==
  (Judged /\ ~Known) => IF ev.big
              THEN (ev.kind = "randn" => ev.n_credited <= ev.n)
              ELSE OblSubset(SPof(ev), ev.kind, ev.n, IncOf(ev))
C10_Proportional ==
  (Judged /\ ~Known) => IF ev.big
              THEN ((PaidEv /\ ev.n_pools > 0) => ev.prop_dev <= PropTol + ev.tol_hi)
              ELSE OblProportional(SPof(ev), ev.v, ev.kind, ev.n, ev.sp_inc, IncOf(ev))

-----------------------------------------------------------------------------
(* C11: every delegate pool of every provider is projected before and after each step as             *)
(* "provider/delegate" -> balance / reward; sp = provider -> service-charge reward.                   *)
IsStake == ev.ev = "Stake"
PreB == M(ev.pre_bal)   PostB == M(ev.post_bal)
PreR == M(ev.pre_rew)   PostR == M(ev.post_rew)
PreS == M(ev.sp_pre)    PostS == M(ev.sp_post)
K == ev.key                                  \* the caller's own pool at the addressed provider
PK == {ev.prov_keys[i] : i \in 1..Len(ev.prov_keys)}   \* all pools of the addressed provider
Val(m, k) == Get(m, k, 0)
SameOutside(m1, m2, S) == \A x \in (DOMAIN m1 \cup DOMAIN m2) \ S : x \in DOMAIN m1 /\ x \in DOMAIN m2 /\ m1[x] = m2[x]
Unch == PostB = PreB /\ PostR = PreR /\ PostS = PreS /\ ev.caller_delta = 0 /\ ev.wallet_delta = 0
SvcCharge == IF ev.is_wallet THEN Val(PreS, ev.prov) ELSE 0
StakeJudged == IsStake /\ ~Known

\* nothing moves the pools between two recorded steps (harness sanity, exit 2)
HarnessStakeContinuity == IsStake => (PreB = tb0 /\ PreR = tr0 /\ PreS = tsp0)

\* a step touches only the caller's own pool (lock / unlock / collect) or the pools of the addressed
\* provider (reward: rewards only; kill: balances only, never upwards); nobody else's pool appears,
\* disappears or changes -- in particular nobody else can unlock a pool
C11_Frame ==
  StakeJudged =>
     /\ SameOutside(PreS, PostS, {ev.prov})
     /\ ev.op \in {"lock", "unlock", "collect"} => SameOutside(PreB, PostB, {K}) /\ SameOutside(PreR, PostR, {K})
     /\ ev.op \in {"reward", "kill"} => SameOutside(PreB, PostB, PK) /\ SameOutside(PreR, PostR, PK)
     /\ ev.op = "reward" => PostB = PreB /\ ev.wallet_delta = 0 /\ ev.caller_delta = 0
     /\ ev.op = "kill" => /\ PostR = PreR /\ DOMAIN PostB = DOMAIN PreB /\ ev.wallet_delta = 0
                           /\ \A x \in DOMAIN PreB : PostB[x] <= PreB[x]

\* a lock moves exactly the value: staker -> contract wallet -> the staker's pool, within the bounds
C11_Lock ==
  (StakeJudged /\ ev.op = "lock") =>
     IF ev.ok
       THEN /\ ev.value > 0 /\ ev.value >= ev.min_lock
            /\ K \in DOMAIN PostB /\ PostB[K] = Val(PreB, K) + ev.value /\ PostB[K] <= ev.max_stake
            /\ (K \in DOMAIN PreB \/ ev.n_pools <= ev.max_del)
            /\ Val(PostR, K) = Val(PreR, K) /\ Val(PostS, ev.prov) = Val(PreS, ev.prov)
            /\ ev.caller_delta = -ev.value /\ ev.wallet_delta = ev.value
       ELSE Unch

\* an unlock pays the pool's balance plus its accrued reward (plus the provider's own reward when the
\* caller is the delegate wallet) to the caller, out of the contract wallet, and removes the pool
C11_Unlock ==
  (StakeJudged /\ ev.op = "unlock") =>
     IF ev.ok
       THEN /\ K \in DOMAIN PreB
            /\ ev.caller_delta = Val(PreB, K) + Val(PreR, K) + SvcCharge
            /\ ev.wallet_delta = -ev.caller_delta
            /\ K \notin DOMAIN PostB /\ K \notin DOMAIN PostR
            /\ Val(PostS, ev.prov) = (IF ev.is_wallet THEN 0 ELSE Val(PreS, ev.prov))
       ELSE Unch
\* ... and the owner of an existing pool is not refused (the only refusal the contracts define is a
\* blobber stake that must keep covering open offers)
C11_OwnerCanUnlock ==
  (StakeJudged /\ ev.op = "unlock" /\ ~ev.ok) => (K \notin DOMAIN PreB \/ ev.offers > 0)

C11_Collect ==
  (StakeJudged /\ ev.op = "collect") =>
     IF ev.ok
       THEN /\ ev.caller_delta = Val(PreR, K) + SvcCharge /\ ev.wallet_delta = -ev.caller_delta
            /\ PostB = PreB /\ DOMAIN PostR = DOMAIN PreR /\ Val(PostR, K) = 0
            /\ Val(PostS, ev.prov) = (IF ev.is_wallet THEN 0 ELSE Val(PreS, ev.prov))
       ELSE Unch
C11_NoPanic == StakeJudged => ~ev.panic

-----------------------------------------------------------------------------
(* C23: ALL stake-pool nodes of the state are projected before and after each step: the key set, and    *)
(* per node the delegate balances / rewards ("key/delegate" -> n), its own reward and its dead flag;    *)
(* rec = provider -> 0 absent, 1 alive, 2 killed, 3 shut down, 4 both.                                   *)
IsKill == ev.ev = "Kill"
KillJudged == IsKill /\ ~Known /\ ev.op # "setup"
IsKS == ev.op \in {"kill", "shutdown"}
KeysPre == SetOf(ev.keys_pre)   KeysPost == SetOf(ev.keys_post)
BalPre == M(ev.bal_pre)    BalPost == M(ev.bal_post)
RewPre == M(ev.rew_pre)    RewPost == M(ev.rew_post)
SprPre == M(ev.spr_pre)    SprPost == M(ev.spr_post)
DeadPre == M(ev.dead_pre)  DeadPost == M(ev.dead_post)
RecPre == M(ev.rec_pre)    RecPost == M(ev.rec_post)
NK == ev.node_key                      \* the key of the addressed provider's own stake pool
OwnKeys == SetOf(ev.own_keys)          \* its delegate entries
DeadBefore == Val(RecPre, ev.prov) # 1 \* killed, shut down or absent
AllSame == /\ KeysPost = KeysPre /\ BalPost = BalPre /\ RewPost = RewPre /\ SprPost = SprPre
           /\ DeadPost = DeadPre /\ RecPost = RecPre
\* MultFloat64(balance, 1 - slash): the floor of the exact product
FloorSlash(b, b2) == b2 * ev.slash_den <= b * (ev.slash_den - ev.slash_num) /\ b * (ev.slash_den - ev.slash_num) < (b2 + 1) * ev.slash_den

\* nothing moves the stake pools between two recorded steps (harness sanity, exit 2)
HarnessKillContinuity == (IsKill /\ ev.op # "setup") => (KeysPre = kk0 /\ BalPre = kb0)

\* no stake-pool node is created; none but the addressed provider's own (and only when it has no delegate
\* left: the contracts then delete provider and pool) disappears; nobody else's pool or record changes
C23_Frame ==
  (KillJudged /\ IsKS) =>
     /\ KeysPost \subseteq KeysPre
     /\ KeysPre \ KeysPost \subseteq {NK}
     /\ (NK \in KeysPre \ KeysPost) => (ev.ok /\ OwnKeys = {})
     /\ SameOutside(BalPre, BalPost, OwnKeys) /\ SameOutside(RewPre, RewPost, OwnKeys)
     /\ SameOutside(SprPre, SprPost, {NK}) /\ SameOutside(DeadPre, DeadPost, {NK})
     /\ SameOutside(RecPre, RecPost, {ev.prov})
\* unauthorised callers, attempts on a dead provider, and failed transactions change nothing
C23_Unauthorised ==
  (KillJudged /\ IsKS /\ (~ev.auth \/ DeadBefore \/ ~ev.ok)) => AllSame
\* an authorised first kill / shutdown: record dead, own pool dead, every delegate slashed by the
\* configured fraction (once), rewards untouched -- or provider and (empty) pool removed altogether
C23_DeadSlashedOnce ==
  (KillJudged /\ IsKS /\ ev.auth /\ ~DeadBefore /\ ev.ok) =>
     IF NK \notin KeysPost
       THEN Val(RecPost, ev.prov) = 0 /\ OwnKeys = {}
       ELSE /\ Val(RecPost, ev.prov) \in (IF ev.op = "kill" THEN {2, 4} ELSE {3, 4})
            /\ Val(DeadPost, NK) = 1
            /\ \A k \in OwnKeys : /\ k \in DOMAIN BalPre /\ k \in DOMAIN BalPost
                                   /\ FloorSlash(BalPre[k], BalPost[k])
                                   /\ Val(RewPost, k) = Val(RewPre, k)
            /\ Val(SprPost, NK) = Val(SprPre, NK)
\* a reward payment touches only the rewards of the addressed provider's own pool, and nothing at all
\* once the provider is dead
C23_NoRewardAfterDeath ==
  (KillJudged /\ ev.op = "reward") =>
     /\ KeysPost = KeysPre /\ BalPost = BalPre /\ DeadPost = DeadPre /\ RecPost = RecPre
     /\ SameOutside(RewPre, RewPost, OwnKeys) /\ SameOutside(SprPre, SprPost, {NK})
     /\ DeadBefore => (RewPost = RewPre /\ SprPost = SprPre)
\* a delegate taking his stake out (of a live or a dead provider) neither revives nor kills anybody: the
\* provider records stay, and every stake-pool node that is still there keeps its dead flag (what the unlock
\* pays and which pools it removes is C11's business and left free here)
C23_UnlockKeepsDeath ==
  (KillJudged /\ ev.op = "unlock") =>
     /\ RecPost = RecPre
     /\ \A k \in KeysPre \cap KeysPost : Val(DeadPost, k) = Val(DeadPre, k)
C23_NoPanic == KillJudged => ~ev.panic
=============================================================================
