---------------------------- MODULE MC_TxnLife ----------------------------
(* Exhaustive configurations of TxnLife (all bounds are constants of the module, used in action guards, so the *)
(* liveness configurations need no state constraint):                                                          *)
(*   MC_TxnLife_quick / _thorough / _thorough_2s   block trees with foreign (byzantine) blocks, forks,         *)
(*        finalization on any branch, expiry; generation not interleaved with the other actions                *)
(*   MC_TxnLife_quick_gen / _thorough_gen / _thorough_gen2   every interleaving of the generation steps with   *)
(*        intake, finalization, clean-up, deletion goroutine, clock                                            *)
(*   MC_TxnLife_live    LinSpec, PROPERTY ReadyIncluded  (fair generation on the newest block)                 *)
(*   MC_TxnLife_drain   FairSpec, PROPERTY PoolDrains    (running clock and workers)                           *)
(*   MC_TxnLife_live_noroom_demo   MaxTx = 0: TLC refutes ReadyIncluded (the property is not vacuous)          *)
(*   MC_TxnLife_orphan_demo   NoOrphanEntity is refuted for the code as written: two competing transactions,   *)
(*        one comes back inside a final foreign block, RemoveFromPool takes the other one out of the collection *)
(*        and leaves its entity key behind (demo configurations are not run by the check)                      *)
EXTENDS TxnLife
=============================================================================
