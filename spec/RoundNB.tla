------------------------------ MODULE RoundNB ------------------------------
(***************************************************************************)
(* C35(b): the per-round list of notarized blocks of round.Round           *)
(* (chaincore/round/entity.go:298-369).  A block OBJECT is [id, hash,      *)
(* rank]: id is the identity of the Go object (two objects may carry the   *)
(* same hash: a block received twice), weight = 2^-rank, so "heaviest      *)
(* first" = ascending rank.                                                *)
(* Named deviation: UpdateStoresGiven = FALSE is the code before de713b8     *)
(* (entity.go:359-363 `r.notarizedBlocks[i] = nb` re-stores the OLD        *)
(* object), TRUE is what the property states.                              *)
(***************************************************************************)
EXTENDS Integers, Sequences, FiniteSets
CONSTANTS Blocks,             \* the universe of block objects
          UpdateStoresGiven,  \* see above
          MaxOps
VARIABLES nb, nops, last     \* the list; number of operations so far; the last operation

vars == <<nb, nops, last>>

SeqRemoveAt(s, i) == SubSeq(s, 1, i - 1) \o SubSeq(s, i + 1, Len(s))
RECURSIVE InsertByRank(_, _)
InsertByRank(s, b) == IF s = <<>> THEN <<b>>
                      ELSE IF b.rank < Head(s).rank THEN <<b>> \o s
                      ELSE <<Head(s)>> \o InsertByRank(Tail(s), b)

\* AddNotarizedBlock: a block of the same hash is already there -> unchanged (tickets are merged);
\* otherwise a block of the same rank is dropped, the new one inserted by weight
NbAdd(l, b) ==
  IF \E i \in 1..Len(l) : l[i].hash = b.hash THEN l
  ELSE LET same == {i \in 1..Len(l) : l[i].rank = b.rank}
           kept == IF same = {} THEN l ELSE SeqRemoveAt(l, CHOOSE i \in same : TRUE)
       IN  InsertByRank(kept, b)

\* UpdateNotarizedBlock
NbUpdate(l, b) == IF UpdateStoresGiven
                    THEN [i \in 1..Len(l) |-> IF l[i].hash = b.hash THEN b ELSE l[i]]
                    ELSE l

Init == nb = <<>> /\ nops = 0 /\ last = [op |-> "none"]
Add(b)    == nops < MaxOps /\ nb' = NbAdd(nb, b) /\ nops' = nops + 1 /\ last' = [op |-> "add", b |-> b]
Update(b) == nops < MaxOps /\ nb' = NbUpdate(nb, b) /\ nops' = nops + 1 /\ last' = [op |-> "update", b |-> b]
A_Add == \E b \in Blocks : Add(b)
A_Update == \E b \in Blocks : Update(b)
Next == A_Add \/ A_Update
Spec == Init /\ [][Next]_vars

C35_OnePerRank == \A i, j \in 1..Len(nb) : i # j => nb[i].rank # nb[j].rank
C35_HeaviestFirst == \A i \in 1..Len(nb) - 1 : nb[i].rank <= nb[i + 1].rank
C35_AddStores == last.op = "add" => \E i \in 1..Len(nb) : nb[i].hash = last.b.hash
\* the stored object of that hash IS the given object
C35_UpdateReplaces == last.op = "update" => \A i \in 1..Len(nb) : nb[i].hash = last.b.hash => nb[i].id = last.b.id
\* one hash, one entry (consequence of the same-hash rule; keeps the model honest)
OneEntryPerHash == \A i, j \in 1..Len(nb) : i # j => nb[i].hash # nb[j].hash
=============================================================================
