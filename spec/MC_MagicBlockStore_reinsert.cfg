\* NOT part of the check: the same model with re-insertion at or below a pruned point allowed.
\* TLC reports C40_MaxMaintained / C40_Floor violated (stale `max` after the newest entry was pruned).
SPECIFICATION MCSpec
CONSTANTS
  Starts = {0, 5, 10}
  Ents = {1}
  Queries <- MCQueries
  VCO = 4
  PutBelowPruned = TRUE
  PrevSentinel = 99
INVARIANTS TypeOK C40_Index C40_MaxMaintained C40_Floor C40_Prev C40_PruneKeeps C40_PutStores
CHECK_DEADLOCK FALSE
