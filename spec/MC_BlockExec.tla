---------------------------- MODULE MC_BlockExec ----------------------------
EXTENDS BlockExec, Json
MCEnv == [cache : {"cold", "warm"}, procs : {1, 16}, maporder : {1, 2}]
GPrint == (results = {} /\ blk # <<>>) => PrintT(<<"BEHAVIOUR", ToJson(hist)>>)
=============================================================================
