---------------------------- MODULE MC_BlockExec ----------------------------
EXTENDS BlockExec, Json
MCEnv == [cache : {"cold", "warm", "used"}, procs : {1, 16}, maporder : {1, 2}]
MCObjOf == [k \in {"govpart_miner", "govok_miner", "govpart_storage", "govcommit_storage"} |->
              IF k \in {"govpart_miner", "govok_miner"} THEN "minersc_global_node" ELSE "storagesc_config"]
GPrint == (results = {} /\ blk # <<>>) => PrintT(<<"BEHAVIOUR", ToJson(hist)>>)
=============================================================================
