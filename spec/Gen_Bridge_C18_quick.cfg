SPECIFICATION GSpec
CONSTANTS
  Client = {"c1", "c2"}
  Eth <- E2
  NoEth = ""
  Auths = {"a1", "a2", "a3"}
  AuthOrder <- Order3
  Stranger = "u1"
  NoAuth = "none"
  InitAuth = {"a1", "a2", "a3"}
  MinBurn = 2
  MinMint = 2
  MinVals <- NoMins
  MaxFee = 1
  MintAmts = {1, 3}
  PctMilli = 700
  MaxBurnNonce = 9
  Staked = {"a1", "a2"}
  Nonces = {0, 1}
  SigSeqs <- NoSeqs
  BurnVals <- NoVals
  Acceptance = "written"
  CountsUnverified = FALSE
  RewardNeedsStake = TRUE
  GenModes <- Both
  GenLen = 2
  SweepN = 3
  GBurns <- OneBurn
  GMints <- HistMints
  GAuthOps <- A3Ops
  GCfgs <- NoCfgs
VIEW GView
INVARIANT GPrint
CHECK_DEADLOCK FALSE
