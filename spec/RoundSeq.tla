------------------------------ MODULE RoundSeq ------------------------------
(***************************************************************************)
(* One round.Round object (chaincore/round/entity.go), C37 (and the        *)
(* notarized-block list of C35, see the NB section at the end).            *)
(*                                                                         *)
(* Part 1  the SEQUENTIAL specification: every exported operation as one   *)
(*         atomic big step on the abstract state                           *)
(*           phase, toc (timeout count), fin (finalizing state),           *)
(*           shares (miner -> share tag), votes (miner -> timeout vote),   *)
(*           locked (r.mutex left held by a returned call).                *)
(*         It is a RELATION (SeqNext returns a set) because the property   *)
(*         is silent about some choices (which vote wins) and because the  *)
(*         deviations of the code from the intended design are NAMED       *)
(*         choices: LeakChoices, CapDecrChoices, SatChoices.               *)
(* Part 2  the STEP machine: every operation as its sequence of lock /     *)
(*         atomic-load / atomic-store / field steps as in the source, run  *)
(*         by 2-3 processes, exhaustively interleaved by TLC.              *)
(* Part 3  the properties of C37.                                          *)
(***************************************************************************)
EXTENDS Integers, Sequences, FiniteSets, TLC

CONSTANTS SelfMiner,        \* node.Self: its own timeout vote is skipped by IncrementTimeoutCount
          LeakChoices,      \* {TRUE}: as written, a rejected Restart returns with r.mutex held
                            \* {FALSE}: intended;  {TRUE,FALSE}: either (trace validation)
          CapDecrChoices,   \* {TRUE}: as written, checkCap lowers a count that is above the cap (unreachable
                            \*         once SetTimeoutCount saturates); {FALSE}: it never lowers
          SatChoices        \* {TRUE}: as written (since aa8d528), SetTimeoutCount saturates at the cap;
                            \* {FALSE}: it stores the given count (the code before that repair)
\* The abstract state also carries the two parameters of the environment:
\*   cap = server_chain.round_timeouts.timeout_cap (0 = no cap), thr = threshold passed to AddVRFShare

ShareVRF == 0
Verify == 1
Notarize == 2
Share == 3
Complete == 4
NotFinalized == 0
Finalizing == 1
Finalized == 2

Max(a, b) == IF a > b THEN a ELSE b
EmptyF == <<>>
PutF(f, k, v) == IF k \in DOMAIN f THEN [f EXCEPT ![k] = v] ELSE f @@ (k :> v)
Str(n) == ToString(n)

-----------------------------------------------------------------------------
(* Part 1: sequential specification                                         *)

\* operations that take r.mutex (Lock or RLock)
UsesMutex(t) == t \in {"Restart", "AddShare", "AddNB", "SetFinalizing", "SetFinalized", "Finalize",
                       "ResetIfNot", "ResetFin", "IsFinalized", "GetShares"}

InitAbs(cap, thr) == [phase |-> ShareVRF, toc |-> 0, fin |-> NotFinalized, shares |-> EmptyF, votes |-> EmptyF,
                      locked |-> FALSE, cap |-> cap, thr |-> thr]

CapOf(s, n) == IF s.cap > 0 /\ n > s.cap THEN s.cap ELSE n

\* IncrementTimeoutCount (entity.go:113-158): the first miner in the seed-ranked order (other than
\* Self) whose vote exceeds the count wins; the order is a detail the property is silent about.
IncTocResults(s) ==
  LET cands == {s.votes[m] : m \in {x \in DOMAIN s.votes : x # SelfMiner /\ s.votes[x] > s.toc}}
      bases == IF cands = {} THEN {s.toc + 1} ELSE cands
  IN  UNION { {IF d THEN CapOf(s, b) ELSE Max(s.toc, CapOf(s, b)) : d \in CapDecrChoices} : b \in bases }

Out(s, r) == [s |-> s, r |-> r]
SetTocValue(s, v, sat) == IF sat THEN CapOf(s, v) ELSE v

SeqNext(op, s) ==
  IF UsesMutex(op.t) /\ s.locked THEN {Out(s, "hang")}
  ELSE CASE op.t = "SetPhase"   -> {Out([s EXCEPT !.phase = Max(@, op.v)], "none")}     \* entity.go:711,724
       []   op.t = "ResetPhase" -> {Out([s EXCEPT !.phase = op.v], "none")}               \* :716
       []   op.t = "GetPhase"   -> {Out(s, Str(s.phase))}
       []   op.t = "Restart"    ->                                                        \* :646-658
              IF s.phase >= Share
                THEN {Out([s EXCEPT !.locked = lk], "err") : lk \in LeakChoices}
                ELSE {Out([s EXCEPT !.phase = ShareVRF, !.shares = EmptyF], "ok")}
       []   op.t = "AddShare"   ->                                                        \* :669-688
              IF Cardinality(DOMAIN s.shares) >= s.thr \/ op.m \in DOMAIN s.shares
                THEN {Out(s, "false")}
                ELSE {Out([s EXCEPT !.shares = PutF(@, op.m, op.v)], "true")}
       []   op.t = "AddNB"      -> {Out([s EXCEPT !.phase = Max(@, Share)], "none")}      \* :298-345
       []   op.t = "SetToc"     ->                                                        \* SetTimeoutCount
              {IF SetTocValue(s, op.v, sat) <= s.toc THEN Out(s, "false")
               ELSE Out([s EXCEPT !.toc = SetTocValue(s, op.v, sat)], "true") : sat \in SatChoices}
       []   op.t = "IncToc"     -> {Out([s EXCEPT !.toc = n, !.votes = EmptyF], "none") : n \in IncTocResults(s)}
       []   op.t = "Vote"       -> {Out([s EXCEPT !.votes = PutF(@, op.m, op.v)], "none")}
       []   op.t = "GetToc"     -> {Out(s, Str(s.toc))}
       []   op.t = "SetFinalizing" -> IF s.fin # NotFinalized THEN {Out(s, "false")}      \* :463-472
                                      ELSE {Out([s EXCEPT !.fin = Finalizing], "true")}
       []   op.t \in {"SetFinalized", "Finalize"} -> {Out([s EXCEPT !.fin = Finalized], "none")}
       []   op.t = "ResetIfNot" -> IF s.fin = Finalized THEN {Out(s, "none")}             \* :483-490
                                   ELSE {Out([s EXCEPT !.fin = NotFinalized], "none")}
       []   op.t = "ResetFin"   -> {Out([s EXCEPT !.fin = NotFinalized], "none")}
       []   op.t = "IsFinalized" -> {Out(s, IF s.fin = Finalized THEN "true" ELSE "false")}
       []   op.t = "GetShares"  -> {Out(s, Str(Cardinality(DOMAIN s.shares)))}
=============================================================================
