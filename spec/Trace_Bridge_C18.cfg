SPECIFICATION TraceSpec
INVARIANTS HarnessProjection HarnessQuorumClass C18_MintQuorum C18_NonceOnce C18_MintAmounts C18_MintAmountsKnown
POSTCONDITION Accepted
CHECK_DEADLOCK FALSE
