------------------------- MODULE Trace_Finalization -------------------------
(***************************************************************************)
(* Trace specification for C36.  Every line is one operation performed on  *)
(* a REAL chain.Chain:                                                     *)
(*   AddBlock  b p r n   a block.Block linked to its parent was put into   *)
(*                       the chain (n: also into its round's notarized     *)
(*                       list through AddNotarizedBlockToRound)            *)
(*   Notarize  b         AddNotarizedBlockToRound for a block known before *)
(*   Compute   r lfbr res   the real ComputeFinalizedBlock(lfbr, round r), *)
(*                       res = abstract name of the returned block / none  *)
(*   Finalize  r before after   the real finalizeRound on round r, with    *)
(*                       GetLatestFinalizedBlock() read before and after   *)
(* The actions only rebuild the tree from the events; the invariants are   *)
(* the property, stated with the REFERENCE definition of FinalizationDefs  *)
(* (RefCompute), never with the code's walk.                               *)
(***************************************************************************)
EXTENDS TraceLib, FinalizationDefs

VARIABLES l, ev, par, rnd, nota, lfb, plfb
vars == <<l, ev, par, rnd, nota, lfb, plfb>>
Null == [ev |-> "none"]

TraceInit == /\ l = 1 /\ ev = Null /\ par = <<>> /\ rnd = <<>> /\ nota = {}
             /\ lfb = NoBlock /\ plfb = NoBlock

IsEvent(e) == l <= Len(Trace) /\ Trace[l].ev = e /\ l' = l + 1

TraceReset ==
  /\ IsEvent("Reset")
  /\ ev' = Null
  /\ par' = (Trace[l].genesis :> NoBlock) /\ rnd' = (Trace[l].genesis :> 0)
  /\ nota' = {Trace[l].genesis}
  /\ lfb' = Trace[l].genesis /\ plfb' = Trace[l].genesis

TraceAdd ==
  /\ IsEvent("AddBlock")
  /\ LET e == Trace[l] IN
       /\ ev' = e
       /\ par' = Put(par, e.b, e.p) /\ rnd' = Put(rnd, e.b, e.r)
       /\ nota' = IF e.n THEN nota \cup {e.b} ELSE nota
  /\ UNCHANGED <<lfb, plfb>>

TraceNotarize ==
  /\ IsEvent("Notarize")
  /\ ev' = Trace[l] /\ nota' = nota \cup {Trace[l].b}
  /\ UNCHANGED <<par, rnd, lfb, plfb>>

TraceCompute ==
  /\ IsEvent("Compute")
  /\ ev' = Trace[l]
  /\ UNCHANGED <<par, rnd, nota, lfb, plfb>>

TraceFinalize ==
  /\ IsEvent("Finalize")
  /\ ev' = Trace[l]
  /\ plfb' = lfb /\ lfb' = Trace[l].after
  /\ UNCHANGED <<par, rnd, nota>>

TraceSkip ==
  /\ l <= Len(Trace) /\ Trace[l].ev \notin {"Reset", "AddBlock", "Notarize", "Compute", "Finalize"}
  /\ l' = l + 1 /\ ev' = Null
  /\ UNCHANGED <<par, rnd, nota, lfb, plfb>>

TraceNext == TraceReset \/ TraceAdd \/ TraceNotarize \/ TraceCompute \/ TraceFinalize \/ TraceSkip
TraceSpec == TraceInit /\ [][TraceNext]_vars

-----------------------------------------------------------------------------
(* harness sanity (exit 2, not a verdict): the driver built the tree it logged, *)
(* the call returned, and nobody moved the LFB between two recorded calls       *)
NoPanic == ev.ev \in {"Compute", "Finalize"} => ~ev.panic
HarnessTree ==
  /\ ev.ev = "AddBlock" => (ev.p \in DOMAIN par /\ rnd[ev.b] = rnd[ev.p] + 1 /\ ev.linked)
  /\ ev.ev = "Notarize" => (ev.b \in DOMAIN par /\ ev.linked)
  /\ ev.ev = "Finalize" => (ev.before = plfb /\ ev.after \in DOMAIN par)
  /\ ev.ev = "Compute" => (ev.res = NoBlock \/ ev.res \in DOMAIN par)

(* C36 (1): the block returned by the real ComputeFinalizedBlock is the most   *)
(* recent block that is an ancestor of every notarized block of the latest     *)
(* round in (lfbr, r] that has any, and lies in an earlier round.              *)
C36_CommonAncestor ==
  /\ (ev.ev = "Compute" /\ ~IsKnown(ev)) => ev.res = RefCompute(par, rnd, nota, ev.lfbr, ev.r)
  /\ (ev.ev = "Finalize" /\ ~IsKnown(ev)) => ev.computed = RefCompute(par, rnd, nota, rnd[plfb], ev.r)

(* C36 (2): a finalizeRound call leaves the LFB where it was or moves it to a  *)
(* descendant that is not beyond the chosen block.  The only other move the    *)
(* specification knows is the named Rollback step of Finalization.tla: the     *)
(* chosen block is not above the LFB's round, a notarized fork deeper than the *)
(* LFB exists, and the LFB steps back to the common ancestor of both.          *)
Chosen == RefCompute(par, rnd, nota, rnd[plfb], ev.r)
IsRollback ==
  /\ ev.r > rnd[plfb] /\ Chosen # NoBlock /\ Chosen # plfb /\ rnd[Chosen] <= rnd[plfb]
  /\ DeepFork(par, rnd, nota, plfb)
  /\ lfb = CommonAnc(par, rnd, plfb, Chosen)
C36_SingleChain ==
  (ev.ev = "Finalize" /\ ~IsKnown(ev) /\ lfb # plfb) =>
     \/ (Descends(par, lfb, plfb) /\ Chosen # NoBlock /\ Descends(par, Chosen, lfb))
     \/ IsRollback
=============================================================================
