------------------------------ MODULE BlockExec ------------------------------
(***************************************************************************)
(* C06: a block is a deterministic function of (prior state, transaction   *)
(* list).  The environment of an execution (cache warmth, scheduling, Go   *)
(* map iteration order) is modelled as explicit choice points; the         *)
(* property requires every choice point to be invisible in the result      *)
(* tuple (root, change count, statuses, outputs, events).                  *)
(*                                                                         *)
(* The only places where the environment can reach the result in this      *)
(* code base are (i) loops over Go maps whose first failing entry becomes  *)
(* the transaction output (settings updates with >= 2 invalid entries),    *)
(* and (ii) values served from the state cache instead of the trie (C07).  *)
(* SortedKeys = TRUE models iteration over sorted keys (the repaired       *)
(* code); with SortedKeys = FALSE TLC exhibits the divergence.             *)
(***************************************************************************)
EXTENDS Integers, Sequences, FiniteSets, TLC

CONSTANTS Kind,        \* transaction kinds a block is made of
          MultiBad,    \* kinds whose input map has >= 2 invalid entries (subset of Kind)
          Env,         \* execution environments
          MaxLen,
          SortedKeys

VARIABLES blk, results, hist
vars == <<blk, results, hist>>

(* which invalid entry a map loop meets first: environment dependent unless keys are sorted *)
FirstBad(k, e) == IF SortedKeys THEN 1 ELSE e.maporder
(* the output of one transaction *)
Out(k, e) == IF k \in MultiBad THEN <<k, "error", FirstBad(k, e)>> ELSE <<k, "done", 0>>
Exec(b, e) == [i \in 1..Len(b) |-> Out(b[i], e)]

Init == blk = <<>> /\ results = {} /\ hist = <<>>
Extend(k) == results = {} /\ Len(blk) < MaxLen /\ blk' = Append(blk, k) /\ hist' = Append(hist, k) /\ UNCHANGED results
Run(e) == blk # <<>> /\ results' = results \cup {Exec(blk, e)} /\ UNCHANGED <<blk, hist>>
Next == (\E k \in Kind : Extend(k)) \/ (\E e \in Env : Run(e))
Spec == Init /\ [][Next]_vars

Deterministic == Cardinality(results) <= 1
=============================================================================
