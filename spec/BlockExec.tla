------------------------------ MODULE BlockExec ------------------------------
(***************************************************************************)
(* C06: a block is a deterministic function of (prior state, transaction   *)
(* list).  The environment of an execution (cache warmth, scheduling, Go   *)
(* map iteration order) is modelled as explicit choice points; the         *)
(* property requires every choice point to be invisible in the result      *)
(* tuple (root, change count, statuses, outputs, events).                  *)
(*                                                                         *)
(* The only places where the environment can reach the result in this      *)
(* code base are (i) loops over Go maps whose first failing entry becomes  *)
(* the transaction output (settings updates with >= 2 invalid entries),    *)
(* and (ii) values served from the state cache instead of the trie (C07).  *)
(* SortedKeys = TRUE models iteration over sorted keys (the repaired       *)
(* code); with SortedKeys = FALSE TLC exhibits the divergence.             *)
(*                                                                         *)
(* For (ii) the model has the prior state P and the configuration objects  *)
(* the state cache keeps (chain/state/state_context.go GetTrieNode /       *)
(* InsertTrieNode, common/core/statecache): a transaction works on a copy  *)
(* handed out by the cache (or read from the trie on a miss); a FAILED     *)
(* transaction is rolled back - its trie changes and its transaction-level *)
(* cache are dropped (chain/state.go updateState) - but it may have edited *)
(* its working copy before it failed (a settings update applies its        *)
(* entries in key order and stops at the first invalid one).               *)
(* IsolatedCopies = TRUE models the code: the working copy is a deep copy  *)
(* (Clone by serialisation).  With IsolatedCopies = FALSE the copy shares  *)
(* memory (a map) with the cache entry, the edits of the failed            *)
(* transaction stay in the entry of a warm cache, the next transaction     *)
(* that saves the object writes them to the trie, and a node with a cold   *)
(* cache computes another root: TLC exhibits it                            *)
(* (MC_BlockExec_sharedcopy_demo.cfg).                                     *)
(***************************************************************************)
EXTENDS Integers, Sequences, FiniteSets, TLC

CONSTANTS Kind,        \* transaction kinds a block is made of
          MultiBad,    \* kinds whose input map has >= 2 invalid entries (subset of Kind)
          PartFail,    \* kinds that edit their working copy of a configuration object, then fail (subset of Kind)
          Saver,       \* kinds that read a configuration object and save it (subset of Kind)
          ObjOf,       \* ObjOf[k]: the configuration object a kind of PartFail \cup Saver works on
          Env,         \* execution environments
          MaxLen,
          SortedKeys,
          IsolatedCopies

VARIABLES blk, results, hist
vars == <<blk, results, hist>>

(* which invalid entry a map loop meets first: environment dependent unless keys are sorted *)
FirstBad(k, e) == IF SortedKeys THEN 1 ELSE e.maporder
(* the output of one transaction *)
Out(k, e) == IF k \in MultiBad THEN <<k, "error", FirstBad(k, e)>>
             ELSE IF k \in PartFail THEN <<k, "error", 0>> ELSE <<k, "done", 0>>

-----------------------------------------------------------------------------
(* configuration objects: value in the trie, entry of the global + block cache ("absent" = not cached) *)
Objs == {ObjOf[k] : k \in PartFail \cup Saver}
PriorTrie == [o \in Objs |-> "prior"]
NoCache == [o \in Objs |-> "absent"]
Tainted(v) == v \in {"edited", "saved_edited"}
Read(st, o) == IF st.cache[o] # "absent" THEN st.cache[o] ELSE st.trie[o]
(* one transaction on the state (trie, cache) *)
Step(st, k) ==
  IF k \in PartFail
    THEN \* rolled back: the trie is untouched and the transaction cache is dropped; a copy that shares memory with
         \* a cache entry has changed that entry
         IF ~IsolatedCopies /\ st.cache[ObjOf[k]] # "absent"
           THEN [st EXCEPT !.cache[ObjOf[k]] = IF Tainted(@) THEN @ ELSE "edited"]
           ELSE st
  ELSE IF k \in Saver
    THEN LET v == IF Tainted(Read(st, ObjOf[k])) THEN "saved_edited" ELSE "saved_prior"
         IN [trie |-> [st.trie EXCEPT ![ObjOf[k]] = v], cache |-> [st.cache EXCEPT ![ObjOf[k]] = v]]
  ELSE st
RECURSIVE Fold(_, _, _)
Fold(st, b, i) == IF i > Len(b) THEN st ELSE Fold(Step(st, b[i]), b, i + 1)
(* the cache an execution starts with: empty (cold), that of a node that executed P (warm), or what an    *)
(* earlier warm execution of the same block left behind (used) - the trie is the prior state in all cases *)
WarmCache == [o \in Objs |-> "prior"]
StartCache(b, e) == IF e.cache = "cold" THEN NoCache
                    ELSE IF e.cache = "warm" THEN WarmCache
                    ELSE Fold([trie |-> PriorTrie, cache |-> WarmCache], b, 1).cache
Exec(b, e) == [outs |-> [i \in 1..Len(b) |-> Out(b[i], e)],
               root |-> Fold([trie |-> PriorTrie, cache |-> StartCache(b, e)], b, 1).trie]

Init == blk = <<>> /\ results = {} /\ hist = <<>>
Extend(k) == results = {} /\ Len(blk) < MaxLen /\ blk' = Append(blk, k) /\ hist' = Append(hist, k) /\ UNCHANGED results
Run(e) == blk # <<>> /\ results' = results \cup {Exec(blk, e)} /\ UNCHANGED <<blk, hist>>
Next == (\E k \in Kind : Extend(k)) \/ (\E e \in Env : Run(e))
Spec == Init /\ [][Next]_vars

Deterministic == Cardinality(results) <= 1
=============================================================================
