------------------------------ MODULE TraceLib ------------------------------
(* Shared plumbing of every trace specification: the recorded execution of   *)
(* the real code is an ndjson file named by the environment variable         *)
(* VERIF_TRACE; `l` is the position of the next event to consume.            *)
EXTENDS Integers, Sequences, FiniteSets, TLC, Json, IOUtils

Trace == ndJsonDeserialize(IOEnv.VERIF_TRACE)

Get(f, k, def) == IF k \in DOMAIN f THEN f[k] ELSE def
Put(f, k, v) == IF k \in DOMAIN f THEN [f EXCEPT ![k] = v] ELSE f @@ (k :> v)
Add(f, k, d) == Put(f, k, Get(f, k, 0) + d)

\* fold a list of [a |-> name, d |-> int] pairs
RECURSIVE AddPairs(_, _, _)
AddPairs(f, ps, i) == IF i > Len(ps) THEN f ELSE AddPairs(Add(f, ps[i].a, ps[i].d), ps, i + 1)
RECURSIVE PutPairs(_, _, _)
PutPairs(f, ps, i) == IF i > Len(ps) THEN f ELSE PutPairs(Put(f, ps[i].a, ps[i].d), ps, i + 1)
RECURSIVE SumPairs(_, _)
SumPairs(ps, i) == IF i > Len(ps) THEN 0 ELSE ps[i].d + SumPairs(ps, i + 1)
PairOf(ps, name, def) == IF \E i \in 1..Len(ps) : ps[i].a = name
                          THEN (LET i == CHOOSE j \in 1..Len(ps) : ps[j].a = name IN ps[i].d) ELSE def
RECURSIVE SumFun(_, _)
SumFun(f, S) == IF S = {} THEN 0 ELSE LET x == CHOOSE y \in S : TRUE IN f[x] + SumFun(f, S \ {x})

\* an event that bin/vcheck marked as an instance of a listed known finding (known_findings.jsonl):
\* it is still consumed and applied to the tracked state, but its property invariants are skipped
IsKnown(e) == "kfmark" \in DOMAIN e /\ e.kfmark
\* a known finding recorded with signature.scope = "invariant" suspends only the invariant it names on the
\* events it matches ("kfinv" lists those names); every other invariant of the event stays in force
IsKnownFor(e, inv) == "kfinv" \in DOMAIN e /\ \E i \in 1..Len(e.kfinv) : e.kfinv[i] = inv

\* acceptance: every line was consumed (one state per line + the initial state)
Accepted == TLCGet("stats").diameter - 1 = Len(Trace)
=============================================================================
