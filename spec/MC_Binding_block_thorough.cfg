SPECIFICATION MSpec
CONSTANTS
  Fields = {"parent","round","seed","txns","outputs","state","magicblock"}
  MustBind = {"sender","parent","round","seed","txns","outputs","state","magicblock"}
  HashInput = {"sender","parent","round","seed","txns","outputs","state","magicblock"}
  KeyInObject = FALSE
  DupShapes <- ShapesTo4
  MaxSteps = 7
VIEW MView
INVARIANTS Binds GenuineAccepted AcceptedOnlyIfIntended RepeatRejected NeutralRepeatPassesHashSig RepeatAltersUnlessNeutral
CHECK_DEADLOCK FALSE
