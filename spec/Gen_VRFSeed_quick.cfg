SPECIFICATION GenSpec
CONSTANTS
  P = 7
  MaxN = 3
  MaxT = 3
  CoefVals = {1}
  MsgVals = {1}
  Kinds = {"ok", "bad", "stale"}
  MaxArrivals = 3
  MaxPerParty = 1
  MaxInvalid = 3
INVARIANT GPrint
CHECK_DEADLOCK FALSE
