SPECIFICATION GenSpec
CONSTANTS
  P = 7
  MaxN = 3
  MaxT = 3
  CoefVals = {1}
  MsgVals = {1}
  Kinds = {"ok", "bad", "wrongmsg", "other", "stale"}
  MaxArrivals = 3
  MaxPerParty = 1
  MaxInvalid = 1
INVARIANT GPrint
CHECK_DEADLOCK FALSE
