---------------------------- MODULE TxnLifeDefs ----------------------------
(***************************************************************************)
(* Pure operators of the transaction-life specification, shared by the     *)
(* model (TxnLife.tla) and the trace specification (Trace_TxnLife.tla).    *)
(*                                                                         *)
(*   C   configuration record [tol, fn, maxtx, margin]                     *)
(*         tol     transaction.TXN_TIME_TOLERANCE                          *)
(*         fn      server_chain.transaction.future_nonce                   *)
(*         maxtx   number of pool transactions that fit under the block    *)
(*                 cost limit next to the generator's own transactions     *)
(*         margin  the clean-up worker expires at tol - margin             *)
(*   T   transaction table: id -> [s, n, ct, f, k]                         *)
(*         s sender, n nonce, ct creation time, f fee rank (unique; the    *)
(*         pool is iterated by descending fee), k kind:                    *)
(*           "ok"      well-formed, fee above the minimum                  *)
(*           "lowfee"  well-formed, fee below the minimum                  *)
(*           "tamper"  a hashed field altered after signing                *)
(*           "rehash"  altered and re-hashed (signature no longer fits)    *)
(*           "badsig"  signed with another key                             *)
(*   st  sender -> nonce in a block's state                                *)
(***************************************************************************)
EXTENDS Integers, Sequences, FiniteSets

AbsV(x) == IF x < 0 THEN 0 - x ELSE x
Within(a, b, d) == AbsV(a - b) <= d                      \* common.WithinTime
MaxOf(a, b) == IF a > b THEN a ELSE b
Unbound(k) == k \in {"tamper", "rehash", "badsig"}        \* hash or signature does not fit the contents
Range(q) == {q[i] : i \in 1..Len(q)}

-----------------------------------------------------------------------------
(* chain.PutTransaction (chaincore/chain/handler.go): Validate (time, hash, *)
(* signature), nonce window against the latest finalized state, fee.        *)
SubmitOK(C, t, now, lfbst) ==
  /\ ~Unbound(t.k)
  /\ Within(now, t.ct, C.tol)
  /\ t.n > lfbst[t.s]
  /\ t.n <= lfbst[t.s] + C.fn
  /\ t.k # "lowfee"

-----------------------------------------------------------------------------
(* Block generation, miner/protocol_block.go generateBlock as coded.        *)
(* G = the generator's working state (TxnIterInfo + the block state):       *)
(*   nonce   sender -> nonce in the block state being built                 *)
(*   blk     the block's pool transactions so far                           *)
(*   fut     sender -> parked future transactions, sorted (nonce, fee desc) *)
(*   fnonce  sender -> clientNonceTxns.nonce                                *)
(*   cur     promoted transactions (currentTxns), stable-sorted by nonce    *)
(*   ci      how many of cur the second loop has taken                      *)
(*   cost    transactions counted against the cost limit                    *)
(*   invalid transactions to be deleted from the pool (invalidTxns)         *)
(*   past    transactions classified as already applied (pastTxns; kept)    *)
GStart(st) == [nonce |-> st, blk |-> <<>>, fut |-> [s \in DOMAIN st |-> <<>>], fnonce |-> [s \in DOMAIN st |-> 0],
               cur |-> <<>>, ci |-> 0, cost |-> 0, invalid |-> {}, past |-> {}]

\* list.txns = append(list.txns, txn); sort.SliceStable by (nonce, fee descending)
RECURSIVE InsertFut(_, _, _)
InsertFut(T, fs, id) ==
  IF fs = <<>> THEN <<id>>
  ELSE IF T[id].n < T[fs[1]].n \/ (T[id].n = T[fs[1]].n /\ T[id].f > T[fs[1]].f) THEN <<id>> \o fs
  ELSE <<fs[1]>> \o InsertFut(T, Tail(fs), id)

\* sort.SliceStable(currentTxns, by nonce)
RECURSIVE InsertCur(_, _, _)
InsertCur(T, cs, id) ==
  IF cs = <<>> THEN <<id>>
  ELSE IF T[id].n < T[cs[1]].n THEN <<id>> \o cs
  ELSE <<cs[1]>> \o InsertCur(T, Tail(cs), id)
RECURSIVE MergeCur(_, _, _)
MergeCur(T, cs, ps) == IF ps = <<>> THEN cs ELSE MergeCur(T, InsertCur(T, cs, ps[1]), Tail(ps))
\* the promoted ones are appended and the whole list is re-sorted stably: an already sorted prefix keeps its order and
\* a new element goes after the elements with the same nonce

\* checkForCurrent: walk the sender's futures from the nonce just executed
RECURSIVE Walk(_, _, _, _, _, _)
Walk(T, f, i, cn, prom, past) ==
  IF i > Len(f) THEN [i |-> i, cn |-> cn, prom |-> prom, past |-> past]
  ELSE IF T[f[i]].n - cn > 1 THEN [i |-> i, cn |-> cn, prom |-> prom, past |-> past]
  ELSE IF T[f[i]].n - cn < 1 THEN Walk(T, f, i + 1, cn, prom, past \cup {f[i]})
  ELSE Walk(T, f, i + 1, T[f[i]].n, Append(prom, f[i]), past)

\* txnProcessorHandlerFunc on transaction id; result [G, ok]
Proc(C, T, bt, id, G) ==
  LET t == T[id] IN
  IF id \in Range(G.blk) THEN [G |-> G, ok |-> FALSE]                                       \* txnMap
  ELSE IF ~Within(bt, t.ct, C.tol) THEN [G |-> [G EXCEPT !.invalid = @ \cup {id}], ok |-> FALSE]   \* ErrNotTimeTolerant
  ELSE IF t.n - G.nonce[t.s] > 1
    THEN [G |-> [G EXCEPT !.fut[t.s] = InsertFut(T, @, id), !.fnonce[t.s] = MaxOf(@, G.nonce[t.s])], ok |-> FALSE]
  ELSE IF t.n - G.nonce[t.s] < 1 THEN [G |-> [G EXCEPT !.past = @ \cup {id}], ok |-> FALSE]
  ELSE \* UpdateState succeeds (the nonce is the next one; balances are ample in this model)
       LET f == G.fut[t.s] IN
       IF f = <<>>
       THEN [G |-> [G EXCEPT !.nonce[t.s] = t.n, !.blk = Append(@, id)], ok |-> TRUE]
       ELSE LET w == Walk(T, f, 1, t.n, <<>>, {}) IN
            [G |-> [G EXCEPT !.nonce[t.s] = t.n, !.blk = Append(@, id),
                             !.fut[t.s] = SubSeq(f, w.i, Len(f)), !.fnonce[t.s] = w.cn,
                             !.cur = MergeCur(T, @, w.prom), !.past = @ \cup w.past],
             ok |-> TRUE]

\* txnIterHandlerFunc on one pool member; have = its entity could be read
IterStep(C, T, bt, id, have, G) ==
  IF ~have \/ T[id].k = "lowfee" THEN [G EXCEPT !.invalid = @ \cup {id}]                   \* ValidateFee fails
  ELSE IF G.cost + 1 > C.maxtx THEN G                                                      \* too big cost, skipping
  ELSE LET r == Proc(C, T, bt, id, G) IN IF r.ok THEN [r.G EXCEPT !.cost = @ + 1] ELSE r.G

\* one turn of the loop over currentTxns; done = the loop ends
CurMore(C, G) == G.ci < Len(G.cur) /\ G.cost < C.maxtx
CurStep(C, T, bt, G) ==
  LET id == G.cur[G.ci + 1]
      r == Proc(C, T, bt, id, G) IN
  IF r.ok THEN [r.G EXCEPT !.cost = @ + 1, !.ci = @ + 1] ELSE [r.G EXCEPT !.ci = @ + 1]

\* the deferred function: futures that are too far ahead are deleted from the pool
TooFar(C, T, G) ==
  UNION {IF G.fut[s] # <<>> /\ T[G.fut[s][1]].n - G.fnonce[s] > C.fn THEN Range(G.fut[s]) ELSE {} : s \in DOMAIN G.fut}

RECURSIVE RunIter(_, _, _, _, _, _, _)
RunIter(C, T, bt, order, have, i, G) ==
  IF i > Len(order) THEN G ELSE RunIter(C, T, bt, order, have, i + 1, IterStep(C, T, bt, order[i], order[i] \in have, G))
RECURSIVE RunCur(_, _, _, _)
RunCur(C, T, bt, G) == IF CurMore(C, G) THEN RunCur(C, T, bt, CurStep(C, T, bt, G)) ELSE G

\* the whole call: order = the pool in iteration order, have = the members whose entity exists
GenRun(C, T, st, bt, order, have) == RunCur(C, T, bt, RunIter(C, T, bt, order, have, 1, GStart(st)))

\* descending fee
RECURSIVE SortByFee(_, _)
SortByFee(T, S) ==
  IF S = {} THEN <<>>
  ELSE LET m == CHOOSE x \in S : \A y \in S : T[y].f <= T[x].f IN <<m>> \o SortByFee(T, S \ {m})

-----------------------------------------------------------------------------
(* Block verification, miner/protocol_block.go VerifyBlock as coded:        *)
(* Block.Validate (no transaction twice), ValidateTransactions (creation    *)
(* time within the tolerance of the BLOCK's time, hash, signature),         *)
(* ComputeState (every nonce = state + 1).  The fee is not checked.         *)
RECURSIVE Replay(_, _, _, _)
Replay(T, x, i, st) ==
  IF i > Len(x) THEN [ok |-> TRUE, st |-> st]
  ELSE LET t == T[x[i]] IN
       IF t.n = st[t.s] + 1 THEN Replay(T, x, i + 1, [st EXCEPT ![t.s] = t.n]) ELSE [ok |-> FALSE, st |-> st]
NoDup(x) == \A i, j \in 1..Len(x) : i # j => x[i] # x[j]
TxnsValid(C, T, bt, x) == \A i \in 1..Len(x) : ~Unbound(T[x[i]].k) /\ Within(bt, T[x[i]].ct, C.tol)
VerifyOK(C, T, st, bt, x) == NoDup(x) /\ TxnsValid(C, T, bt, x) /\ Replay(T, x, 1, st).ok

-----------------------------------------------------------------------------
(* A block becomes final: FinalizeBlock deletes its transactions (entity    *)
(* and collection); transaction.RemoveFromPool removes, from the collection *)
(* only, every pool transaction whose nonce is not above the highest nonce  *)
(* of its sender in the block - computed from the ClientID fields of the    *)
(* block's transactions, which generateBlock has emptied in the node's OWN  *)
(* blocks (keepsPast).                                                       *)
MaxNonceIn(T, x, s) == LET ns == {T[x[i]].n : i \in {j \in 1..Len(x) : T[x[j]].s = s}} IN
                       IF ns = {} THEN 0 ELSE CHOOSE m \in ns : \A k \in ns : k <= m
PastOf(T, x, pool) == {id \in pool : T[id].n <= MaxNonceIn(T, x, T[id].s)}
FinPool(T, x, keepsPast, pool) == IF keepsPast THEN pool \ Range(x) ELSE (pool \ Range(x)) \ PastOf(T, x, pool)
FinEnts(x, ents) == ents \ Range(x)

(* transaction.CleanupWorker, one pass: expired transactions are deleted;   *)
(* collection members without an entity are removed from the collection.    *)
Expired(C, T, now, pool) == {id \in pool : ~Within(now, T[id].ct, C.tol - C.margin)}
CleanPool(C, T, now, pool, ents) == (pool \ Expired(C, T, now, pool)) \cap ents
CleanEnts(C, T, now, pool, ents) == ents \ Expired(C, T, now, pool)
=============================================================================
