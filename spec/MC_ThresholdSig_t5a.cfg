SPECIFICATION Spec
CONSTANTS
  P = 5
  MaxN = 2
  MaxT = 2
  IdVals = {1, 2, 3, 4}
  IdOrder = "all"
  IdSeqs <- MC_IdSeqs
  CoefVals = {0, 1, 2, 3, 4}
  Msgs = {2}
  Kinds = {"dkg", "client", "split", "sos"}
  TamperBy = {1, 2, 3, 4}
INVARIANTS TypeOK HonestSharesValidate AlteredSharesFail PartyKeysVerify EnoughSharesRecover FewerSharesUndetermined SplitNeedsAll SosExact
CHECK_DEADLOCK FALSE
