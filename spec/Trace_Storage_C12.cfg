SPECIFICATION TraceSpec
INVARIANTS NoPanic HarnessRange HarnessExact C12_ChallengePool
POSTCONDITION Accepted
CHECK_DEADLOCK FALSE
