SPECIFICATION MSpec
CONSTANTS
  Miners = {"m1","m2","m3"}
  Sharders = {"s1"}
  Stranger = "c1"
  PRs <- PR_ones
  MinN = 3
  MaxN = 3
  MinS = 1
  MaxS = 1
  K0 = 2
  T0 = 2
  MaxRound = 7
  MaxTx = 4
  Focus = "m1"
VIEW MView
INVARIANTS M_Type M_OnlyParticipants M_ListsWithPhase M_MagicBlock
PROPERTY M_PhaseOrder
CHECK_DEADLOCK FALSE
