----------------------------- MODULE MC_VRFSeed -----------------------------
(* Exhaustive configurations of VRFSeed.tla and the arrival-sequence generator of C33. *)
EXTENDS VRFSeed, Json
(* exhaustive runs identify histories with the same delivery counts (the order is in stored / valid / seed) *)
MCView == <<t, n, F, h, stored, seed, valid, [j \in 1..MaxN |-> Count(j)]>>
(* histories are prefix closed: only the maximal ones are replayed (each arrival is one event) *)
Maximal == Len(hist) = MaxArrivals \/ \A j \in Parties : Count(j) >= MaxPerParty
(* the generator fixes the DKG polynomial and the message: only the structure is replayed *)
GenInit == Init /\ F = [i \in 1..t |-> 1] /\ h = 1
GenSpec == GenInit /\ [][Next]_vars
GPrint == Maximal => PrintT(<<"BEHAVIOUR", ToJson([t |-> t, n |-> n, arrivals |-> [i \in 1..Len(hist) |-> [j |-> hist[i][1], k |-> hist[i][2]]]])>>)
=============================================================================
