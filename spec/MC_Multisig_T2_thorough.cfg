SPECIFICATION MCSpec
CONSTANTS
  Signer = {"s1", "s2", "s3"}
  Stranger = {"x", "y"}
  T = 2
  Transfers <- MCTransfers
  Expiry = 2
  InitBal = 5
  MaxTime = 7
  MaxStep = 2
INVARIANTS TypeOK C21_Once C21_Threshold C21_Distinct C21_PaidOnExec C21_ExecFlag C21_BlockClock
CHECK_DEADLOCK FALSE
