SPECIFICATION TraceSpec
INVARIANTS HarnessRecordWorks C43_MissingFork C43_BeforeFork C43_AfterFork C43_OnlyOwnerRecords
POSTCONDITION Accepted
CHECK_DEADLOCK FALSE
