------------------------------ MODULE StateSync ------------------------------
(***************************************************************************)
(* C28  Synced state changes reproduce the computed state.                 *)
(*                                                                         *)
(* A block is executed on a previous state; the executing node publishes   *)
(* the block's state changes (block.NewBlockStateChange: the new nodes of  *)
(* the Merkle trie, the declared new root, the block hash).  A syncing     *)
(* node that only has the previous state receives a change set (codec +    *)
(* PartialState.ComputeProperties) and applies it                          *)
(* (Block.ApplyBlockStateChange).                                          *)
(*                                                                         *)
(* Abstraction: the state is a map Key -> Val; the trie has two levels, a  *)
(* root node that lists its leaves and one leaf per present key.  Nodes    *)
(* are content-addressed: the "hash" of a node is the node itself, so a    *)
(* node can not lie about its hash (as in MemoryNodeDB.PutNode(n.GetHash-  *)
(* Bytes(), n)).                                                           *)
(***************************************************************************)
EXTENDS Integers, FiniteSets, Sequences

CONSTANTS Key,      \* keys of the state
          Val,      \* values (Absent is not one of them)
          Tamper    \* tamper classes explored

Absent == 0
Missing == -1
State == [Key -> Val \cup {Absent}]

Leaf(k, v) == [t |-> "leaf", k |-> k, v |-> v, kids |-> {}]
Present(S) == {k \in Key : S[k] # Absent}
RootOf(S) == [t |-> "root", k |-> Absent, v |-> Absent, kids |-> {Leaf(k, S[k]) : k \in Present(S)}]
NodesOf(S) == {RootOf(S)} \cup RootOf(S).kids
AllLeaves == {Leaf(k, v) : k \in Key, v \in Val}
AllRoots == {RootOf(S) : S \in State}

(* executing a block: the new nodes, the declared root, their number *)
Changes(S, T) == NodesOf(T) \ NodesOf(S)
Block(h, S, T) == [hash |-> h, prev |-> S, root |-> RootOf(T), count |-> Cardinality(Changes(S, T))]
(* a change set: block = the block hash it names, root = the root it declares when it is applied, *)
(* rroot = the root it declared when it was received (PartialState.ComputeProperties checks the   *)
(* nodes against THAT one and caches the computed root: GetRoot()); the two differ only for a set  *)
(* that is relabelled after receipt (class "relabel").                                             *)
Honest(h, S, T) == [block |-> h, root |-> RootOf(T), rroot |-> RootOf(T), nodes |-> Changes(S, T)]

-----------------------------------------------------------------------------
VARIABLES chain,   \* <<S0, S1, S2>>: genesis state and the states after block 1 and block 2
          local,   \* what the syncing node has for the block it syncs: NoState or [root, store]
          last     \* the last sync attempt (observation)

vars == <<chain, local, last>>
NoState == [root |-> Absent, store |-> {}]
Hash(i) == i                                  \* block i has hash i
Blk(i) == Block(Hash(i), chain[i], chain[i + 1])
Bsc(i) == Honest(Hash(i), chain[i], chain[i + 1])

(* every change set an adversary of class t can make out of block i's honest set *)
Tampered(t, i) ==
  LET b == Bsc(i) leaves == {n \in b.nodes : n.t = "leaf"} IN
  CASE t = "none"      -> {b}
    [] t = "drop"      -> {[b EXCEPT !.nodes = @ \ {n}] : n \in b.nodes}
    [] t = "extra"     -> {[b EXCEPT !.nodes = @ \cup {n}] : n \in (AllLeaves \cup {RootOf(chain[i])}) \ b.nodes}
    [] t = "alter"     -> {[b EXCEPT !.nodes = (@ \ {n}) \cup {Leaf(n.k, v)}] : n \in leaves, v \in Val} \ {b}
    [] t = "wrongroot" -> {[b EXCEPT !.root = r, !.rroot = r] : r \in AllRoots \ {b.root}}
    [] t = "wronghash" -> {[b EXCEPT !.block = h] : h \in {Hash(1), Hash(2), 99} \ {b.block}}
    [] t = "replay"    -> {Bsc(3 - i)}
    \* drop a changed leaf and fill the gap with an unchanged node the new root refers to (count kept)
    [] t = "swap"      -> {[b EXCEPT !.nodes = (@ \ {n}) \cup {m}] : n \in leaves, m \in b.root.kids \ b.nodes}
    \* a set that is consistent when received - the published set of a competing execution of block i
    \* (same previous state, another result) or the other block's set - and is given this block's hash
    \* and declared root afterwards: its cached computed root is not the root it now declares
    [] t = "relabel"   -> {[c EXCEPT !.block = b.block, !.root = b.root] :
                             c \in {Honest(99, chain[i], T) : T \in State \ {chain[i], chain[i + 1]}} \cup {Bsc(3 - i)}}

(* receipt: PartialState.ComputeProperties. The set must be non-empty, every node must hang under *)
(* one node of the set (MemoryNodeDB.ComputeRoot + validate), and that node is the declared root.  *)
RecvOK(c) ==
  /\ c.nodes # {}
  /\ \E r \in c.nodes : /\ \A n \in c.nodes \ {r} : n \in r.kids
                        /\ r = c.rroot

(* Block.ApplyBlockStateChange: block hash, declared root, node count, then MergeDB with the root  *)
(* cached at receipt and the comparison of the merged root with the block's root (it repeats the   *)
(* second check unless the set was relabelled after receipt).                                      *)
ApplyOK(b, c) ==
  /\ c.block = b.hash
  /\ c.root = b.root
  /\ Cardinality(c.nodes) = b.count
  /\ c.rroot = b.root

Merge(b, c) == [root |-> c.rroot, store |-> NodesOf(b.prev) \cup c.nodes]

Lookup(st, k) ==
  IF \E n \in st.root.kids : n.k = k
    THEN LET n == CHOOSE n \in st.root.kids : n.k = k IN IF n \in st.store THEN n.v ELSE Missing
    ELSE Absent

Init ==
  /\ chain \in {c \in [1..3 -> State] : c[1] # c[2] /\ c[2] # c[3]}
  /\ local = NoState
  /\ last = [t |-> "init", i |-> 0, recv |-> FALSE, accepted |-> FALSE, c |-> Honest(0, chain[1], chain[1])]

(* one sync attempt of block i by a node that has chain[i] only *)
Sync(t, i) ==
  /\ last.t = "init"
  /\ \E c \in Tampered(t, i) :
       LET b == Blk(i)
           acc == RecvOK(c) /\ ApplyOK(b, c)
       IN /\ last' = [t |-> t, i |-> i, recv |-> RecvOK(c), accepted |-> acc, c |-> c]
          /\ local' = IF acc THEN Merge(b, c) ELSE local
  /\ UNCHANGED chain

Next == \E t \in Tamper, i \in 1..2 : Sync(t, i)
Spec == Init /\ [][Next]_vars

-----------------------------------------------------------------------------
Synced == last.t # "init"
Target == chain[last.i + 1]

(* the published change set is accepted and reproduces exactly the executed state *)
C28_HonestReproduces ==
  (Synced /\ last.t = "none") =>
     /\ last.accepted
     /\ local.root = RootOf(Target)
     /\ \A k \in Key : Lookup(local, k) = Target[k]

(* a set whose block hash, root (declared, or the one its nodes were found to compute to) or node *)
(* count does not match is rejected                                                              *)
C28_MismatchRejected ==
  Synced => LET b == Blk(last.i) IN
     (last.c.block # b.hash \/ last.c.root # b.root \/ ~last.recv \/ last.c.rroot # b.root
        \/ Cardinality(last.c.nodes) # b.count) => ~last.accepted

(* a rejected set leaves the local state untouched *)
C28_RejectedUntouched == (Synced /\ ~last.accepted) => local = NoState

(* whatever is accepted has the declared root and never yields a value the block did not compute *)
C28_AcceptedIsComputed ==
  (Synced /\ last.accepted) =>
     /\ local.root = RootOf(Target)
     /\ \A k \in Key : Lookup(local, k) \in {Target[k], Missing}

(* PREDICTION about the code as written (not part of the property): only the "swap" class can be  *)
(* accepted with a node missing; every other accepted set yields the complete state.              *)
IncompleteOnlyBySwap ==
  (Synced /\ last.accepted /\ \E k \in Key : Lookup(local, k) = Missing) => last.t = "swap"
=============================================================================
