---------------------------- MODULE MagicBlockStore ----------------------------
(***************************************************************************)
(* The store of magic blocks by starting round                             *)
(* (chaincore/round/round_storage.go, roundStartingStorage) and the        *)
(* lookups of chaincore/chain/entity.go built on it (GetMagicBlock,        *)
(* GetMagicBlockNoOffset, GetLatestMagicBlock, GetPrevMagicBlock with      *)
(* mbRoundOffset).                                                         *)
(*                                                                         *)
(* Two layers:                                                             *)
(*  - reference operators: the magic block in force for a round is the     *)
(*    stored one with the greatest starting round not after it (Floor);    *)
(*  - the operations AS CODED (`max` shortcut in calcNearestRound and      *)
(*    FindRoundIndex, putToSlice scanning from the end, Prune removing the *)
(*    prefix up to and including the pruned round without touching `max`), *)
(*    explored exhaustively by TLC from MC_MagicBlockStore, which checks   *)
(*    that they agree with the reference.                                  *)
(*                                                                         *)
(* Named deviation: `max` is not recomputed by Prune.  It only matters     *)
(* when the newest entry is pruned (the store becomes empty) and a start   *)
(* at or below the pruned point is stored afterwards; the chain never does *)
(* that (it keeps the newest `prune_below_count` entries).  The constant   *)
(* PutBelowPruned switches such histories on.                              *)
(***************************************************************************)
EXTENDS Integers, Sequences, FiniteSets, TLC

SetMax(S) == CHOOSE x \in S : \A y \in S : y <= x
SetMin(S) == CHOOSE x \in S : \A y \in S : x <= y
None == 0                                   \* "no entity" (nil)

-----------------------------------------------------------------------------
(* Reference: m is a function  starting round -> entity                     *)
Floor(S, q) == IF \E s \in S : s <= q THEN SetMax({s \in S : s <= q}) ELSE -1
Lookup(m, q) == IF Floor(DOMAIN m, q) = -1 THEN None ELSE m[Floor(DOMAIN m, q)]
Latest(m) == IF DOMAIN m = {} THEN None ELSE m[SetMax(DOMAIN m)]
InForce(m, q) == IF Lookup(m, q) = None THEN Latest(m) ELSE Lookup(m, q)
Off(q, vco) == IF q < vco + 1 THEN q ELSE q - vco            \* mbRoundOffset
RECURSIVE SortedSeq(_)
SortedSeq(S) == IF S = {} THEN <<>> ELSE <<SetMin(S)>> \o SortedSeq(S \ {SetMin(S)})
IndexOfFloor(S, q) == Cardinality({s \in S : s <= q}) - 1     \* 0-based position of the floor, -1 if none
(* the entry before the one in force, or PrevSentinel when the one in force is the oldest / none *)
PrevInForce(m, q, sentinel) ==
  LET i == IndexOfFloor(DOMAIN m, q) IN IF i <= 0 THEN sentinel ELSE m[SortedSeq(DOMAIN m)[i]]
Restrict(m, S) == [s \in S |-> m[s]]
PutRef(m, s, e) == [x \in DOMAIN m \cup {s} |-> IF x = s THEN e ELSE m[x]]
(* pruning removed only an older prefix: everything that went is below everything that stayed *)
PrefixRemoved(before, after) == after \subseteq before /\ \A d \in before \ after : \A k \in after : d < k

-----------------------------------------------------------------------------
(* The operations as coded.                                                 *)
RECURSIVE Scan(_, _, _, _)
Scan(rs, q, i, found) ==                                   \* the loop of calcNearestRound
  IF i > Len(rs) THEN found ELSE IF q >= rs[i] THEN Scan(rs, q, i + 1, rs[i]) ELSE found
RECURSIVE ScanIdx(_, _, _, _)
ScanIdx(rs, q, i, found) ==                                \* the loop of FindRoundIndex (0-based)
  IF i > Len(rs) THEN found ELSE IF q >= rs[i] THEN ScanIdx(rs, q, i + 1, i - 1) ELSE found
CodedNearest(rs, mx, q) == IF q > mx /\ mx > 0 THEN mx ELSE Scan(rs, q, 1, -1)
CodedFindIndex(rs, mx, q) == IF q > mx /\ mx > 0 THEN Len(rs) - 1 ELSE ScanIdx(rs, q, 1, -1)
CodedGet(it, rs, mx, q) ==
  LET f == CodedNearest(rs, mx, q) IN IF f = -1 \/ f \notin DOMAIN it THEN None ELSE it[f]
CodedLatest(it, mx) == IF DOMAIN it = {} \/ mx \notin DOMAIN it THEN None ELSE it[mx]
RECURSIVE LastLess(_, _, _)
LastLess(rs, r, i) == IF i = 0 THEN 0 ELSE IF rs[i] < r THEN i ELSE LastLess(rs, r, i - 1)
CodedPutToSlice(rs, r) == LET k == LastLess(rs, r, Len(rs)) IN SubSeq(rs, 1, k) \o <<r>> \o SubSeq(rs, k + 1, Len(rs))
RECURSIVE IndexOf(_, _, _)
IndexOf(rs, r, i) == IF i > Len(rs) THEN 0 ELSE IF rs[i] = r THEN i ELSE IndexOf(rs, r, i + 1)

CONSTANTS Starts, Ents, Queries, VCO, PutBelowPruned, PrevSentinel

VARIABLES items, rounds, max, pruned, last
vars == <<items, rounds, max, pruned, last>>

Init == /\ items = <<>> /\ rounds = <<>> /\ max = 0 /\ pruned = -1
        /\ last = [op |-> "none", q |-> 0, res |-> None, pre |-> <<>>]

Put(s, e) ==
  /\ PutBelowPruned \/ DOMAIN items # {} \/ s > pruned
  /\ max' = IF s > max THEN s ELSE max
  /\ items' = PutRef(items, s, e)
  /\ rounds' = IF s \in DOMAIN items THEN rounds ELSE CodedPutToSlice(rounds, s)
  /\ last' = [op |-> "Put", q |-> s, res |-> e, pre |-> items]
  /\ UNCHANGED pruned

Prune(p) ==
  /\ IF p \notin DOMAIN items \/ IndexOf(rounds, p, 1) = 0
       THEN UNCHANGED <<items, rounds, pruned>>              \* ErrRoundEntityNotFound
       ELSE LET i == IndexOf(rounds, p, 1) IN
            /\ items' = Restrict(items, DOMAIN items \ {rounds[j] : j \in 1..i})
            /\ rounds' = SubSeq(rounds, i + 1, Len(rounds))
            /\ pruned' = IF p > pruned THEN p ELSE pruned
  /\ last' = [op |-> "Prune", q |-> p, res |-> None, pre |-> items]
  /\ UNCHANGED max

(* the lookups (they do not change the store; the properties quantify over every query round) *)
Get(q) == CodedGet(items, rounds, max, q)
FindIdx(q) == CodedFindIndex(rounds, max, q)
GetMagicBlock(q) ==                                           \* entity.go GetMagicBlock (panics on an empty store)
  LET e == CodedGet(items, rounds, max, Off(q, VCO)) IN IF e = None THEN CodedLatest(items, max) ELSE e
GetPrevMagicBlock(q) ==                                       \* entity.go GetPrevMagicBlock
  LET i == CodedFindIndex(rounds, max, Off(q, VCO)) IN
  IF i <= 0 THEN PrevSentinel
  ELSE LET e == CodedGet(items, rounds, max, rounds[i]) IN    \* rounds[i] = the code's GetRound(indexMB-1)
       IF e = None THEN PrevSentinel ELSE e

Next == \/ \E s \in Starts, e \in Ents : Put(s, e)
        \/ \E p \in Starts : Prune(p)
Spec == Init /\ [][Next]_vars

-----------------------------------------------------------------------------
(* C40 on the model                                                          *)
TypeOK == DOMAIN items \subseteq Starts /\ max \in Starts \cup {0}

C40_Index == rounds = SortedSeq(DOMAIN items)                \* independent of the insertion order
C40_MaxMaintained == DOMAIN items # {} => max = SetMax(DOMAIN items)
C40_Floor ==
  \A q \in Queries :
    /\ Get(q) = Lookup(items, q)
    /\ FindIdx(q) = IndexOfFloor(DOMAIN items, q)
    /\ DOMAIN items # {} => GetMagicBlock(q) = InForce(items, Off(q, VCO)) /\ GetMagicBlock(q) # None
C40_Prev == \A q \in Queries : GetPrevMagicBlock(q) = PrevInForce(items, Off(q, VCO), PrevSentinel)
C40_PruneKeeps ==
  last.op = "Prune" =>
     /\ PrefixRemoved(DOMAIN last.pre, DOMAIN items)
     /\ \A s \in DOMAIN items : items[s] = last.pre[s]
     /\ \A d \in DOMAIN last.pre \ DOMAIN items : d <= last.q   \* nothing after the pruned point goes
     /\ DOMAIN items # {} => \A q \in Queries : q >= SetMin(DOMAIN items) => Lookup(items, q) = Lookup(last.pre, q)
C40_PutStores == last.op = "Put" => items = PutRef(last.pre, last.q, last.res)
=============================================================================
