SPECIFICATION Spec
CONSTANTS
  Canon <- MCCanon4
  Fork <- MCFork
  Info <- MCInfo
  Genesis = "g"
  Batch = 2
  Confirmations = 1
  CountMerges = TRUE
  MaxFaults = 3
  MaxCnt = 4
  HCAhead = FALSE
  Concurrent = TRUE
  MaxLag = 1
CONSTRAINT StateConstraint
INVARIANTS TypeOK RoundMapCanonical LFBCanonical RestartPossible LFBPersisted OnlyFinalizedStored CountAtLeast CountMultiple
  ServeByRoundSound ConfirmationSound
PROPERTIES RoundMapStable LFBChain FinalizationComplete RepairCompletes RepairKeeps RepairWindow
CHECK_DEADLOCK FALSE
