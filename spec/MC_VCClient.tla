---------------------------- MODULE MC_VCClient ----------------------------
(* Exhaustive configurations of VCClient.tla and the generator of abstract   *)
(* histories that are replayed on the real client (Gen_VCClient.cfg).        *)
EXTENDS VCClient, Json

PR_ones == <<1, 1, 1, 1, 1>>
PR_two == <<1, 2, 2, 2, 2>>

(* coverage names *)
A_Block == Block
A_Sync == Sync
A_Include == \E t \in pool : Include(t)
A_Drop == \E t \in pool : Drop(t)
A_Poll == \E m \in Miner : Poll(m)
A_LoopTake == \E m \in Miner : LoopTake(m)
A_ShareRPC == \E m \in Miner, j \in Miner : ShareRPC(m, j)
A_ShareEnd == \E m \in Miner : ShareEnd(m)
A_Confirm == \E m \in Miner : Confirm(m)
A_ConfirmFail == \E m \in Miner : ConfirmFail(m)
A_Adopt == \E m \in Miner : Adopt(m)
MCNext == A_Block \/ A_Sync \/ A_Include \/ A_Drop \/ A_Poll \/ A_LoopTake \/ A_ShareRPC \/ A_ShareEnd \/ A_Confirm
          \/ A_ConfirmFail \/ A_Adopt
MCSpec == Init /\ [][MCNext]_vars

(* Run-to-completion scheduling: while a loop iteration is under way (an event is queued, the loop is sending   *)
(* shares or waits for a confirmation) only that miner's steps and the execution of its transactions are taken. *)
(* The actions stay those of VCClient.tla; only their interleaving is restricted (the unrestricted MCSpec is    *)
(* explored with smaller bounds in MC_VCClient_thorough_free.cfg).                                                      *)
Busy == {m \in Miner : cl[m].inbox # NoPn \/ cl[m].lp \in {"sharing", "confirm"}}
R_LoopTake == \E m \in Busy : LoopTake(m)
R_ShareRPC == \E m \in Busy, j \in Miner : ShareRPC(m, j)
R_ShareEnd == \E m \in Busy : ShareEnd(m)
R_Confirm == \E m \in Busy : Confirm(m)
R_ConfirmFail == \E m \in Busy : ConfirmFail(m)
R_Include == \E m \in Busy : cl[m].lp = "confirm" /\ \E t \in pool : t.from = m /\ Include(t)
F_Block == Busy = {} /\ Block
F_Sync == Busy = {} /\ Sync
F_Include == Busy = {} /\ A_Include
F_Drop == Busy = {} /\ A_Drop
F_Poll == Busy = {} /\ A_Poll
F_Adopt == Busy = {} /\ A_Adopt
RTCNext == F_Block \/ F_Sync \/ F_Include \/ F_Drop \/ F_Poll \/ F_Adopt
           \/ R_LoopTake \/ R_ShareRPC \/ R_ShareEnd \/ R_Confirm \/ R_ConfirmFail \/ R_Include
RTCSpec == Init /\ [][RTCNext]_vars
=============================================================================
