SPECIFICATION Spec
CONSTANTS
  P = 7
  MaxN = 3
  MaxT = 2
  IdVals = {1, 2, 4, 6}
  IdOrder = "asc"
  IdSeqs <- MC_IdSeqs
  CoefVals = {0, 3, 5}
  Msgs = {3}
  Kinds = {"dkg", "client", "split", "sos"}
  TamperBy = {2}
INVARIANTS TypeOK HonestSharesValidate AlteredSharesFail PartyKeysVerify EnoughSharesRecover FewerSharesUndetermined SplitNeedsAll SosExact
CHECK_DEADLOCK FALSE
