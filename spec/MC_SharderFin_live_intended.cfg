\* Liveness of the repair (not run by the check; TLC liveness checking is slow): with the intended counter semantics,
\* once the faults are over and the peers are up and up to date, a fair health check makes every round the other
\* sharders have complete in the stores, with exact transaction counters.
SPECIFICATION FairSpec
CONSTANTS
  Canon <- MCCanon2
  Fork <- MCNoFork
  Info <- MCInfo
  Genesis = "g"
  Batch = 1
  Confirmations = 1
  CountMerges = FALSE
  MaxFaults = 1
  MaxCnt = 4
  HCAhead = FALSE
  Concurrent = FALSE
  MaxLag = 0
INVARIANTS TypeOK CountExact
PROPERTIES EventuallyRepaired EventuallyExact
CHECK_DEADLOCK FALSE
