------------------------------ MODULE Gen_Vesting ------------------------------
(* Behaviour generator: TLC -simulate walks Vesting.tla and prints every        *)
(* completed walk as the list of transactions [op, d, t, ds, am, extra, delay,  *)
(* dur]; vdriver replays each list on the real chain (owner = c1, d1 = c2,      *)
(* d2 = c3; amounts x333 token-units, extra x50, time x60 s).  A walk           *)
(* alternates a clock step (0..MaxStep) and a transaction.                      *)
EXTENDS MC_Vesting, Sequences, Json
CONSTANT GenLen
VARIABLES hist, gphase
gvars == <<vars, hist, gphase>>
GInit == Init /\ hist = <<>> /\ gphase = "op"
NoAm == [d \in Dest |-> 0]
Rec(op, d, ds, am, x, dl, du) ==
  hist' = Append(hist, [op |-> op, d |-> d, t |-> now, ds |-> ds, am |-> am, extra |-> x, delay |-> dl, dur |-> du])
Simple(op, d) == Rec(op, d, {}, NoAm, 0, 0, 0)
G_Add == \E ds \in SUBSET Dest, am \in [Dest -> 0..MaxAmt], x \in 0..MaxExtra, dl \in 0..MaxDelay, du \in Durs :
           /\ \A d \in Dest \ ds : am[d] = 0
           /\ Add(ds, am, x, dl, du) /\ Rec("add", "none", ds, am, x, dl, du)
G_Any == \/ Trigger /\ Simple("trigger", "none")
         \/ UnlockOwner /\ Simple("unlock_owner", "none")
         \/ \E d \in Dest : UnlockDest(d) /\ Simple("unlock_dest", d)
         \/ \E d \in Dest : Stop(d) /\ Simple("stop", d)
         \/ Delete /\ Len(hist) >= GenLen - 3 /\ Simple("delete", "none")
G_Clock == /\ gphase = "clock" /\ gphase' = "op" /\ Len(hist) < GenLen /\ phase # "deleted"
           /\ \E d \in 0..MaxStep : now + d <= MaxTime /\ now' = now + d
           /\ UNCHANGED <<phase, start, expire, bal, present, amount, vested, move, paid, ownerGot, last, hist>>
G_Op == /\ gphase = "op" /\ Len(hist) < GenLen /\ gphase' = "clock"
        /\ IF phase = "none" THEN G_Add ELSE G_Any
G_Done == /\ gphase = "clock" /\ (Len(hist) = GenLen \/ phase = "deleted") /\ gphase' = "done"
          /\ UNCHANGED <<vars, hist>>
GNext == G_Clock \/ G_Op \/ G_Done
GSpec == GInit /\ [][GNext]_gvars
GPrint == (gphase = "done") => PrintT(<<"BEHAVIOUR", ToJson(hist)>>)
=============================================================================
