SPECIFICATION TraceSpec
INVARIANTS
  C42_SameDecision C42_AllStoreWhenDisabled
  HarnessCalls HarnessRounds HarnessSums HarnessBlocks HarnessTxns HarnessCount HarnessMBMap HarnessLFB HarnessHC
  HarnessConfirmation HarnessReads
POSTCONDITION Accepted
CHECK_DEADLOCK FALSE
