SPECIFICATION MCSpec
CONSTANTS
  Client = {c1, c2}
  Configs <- OnlyA
  InitCfg <- CfgA
  InitBal = 5
  Values = {0, 1, 2, 3, 4}
  Refills = {3}
  MaxBal = 8
  MaxTime = 3
  MaxStep = 1
  LimitOnPoured = TRUE
INVARIANTS TypeOK C17_Balance C17_Window CountersAreSums C17_ClientLimit C17_GlobalLimit
CHECK_DEADLOCK FALSE
SYMMETRY Sym
