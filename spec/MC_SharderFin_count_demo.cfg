\* Not run by the check. As coded (CountMerges = TRUE) the per-round transaction counter is not the number of
\* transactions of the round once a block's transactions are stored twice (crash inside UpdateFinalizedBlock and
\* re-finalization, or a health check that finds the counter different): TLC refutes CountExact.
SPECIFICATION Spec
CONSTANTS
  Canon <- MCCanon3
  Fork <- MCNoFork
  Info <- MCInfo
  Genesis = "g"
  Batch = 1
  Confirmations = 1
  CountMerges = TRUE
  MaxFaults = 1
  MaxCnt = 6
  HCAhead = FALSE
  Concurrent = FALSE
  MaxLag = 0
CONSTRAINT StateConstraint
INVARIANTS TypeOK CountExact
CHECK_DEADLOCK FALSE
