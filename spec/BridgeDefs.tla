----------------------------- MODULE BridgeDefs -----------------------------
(***************************************************************************)
(* Pure operators of the ZCN bridge properties C18 / C19, shared by        *)
(* Bridge.tla (design + exhaustive check) and Trace_Bridge.tla (validation *)
(* of executions of the real zcnsc contract).                              *)
(*                                                                         *)
(* A signature entry is [a |-> signer id, d |-> 0/1]; d = 1 iff the        *)
(* signature really is a signature of a's own key over the exact payload   *)
(* (burn reference, amount, nonce, receiving client).                      *)
(* Anchors: smartcontract/zcnsc/mint.go, burn.go, models.go                *)
(* (verifySignatures, getUniqueSignatures), nonce_partitions.go.           *)
(***************************************************************************)
EXTENDS Integers, Sequences, FiniteSets

\* distinct registered authorizers whose entry carries a genuine signature
ValidSigners(sigs, auth) == {sigs[i].a : i \in {j \in 1..Len(sigs) : sigs[j].d = 1}} \cap auth

\* threshold as coded: round-half-even(pct * n), pct in 1/1000   (mint.go: math.RoundToEven)
Threshold(pctMilli, n) ==
  LET x == pctMilli * n
      q == x \div 1000
      r == x % 1000
  IN IF r > 500 THEN q + 1 ELSE IF r < 500 THEN q ELSE (IF q % 2 = 0 THEN q ELSE q + 1)

\* The property's quorum, with the rounding direction left free: the number of valid distinct
\* registered signers is at least pct*n rounded to a nearest integer, and never zero.
QuorumOK(sigs, auth, pctMilli) ==
  LET n == Cardinality(auth)
      v == Cardinality(ValidSigners(sigs, auth))
  IN n > 0 /\ v > 0 /\ 1000 * v >= pctMilli * n - 500

(* ---- step predicates over a step record r ------------------------------ *)
(* r.op in {"burn","mint","other"}, r.ok, and                               *)
(* burn: r.v, r.min, r.ethEmpty, r.eth, r.preBurn, r.postBurn (eth -> nonce)*)
(* mint: r.selfRcv, r.sigs, r.pct, r.nonce, r.amt, r.credited (sum of       *)
(*       reward increases), r.creditedTo (authorizers whose reward rose)    *)
(* all:  r.preAuth, r.preMinted, r.postMinted, r.dClient, r.dWallet,        *)
(*       r.others (some other account's balance changed)                    *)

NoMoney(r) == r.dClient = 0 /\ r.dWallet = 0 /\ ~r.others

\* C19: a successful burn locks exactly the value and bumps exactly the target's nonce by one;
\* any other step leaves every burn nonce alone
BurnStepOK(r) ==
  IF r.op = "burn" /\ r.ok
  THEN /\ r.dClient = -r.v /\ r.dWallet = r.v /\ ~r.others
       /\ r.eth \in DOMAIN r.preBurn
       /\ r.postBurn = [r.preBurn EXCEPT ![r.eth] = @ + 1]
  ELSE /\ r.postBurn = r.preBurn
       /\ (r.op = "burn" => NoMoney(r))
\* C19: below the minimum or without a target address nothing succeeds
BurnGuardOK(r) == (r.op = "burn" /\ (r.v < r.min \/ r.ethEmpty)) => ~r.ok

\* C18: minted only for the submitting receiver and with a quorum of valid distinct registered signers
MintQuorumOK(r) == (r.op = "mint" /\ r.ok) => (r.selfRcv /\ QuorumOK(r.sigs, r.preAuth, r.pct))
\* C18: each nonce mints once; the minted set changes in no other way
MintNonceOK(r) ==
  IF r.op = "mint" /\ r.ok
  THEN r.nonce \notin r.preMinted /\ r.postMinted = r.preMinted \cup {r.nonce}
  ELSE r.postMinted = r.preMinted
\* C18: receiver gets amount - fee from the wallet, the fee (whatever the formula) is credited to
\* one registered authorizer; a failed mint moves nothing
MintAmountsOK(r) ==
  r.op = "mint" =>
    IF r.ok
    THEN LET fee == r.amt - r.dClient IN
         /\ fee >= 0 /\ fee <= r.amt
         /\ r.dWallet = -r.dClient /\ ~r.others
         /\ r.credited = fee
         /\ (fee > 0 => (Cardinality(r.creditedTo) = 1 /\ r.creditedTo \subseteq r.preAuth))
         /\ (fee = 0 => r.creditedTo = {})
    ELSE NoMoney(r) /\ r.credited = 0 /\ r.creditedTo = {}
=============================================================================
