---------------------------- MODULE Trace_Crypto ----------------------------
(***************************************************************************)
(* Trace spec of the threshold-cryptography family (C32, C34, C33).        *)
(* Every event is one scenario enumerated by TLC from AggSig.tla /         *)
(* ThresholdSig.tla / VRFSeed.tla, executed on the REAL code with real BLS *)
(* keys; it carries the scenario (toy scalars) and the verdicts of the     *)
(* real code.  The trace actions only consume events; each property is an  *)
(* invariant over the consumed event (and, for C33, the seeds seen so far  *)
(* in the trace).                                                          *)
(***************************************************************************)
EXTENDS TraceLib, ToyGroup

VARIABLES l, ev,
          okArr,   \* C33: senders that have delivered a genuine share in the current view
          tseed    \* C33: id of the first seed derived in this trace (0 = none yet)
vars == <<l, ev, okArr, tseed>>
Null == [ev |-> "none"]

(* a delivery is a genuine share of its sender for the view's (round, timeout count): kind "ok"; and, when  *)
(* T = 1, also another party's share (polynomials of degree 0: every party holds the same key)              *)
VrfGenuine(e) == e.kind = "ok" \/ (e.kind = "other" /\ e.t = 1)

TraceInit == l = 1 /\ ev = Null /\ okArr = {} /\ tseed = 0
TraceStep ==
  /\ l <= Len(Trace) /\ l' = l + 1 /\ ev' = Trace[l]
  /\ LET e == Trace[l] IN
       /\ okArr' = CASE e.ev \in {"Reset", "VrfView"} -> {}
                      [] e.ev = "VrfAdd" -> (IF VrfGenuine(e) THEN okArr \cup {e.j} ELSE okArr)
                      [] OTHER -> okArr
       /\ tseed' = CASE e.ev = "Reset" -> 0
                      [] e.ev = "VrfAdd" -> (IF e.has_seed /\ tseed = 0 THEN e.seed_id ELSE tseed)
                      [] OTHER -> tseed
TraceNext == TraceStep
TraceSpec == TraceInit /\ [][TraceNext]_vars

(* ------------------------------------------------------------------ C32 *)
IsAgg == ev.ev = "AggCheck"
APos == 1..ev.n
(* structural truth in the real group: position i carries exactly the claimed signer's signature of the claimed message *)
AStructOK(i) == ev.sk[i] = ev.ck[i] /\ ev.sm[i] = ev.cm[i] /\ ev.dl[i] = 0
AAllInd == \A i \in APos : ev.ind[i]
(* image of the scenario in the toy group (AggSig.tla): the coded equation over the sum *)
AExpected(i) == (ev.ck[i] * ev.cm[i]) % ev.p
ACarried(i) == (ev.sk[i] * ev.sm[i] + ev.dl[i]) % ev.p
AToyAgg == SumOver([i \in APos |-> ACarried(i)], APos, ev.p) = SumOver([i \in APos |-> AExpected(i)], APos, ev.p)
(* the errors cancel in the REAL group: integer multiples of one point sum to zero and the carried *)
(* signatures are a rearrangement of the claimed ones                                               *)
APairs == {<<ev.ck[i], ev.cm[i]>> : i \in APos} \cup {<<ev.sk[i], ev.sm[i]>> : i \in APos}
ARearranged == \A pr \in APairs : Cardinality({i \in APos : <<ev.sk[i], ev.sm[i]>> = pr})
                                  = Cardinality({i \in APos : <<ev.ck[i], ev.cm[i]>> = pr})
ARealCancel == (\E i \in APos : ~AStructOK(i)) /\ ISum(ev.c, 1) = 0 /\ ARearranged
CancelNames == {"cancel", "swap", "cancel+swap"}

(* C32: the aggregate check accepts exactly when every individual signature is valid *)
C32_AggExact == (IsAgg /\ ~IsKnown(ev)) => (ev.agg <=> AAllInd)

(* harness sanity (never a verdict): the driver built what the scenario says *)
HarnessAggInd == IsAgg => \A i \in APos : (ev.ind[i] <=> AStructOK(i))
HarnessAggLift == IsAgg => /\ \A i \in APos : (ev.c[i] % ev.p = ev.dl[i]) /\ (ev.c[i] = 0 <=> ev.dl[i] = 0)
                           /\ (ISum(ev.c, 1) = 0 <=> ISum(ev.dl, 1) % ev.p = 0)
HarnessAggPattern == IsAgg => /\ (ev.pattern \in CancelNames <=> ARealCancel)
                              /\ (ev.pattern = "valid" <=> \A i \in APos : AStructOK(i))
(* step = 0: a one-shot check; step k > 0: the k-th verification of the same (re-keyed) signer scheme objects *)
HarnessAggStep == IsAgg => (ev.step >= 0 /\ (ev.via = "rekey" <=> ev.step > 0))
(* the toy group is a homomorphic image: whatever the real equation accepts, the model's equation accepts *)
HarnessAggModelImage == IsAgg => (ev.agg => AToyAgg)

(* ------------------------------------------------------------------ C34 *)
(* Events: one terminal scenario of ThresholdSig.tla executed with real random secrets.  The predicted *)
(* verdicts are the ones ThresholdSig.tla proves for every polynomial (HonestSharesValidate,            *)
(* AlteredSharesFail, PartyKeysVerify, EnoughSharesRecover, SplitNeedsAll, SosExact); with random real  *)
(* secrets "fewer than t shares do not determine the signature" shows as "does not verify".              *)
IsDeal == ev.ev = "ThrDeal"
IsCombine == ev.ev = "ThrCombine"
IsSos == ev.ev = "ThrSos"
TParties == 1..ev.n
Tampered(i, j) == Len(ev.tam) = 3 /\ ev.tam[1] = i /\ ev.tam[2] = j
Needed == IF ev.kind = "split" THEN ev.n ELSE ev.t
ElemsOf(f) == {f[i] : i \in 1..Len(f)}

(* every honest share validates against the dealer's public polynomial, an altered one does not *)
C34_SharesValidate == (IsDeal /\ ~IsKnown(ev)) =>
    \A i, j \in TParties : (ev.valid[i][j] <=> ~Tampered(i, j))
(* every party's aggregated key signs messages that verify under its group-derived public key *)
C34_PartyKeysVerify == (IsDeal /\ ~IsKnown(ev)) =>
    /\ \A j \in TParties : ev.party_ok[j]
    \* ... and again after the same DKG objects were re-aggregated over a smaller qualified set
    /\ \A j \in 1..Len(ev.reagg_ok) : ev.reagg_ok[j]
(* >= t shares (any subset, any order): THE group signature, verifying under the group / original key; < t: not *)
C34_Recovery == (IsCombine /\ ~IsKnown(ev)) =>
    /\ (ev.k >= Needed) => (~ev.err /\ ev.verifies /\ ev.same_as_ref /\ ev.api_agree)
    /\ (ev.k < Needed) => (~ev.verifies /\ ~ev.same_as_ref)
(* ShareOrSigns.Validate: ok iff no bad entry; returns exactly the receivers whose share was revealed *)
C34_Sos == (IsSos /\ ~IsKnown(ev)) =>
    /\ (ev.ok <=> \A j \in TParties : ev.ent[j] \notin {"share_bad", "sign_bad"})
    /\ (ev.ok => ElemsOf(ev.keys) = {j \in TParties : ev.ent[j] = "share_ok"})
HarnessThrShape == (IsDeal \/ IsCombine \/ IsSos) =>
    /\ ev.t >= 1 /\ ev.t <= ev.n /\ Len(ev.ids) = ev.n
    /\ (IsCombine => ev.k = Len(ev.seq) /\ ev.k >= 1 /\ ElemsOf(ev.seq) \subseteq TParties /\ Cardinality(ElemsOf(ev.seq)) = ev.k)
    /\ (IsDeal => Len(ev.valid) = ev.n /\ Len(ev.party_ok) = ev.n)
    /\ (IsSos => Len(ev.ent) = ev.n)

(* ------------------------------------------------------------------ C33 *)
(* One trace = one (DKG, round, timeout count, previous seed); a "view" is one miner (its own DKG object, a  *)
(* fresh round object) receiving shares through the real miner.Chain.AddVRFShare: view A the arrival history *)
(* enumerated by TLC from VRFSeed.tla, view B another miner receiving all genuine shares in reverse order.   *)
(* Genuine deliveries: VrfGenuine above.                                                                     *)
IsAdd == ev.ev = "VrfAdd"
(* shares that fail verification are never counted; never more than T are kept *)
C33_NeverCountInvalid == (IsAdd /\ ~IsKnown(ev)) => (ElemsOf(ev.stored) \subseteq okArr /\ Len(ev.stored) <= ev.t)
(* fewer than T verified shares never produce a seed; T verified shares do *)
C33_SeedIffThreshold == (IsAdd /\ ~IsKnown(ev)) => (ev.has_seed <=> Cardinality(okArr) >= ev.t)
(* every view (subset, order, miner) of the same (round, timeout count, previous seed) derives the same seed *)
C33_SameSeed == (IsAdd /\ ~IsKnown(ev) /\ ev.has_seed) => (ev.seed_id # 0 /\ ev.seed_id = tseed)
HarnessVrfShape == IsAdd => (ev.t >= 1 /\ ev.t <= ev.n /\ ev.j \in 1..ev.n /\ ElemsOf(ev.stored) \subseteq 1..ev.n)
=============================================================================
