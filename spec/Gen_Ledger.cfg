SPECIFICATION GSpec
CONSTANTS
  Client = {"c1", "c2"}
  Contract = {"sc1"}
  MinerSC = "msc"
  MaxCoin = 6
  MaxSupply = 6
  MaxAmt = 2
  MaxNonce = 3
  MaxQueue = 1
  MaxTxns = 4
  Discipline = TRUE
  InitBal <- MCInitBal
INVARIANT GPrint
CHECK_DEADLOCK FALSE
