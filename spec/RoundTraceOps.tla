--------------------------- MODULE RoundTraceOps ---------------------------
(***************************************************************************)
(* The miner's round protocol as ONE composed machine, implementation-     *)
(* shaped: one operator per critical section / handler / worker step of    *)
(* the real code (anchors in comments).  Everything here is a pure         *)
(* operator over the record `n` = the state of one node, so that the same  *)
(* definitions are explored exhaustively by RoundTrace.tla (node +         *)
(* nondeterministic environment) and replayed by Trace_RoundTrace.tla on   *)
(* the recorded executions of the real miner.                              *)
(*                                                                         *)
(* Facts of the universe the node cannot choose are parameters:            *)
(*   B  : block name -> [r, gen, seed, prev, ptk]   what a block carries   *)
(*        (round, generator, round random seed, previous block, signers of *)
(*        the previous block's tickets attached to it)                     *)
(*   e.rk  : seed -> [miner -> rank]    the ranking a seed determines      *)
(*   e.own : <<round, seed, prev>> -> name of the block this node makes    *)
(*   e.mrg : proposals for which a race inside processVerifyBlock went the  *)
(*           way that merges their attached previous-block tickets          *)
(* A seed is the path of timeout counts from the trace's base block:       *)
(* SeedFor(prev, toc) - what C33 says a seed is a function of.             *)
(*                                                                         *)
(* n.cur   current round                 (chain.currentRound)              *)
(* n.lfb   latest finalized block, n.lfbr its round,                       *)
(* n.rfin  round -> block the round was finalized with (round.Finalize)    *)
(* n.tk    round of the latest LFB ticket (sharders)                       *)
(* n.rtc   chain level round timeout count (restartRound)                  *)
(* n.R     round number -> round record  (chain.rounds, miner.Round):      *)
(*         toc, soft (soft timeouts), phase, seed, shares, cache (VRF      *)
(*         shares kept for later), vrfown (timeout count of the own share),*)
(*         proposed, best (Round.Block), own (own verification ticket),    *)
(*         nb (notarized list), fin (finalizing state), coll / chan /      *)
(*         fired / acc (the verification collector: running, its channel,  *)
(*         timer fired, blocks accumulated), rtk (tickets collected on the *)
(*         round for blocks it does not have)                              *)
(* n.K     block name -> the node's block object (chain.blocks): st (block *)
(*         state), tk / bad (ticket signers / those with a bad signature), *)
(*         notar (IsBlockNotarized), rank (stored RoundRank), comp (state  *)
(*         computed)                                                       *)
(* n.mq    messages accepted by the receipt handlers, not yet dispatched   *)
(* n.gen   rounds with a block generation goroutine spawned                *)
(* n.mov   rounds r with moveToNextRoundNotAhead(r) spawned                *)
(* n.movw  ... of which blocked in waitNotAhead                            *)
(* n.fq    rounds handed to FinalizeRound (goroutine + FinalizeRoundWorker)*)
(* n.upn   proposals whose previous block's notarization is being checked  *)
(* n.nzp   blocks a notarization was ever queued for (never cleaned)       *)
(***************************************************************************)
EXTENDS Integers, Sequences, FiniteSets, TLC, FinalizationDefs

CONSTANTS Miner,        \* all miners of the magic block
          Self,         \* the node
          T,            \* VRF threshold (dkg.T)
          NT,           \* notarization threshold (tickets)
          NGen,         \* generators per round
          RestartMult,  \* soft timeouts before restartRound
          TocCap,       \* cap of a round's timeout count
          Ahead,        \* config.GetLFBTicketAhead()
          Confirm       \* confirmations before a block is finalized (3 in the code)

NoSeed == <<>>
SeedFor(prev, toc) == Append(prev, toc)

\* round phases (chaincore/round/entity.go)
ShareVRF == 0  Verify == 1  Notarize == 2  Share == 3  Complete == 4
\* block states (chaincore/block/entity.go); StateGenerated = StateVerificationPending = 1
StNew == 0  StPending == 1  StAccepted == 2  StRejected == 3  StSuccessful == 5  StFailed == 6  StNotarized == 7

Max2(a, b) == IF a > b THEN a ELSE b
Min2(a, b) == IF a < b THEN a ELSE b

NewRnd == [toc |-> 0, soft |-> 0, phase |-> ShareVRF, seed |-> NoSeed, shares |-> {}, cache |-> {}, vrfown |-> -1,
           proposed |-> {}, best |-> NoBlock, own |-> NoBlock, nb |-> <<>>, fin |-> 0, coll |-> FALSE,
           rtk |-> {}, chan |-> <<>>, fired |-> FALSE, acc |-> <<>>]

Ex(n, r) == r \in DOMAIN n.R
Has(n, b) == b \in DOMAIN n.K
GetOrCreate(n, r) == IF Ex(n, r) THEN n ELSE [n EXCEPT !.R = @ @@ (r :> NewRnd), !.rfin = @ @@ (r :> NoBlock)]   \* getOrCreateRound
PrevSeed(n, r) == IF Ex(n, r - 1) THEN n.R[r - 1].seed ELSE NoSeed
RankIn(e, seed, m) == IF seed \in DOMAIN e.rk THEN e.rk[seed][m] ELSE -1
SeqSet(s) == {s[i] : i \in 1..Len(s)}

RECURSIVE SeqWithout(_, _)
SeqWithout(s, x) == IF s = <<>> THEN <<>> ELSE IF Head(s) = x THEN SeqWithout(Tail(s), x) ELSE <<Head(s)>> \o SeqWithout(Tail(s), x)

\* insert b into a list ordered by ascending rank (= descending weight); K gives the stored RoundRank
RECURSIVE InsByRank(_, _, _)
InsByRank(K, s, b) == IF s = <<>> THEN <<b>>
                      ELSE IF K[b].rank < K[Head(s)].rank THEN <<b>> \o s
                      ELSE <<Head(s)>> \o InsByRank(K, Tail(s), b)
RECURSIVE SortByRank(_, _)
SortByRank(K, S) == IF S = {} THEN <<>>
                    ELSE LET b == CHOOSE x \in S : \A y \in S : K[x].rank <= K[y].rank IN <<b>> \o SortByRank(K, S \ {b})
\* stable sort of a sequence by stored rank
RECURSIVE InsStable(_, _, _)
InsStable(K, s, b) == IF s = <<>> THEN <<b>>
                      ELSE IF K[b].rank < K[s[Len(s)]].rank THEN InsStable(K, SubSeq(s, 1, Len(s) - 1), b) \o <<s[Len(s)]>>
                      ELSE s \o <<b>>
RECURSIVE StableByRank(_, _)
StableByRank(K, s) == IF s = <<>> THEN <<>> ELSE InsStable(K, StableByRank(K, SubSeq(s, 1, Len(s) - 1)), s[Len(s)])

-----------------------------------------------------------------------------
(* chain.blocks                                                              *)
\* tk = signers of the tickets on the object, bad = those of them whose signature does not verify (history variable:
\* the code has no such field; the harness recomputes it by verifying every ticket)
NewBlk(rank) == [st |-> StNew, tk |-> {}, bad |-> {}, notar |-> FALSE, rank |-> rank, comp |-> FALSE]
\* chain.addBlock: an existing object absorbs the tickets of the new one (none on a wire block here)
AddBlock(n, b) == IF Has(n, b) THEN n ELSE [n EXCEPT !.K = @ @@ (b :> NewBlk(0))]
\* chain.SetRoundRank with the round's current ranking
SetRank(n, e, r, b, B) == [n EXCEPT !.K[b].rank = RankIn(e, n.R[r].seed, B[b].gen)]
\* chain.AddRoundBlock: the rank is set unless the chain already holds ANOTHER object of the block
\* (same = the caller's object is the one the chain holds, or the block is new to the chain)
AddRoundBlock(n, e, r, b, B, same) == IF Has(n, b) /\ ~same THEN n ELSE SetRank(AddBlock(n, b), e, r, b, B)

\* chain.UpdateBlockNotarization after tickets were added to the block object
\* (Block.MergeVerificationTickets / AddVerificationTicket keep the first ticket of a signer); ok = the added
\* tickets are valid signatures
AddTicketsV(n, b, S, ok) ==
  LET new == S \ n.K[b].tk
      tk2 == n.K[b].tk \cup S IN
  [n EXCEPT !.K[b].tk = tk2, !.K[b].bad = IF ok THEN @ ELSE @ \cup new, !.K[b].notar = @ \/ Cardinality(tk2) >= NT]
AddTickets(n, b, S) == AddTicketsV(n, b, S, TRUE)
Good(n, b) == n.K[b].tk \ n.K[b].bad

-----------------------------------------------------------------------------
(* miner.Round.CancelVerification (miner/round.go): phase forward to Notarize, the collector's *)
(* context cancelled (its exit marks what it still holds as failed), a fresh channel           *)
FailHeld(n, r) ==
  LET held == {b \in SeqSet(n.R[r].acc) : Has(n, b) /\ n.K[b].st \in {StPending, StAccepted}} IN
  [n EXCEPT !.K = [b \in DOMAIN n.K |-> IF b \in held THEN [n.K[b] EXCEPT !.st = StFailed] ELSE n.K[b]]]
CancelVerification(n, r) ==
  LET n1 == [n EXCEPT !.R[r].phase = Max2(@, Notarize)] IN
  IF ~n.R[r].coll THEN n1
  ELSE [FailHeld(n1, r) EXCEPT !.R[r].coll = FALSE, !.R[r].chan = <<>>, !.R[r].fired = FALSE, !.R[r].acc = <<>>]
\* mc.CancelRoundVerification: + TryCancelBlockGeneration
CancelRoundVerification(n, r) == [CancelVerification(n, r) EXCEPT !.gen = @ \ {r}]

\* mc.finalizeRound: cancel, then `go mc.FinalizeRound(r)`
FinalizeRoundAsync(n, r) == [CancelRoundVerification(n, r) EXCEPT !.fq = IF r \in SeqSet(@) THEN @ ELSE Append(@, r)]

-----------------------------------------------------------------------------
(* round.Round.AddNotarizedBlock (chaincore/round/entity.go)                 *)
RoundAddNotarized(n, r, b) ==
  LET R == n.R[r]
      n0 == [n EXCEPT !.R[r].proposed = @ \cup {b}] IN
  IF b \in SeqSet(R.nb) THEN n0
  ELSE LET same == {x \in SeqSet(R.nb) : n.K[x].rank = n.K[b].rank}
           kept == IF same = {} THEN R.nb ELSE SeqWithout(R.nb, CHOOSE x \in same : TRUE)
           K2 == [n0.K EXCEPT ![b].notar = TRUE, ![b].st = StNotarized]
       IN [n0 EXCEPT !.K = K2,
                     !.R[r].phase = Max2(@, Share),
                     !.R[r].best = IF R.best = NoBlock \/ n.K[R.best].rank > n.K[b].rank THEN b ELSE @,
                     !.R[r].nb = InsByRank(K2, kept, b)]

(* chain.AddNotarizedBlockToRound: the round adopts the block's seed when it has none notarized yet *)
AddNotarizedBlockToRound(n, e, r, b, B) ==
  LET n1 == AddBlock(n, b)
      R == n1.R[r]
      n2 == IF R.seed # B[b].seed /\ R.nb = <<>>
              THEN [n1 EXCEPT !.R[r].seed = B[b].seed]      \* SetRandomSeedForNotarizedBlock (block toc is 0: SetTimeoutCount no-op)
              ELSE n1
  IN RoundAddNotarized(SetRank(n2, e, r, b, B), r, b)

(* mc.ProgressOnNotarization (miner/protocol_receive.go) *)
ProgressOnNotarization(n, r) ==
  IF n.cur <= r /\ r - n.cur <= Ahead
    THEN LET n1 == [n EXCEPT !.mov = @ \cup {r}] IN
         IF Ex(n1, n.cur) THEN CancelRoundVerification(n1, n.cur) ELSE n1
    ELSE n

(* mc.AddNotarizedBlock + mc.checkBlockNotarization (miner/protocol_round.go) *)
CanCompute(n, b, B) == Has(n, b) /\ (n.K[b].comp \/ (Has(n, B[b].prev) /\ n.K[B[b].prev].comp))
CheckBlockNotarization(n, e, r, b, B) ==
  IF ~n.K[b].notar THEN n
  ELSE LET n1 == AddNotarizedBlockToRound(n, e, r, b, B) IN
       IF ~CanCompute(n1, b, B) THEN n1                      \* "add notarized block failed": no progress
       ELSE LET n2 == [n1 EXCEPT !.K[b].comp = TRUE, !.K[b].st = StNotarized] IN
            IF B[b].seed = NoSeed THEN n2 ELSE ProgressOnNotarization(n2, r)

(* mc.ProcessVerifiedTicket *)
ProcessVerifiedTicket(n, e, r, b, m, B) ==
  LET was == n.K[b].notar IN
  IF m \in n.K[b].tk THEN n
  ELSE LET n1 == AddTickets(n, b, {m}) IN
       IF was THEN n1 ELSE CheckBlockNotarization(n1, e, r, b, B)

-----------------------------------------------------------------------------
(* VRF (miner/protocol_bls.go)                                               *)
\* a share: [m, toc, prev, good]; it verifies iff unaltered and made for the node's previous seed
ShareOK(n, r, sh) == sh.good /\ PrevSeed(n, r) # NoSeed /\ sh.prev = PrevSeed(n, r)
CacheAdd(n, r, sh) == IF \E c \in n.R[r].cache : c.m = sh.m THEN n ELSE [n EXCEPT !.R[r].cache = @ \cup {sh}]
RoundAddShare(n, r, m) ==
  IF Cardinality(n.R[r].shares) >= T \/ m \in n.R[r].shares THEN n ELSE [n EXCEPT !.R[r].shares = @ \cup {m}]

\* verifyCachedVRFShares: cached shares of the round's timeout count that verify are moved in (fixed order here)
RECURSIVE DrainCache(_, _, _)
DrainCache(n, r, todo) ==
  IF todo = {} THEN n
  ELSE LET sh == CHOOSE x \in todo : TRUE IN
       IF sh.toc = n.R[r].toc /\ ShareOK(n, r, sh)
         THEN DrainCache([RoundAddShare(n, r, sh.m) EXCEPT !.R[r].cache = @ \ {sh}], r, todo \ {sh})
         ELSE DrainCache(n, r, todo \ {sh})

\* mc.TryProposeBlock + mc.StartVerification after the seed was set
StartVerification(n, r) ==
  IF n.R[r].coll \/ n.R[r].phase >= Notarize THEN n
  ELSE [n EXCEPT !.R[r].coll = TRUE, !.R[r].phase = Max2(@, Verify), !.R[r].fired = FALSE, !.R[r].acc = <<>>]
TryPropose(n, e, r) ==
  IF r >= n.cur /\ Ex(n, r - 1) /\ RankIn(e, n.R[r].seed, Self) \in 0..(NGen - 1) THEN [n EXCEPT !.gen = @ \cup {r}] ELSE n
\* mc.ThresholdNumBLSSigReceived + computeRBO + chain.SetRandomSeed
Threshold(n, e, r) ==
  LET R == n.R[r] IN
  IF R.seed # NoSeed \/ Cardinality(R.shares) < T \/ R.nb # <<>> \/ PrevSeed(n, r) = NoSeed THEN n
  ELSE StartVerification(TryPropose([n EXCEPT !.R[r].seed = SeedFor(PrevSeed(n, r), R.toc)], e, r), r)

\* mc.AddVRFShare
AddVRFShare(n, e, r, sh) ==
  LET R == n.R[r] IN
  IF sh.toc # R.toc THEN (IF sh.toc > R.toc THEN CacheAdd(n, r, sh) ELSE n)
  ELSE IF sh.m \in R.shares THEN n
  ELSE IF Cardinality(R.shares) >= T THEN n
  ELSE IF PrevSeed(n, r) = NoSeed THEN CacheAdd(n, r, sh)
  ELSE LET n1 == DrainCache(n, r, n.R[r].cache) IN
       IF ~ShareOK(n1, r, sh) THEN n1
       ELSE Threshold(RoundAddShare(n1, r, sh.m), e, r)

\* mc.addMyVRFShare(pr, r)
AddMyVRFShare(n, e, r) ==
  LET sh == [m |-> Self, toc |-> n.R[r].toc, prev |-> PrevSeed(n, r), good |-> TRUE] IN
  AddVRFShare([n EXCEPT !.R[r].vrfown = n.R[r].toc], e, r, sh)

-----------------------------------------------------------------------------
(* mc.startNextRound (miner/protocol_round.go)                               *)
StartNextRound(n, e, r) ==
  LET n1 == IF Ex(n, r - 1) /\ n.R[r - 1].fin = 0 THEN FinalizeRoundAsync(n, r - 1) ELSE n
      existed == Ex(n1, r + 1)
      n2 == GetOrCreate(n1, r + 1)
      n3 == [n2 EXCEPT !.cur = Max2(@, r + 1)]
      n4 == FinalizeRoundAsync(n3, r)
  IN IF existed /\ n4.R[r + 1].seed # NoSeed THEN n4
     ELSE IF PrevSeed(n4, r + 1) # NoSeed /\ n4.R[r + 1].vrfown = -1 THEN AddMyVRFShare(n4, e, r + 1)
     ELSE n4

(* mc.moveToNextRoundNotAheadImpl: first half (phase, previous round), then waitNotAhead *)
NotAhead(n, r) == r + 1 <= Min2(n.tk, n.lfbr) + Ahead
MoveBegin(n, r) ==
  LET n1 == [n EXCEPT !.R[r].phase = Max2(@, Complete), !.mov = @ \ {r}, !.movw = @ \cup {r}] IN
  IF Ex(n1, r - 1) /\ n1.R[r - 1].fin = 0 THEN FinalizeRoundAsync(n1, r - 1) ELSE n1
MoveEnd(n, e, r) == StartNextRound([n EXCEPT !.movw = @ \ {r}], e, r)

\* miner.Round.AddBlockToVerify: a non-blocking send into a channel with room for one block per generator
\* (a block that finds the channel full is dropped silently)
ToVerify(n, r, b) == IF Len(n.R[r].chan) < NGen THEN [n EXCEPT !.R[r].chan = Append(@, b)] ELSE n

-----------------------------------------------------------------------------
(* block generation goroutine: mc.generateRoundBlock                         *)
OwnBlock(n, e, r) ==
  LET pb == IF Ex(n, r - 1) /\ n.R[r - 1].nb # <<>> THEN Head(n.R[r - 1].nb) ELSE NoBlock
      key == <<r, n.R[r].seed, pb>> IN
  IF pb = NoBlock \/ key \notin DOMAIN e.own THEN NoBlock ELSE e.own[key]
GenStep(n, e, r, B) ==
  LET n0 == [n EXCEPT !.gen = @ \ {r}]
      b == OwnBlock(n, e, r) IN
  IF ~Ex(n, r) \/ b = NoBlock \/ n.R[r].seed = NoSeed \/ n.cur > r THEN n0
  ELSE IF Has(n0, b) THEN n0     \* the same block again (same seed, previous block, second)
  ELSE LET n1 == [AddRoundBlock(n0, e, r, b, B, TRUE) EXCEPT !.K[b].st = StPending, !.K[b].comp = TRUE] IN
       IF n1.R[r].phase >= Notarize THEN n1
       ELSE [ToVerify(n1, r, b) EXCEPT !.R[r].proposed = @ \cup {b}]

-----------------------------------------------------------------------------
(* the verification collector: mc.CollectBlocksForVerification               *)
\* mc.VerifyRoundBlock: the checks before mc.VerifyBlock, mc.VerifyBlock itself (needs the previous block with its
\* state), then the previous block must be known as notarized
PreVerify(n, e, r, b, B) ==
  /\ n.cur = r
  /\ B[b].seed # NoSeed /\ B[b].seed = n.R[r].seed
  /\ RankIn(e, n.R[r].seed, B[b].gen) \in 0..(NGen - 1)
BlockVerifies(n, b, B) == B[b].valid /\ Has(n, B[b].prev) /\ n.K[B[b].prev].comp
BestRankedNotarized(n, r) ==
  IF n.R[r].nb = <<>> THEN NoBlock
  ELSE CHOOSE x \in SeqSet(n.R[r].nb) : \A y \in SeqSet(n.R[r].nb) : n.K[x].rank <= n.K[y].rank
\* verifyAndSend: returns <<node, success>>
VerifyAndSend(n, e, r, b, B) ==
  IF ~PreVerify(n, e, r, b, B)
    THEN <<[n EXCEPT !.K[b].st = IF n.cur # r /\ n.R[r].phase >= Notarize THEN StAccepted ELSE StFailed], FALSE>>
  ELSE IF B[b].gen # Self /\ ~BlockVerifies(n, b, B) THEN <<[n EXCEPT !.K[b].st = StFailed], FALSE>>
  ELSE IF B[b].gen # Self /\ ~n.K[B[b].prev].notar
    THEN <<[n EXCEPT !.K[b].st = StFailed, !.K[b].comp = TRUE], FALSE>>   \* verified, but built on a block not notarized
  ELSE LET n1 == [n EXCEPT !.K[b].st = StSuccessful, !.K[b].comp = TRUE]
           \* updatePriorBlock: the tickets of the previous block that came with the proposal
           n2 == IF B[b].gen # Self THEN AddTicketsV(n1, B[b].prev, B[b].ptk, B[b].pvalid) ELSE n1
           bnb == BestRankedNotarized(n2, r)
           n3 == IF bnb = NoBlock \/ bnb = b THEN [n2 EXCEPT !.R[r].own = b] ELSE n2
           n4 == IF bnb = NoBlock
                   THEN ProcessVerifiedTicket([n3 EXCEPT !.R[r].best = b], e, r, b, Self, B)
                   ELSE n3
       IN <<n4, TRUE>>

\* the collector takes one block from its channel
CollRecv(n, e, r, B) ==
  LET R == n.R[r]
      b == Head(R.chan)
      n1 == AddRoundBlock([n EXCEPT !.R[r].chan = Tail(@), !.R[r].proposed = @ \cup {b}], e, r, b, B, TRUE) IN
  IF ~R.fired THEN [n1 EXCEPT !.K[b].st = StPending, !.R[r].acc = Append(@, b)]
  ELSE IF R.best = NoBlock \/ n1.K[R.best].rank >= n1.K[b].rank
         THEN VerifyAndSend([n1 EXCEPT !.K[b].st = StPending], e, r, b, B)[1]
         ELSE [n1 EXCEPT !.K[b].st = StRejected]

\* the collector's timer fires: the accumulated blocks in rank order until the first success
RECURSIVE VerifyUntilSuccess(_, _, _, _, _)
VerifyUntilSuccess(n, e, r, todo, B) ==
  IF todo = <<>> \/ ~n.R[r].coll THEN n
  ELSE LET res == VerifyAndSend(n, e, r, Head(todo), B) IN
       IF res[2] THEN res[1] ELSE VerifyUntilSuccess(res[1], e, r, Tail(todo), B)
CollTimer(n, e, r, B) ==
  LET todo == StableByRank(n.K, n.R[r].acc)
      n1 == VerifyUntilSuccess([n EXCEPT !.R[r].fired = TRUE], e, r, todo, B) IN
  [n1 EXCEPT !.K = [b \in DOMAIN n1.K |-> IF b \in SeqSet(todo) /\ n1.K[b].st = StPending
                                            THEN [n1.K[b] EXCEPT !.st = StRejected] ELSE n1.K[b]]]

-----------------------------------------------------------------------------
(* mc.AddToRoundVerification + mc.processVerifyBlock (miner/protocol_receive.go) *)
\* A race inside processVerifyBlock (e.mrg): its goroutine (updatePreviousBlockNotarization -> GetPreviousBlock) may
\* link the wire block to the local previous block before this function looks at b.PrevBlock; if it did,
\* updatePriorBlock merges the previous-block tickets ATTACHED to the proposal into the local previous block
\* without verifying them (chain.MergeVerificationTickets re-evaluates its notarization by counting).  As FOUND the
\* code did that for any previous block, so forged attached tickets could flag a block notarized (C31; fixed in
\* /repo by merging only into a block that is notarized already).  The operator keeps the as-found capability: the
\* trace specification sets e.mrg from what the real node did (so the model follows either tree and the Cxx
\* invariants judge), RoundTrace.tla allows it only under MergeUnverified or for a notarized previous block.
PrevLinked(n, e, b, B) == B[b].r > 1 /\ b \in e.mrg /\ Has(n, B[b].prev) /\ n.K[B[b].prev].comp
AddToRoundVerification(n, e, r, b, B) ==
  LET R == n.R[r] IN
  IF R.phase >= Notarize THEN n
  ELSE IF R.fin # 0 THEN n                                   \* block state rejected on the wire object only
  ELSE IF ~Ex(n, r - 1) THEN n
  ELSE LET n0 == IF PrevLinked(n, e, b, B) THEN AddTicketsV(n, B[b].prev, B[b].ptk, B[b].pvalid) ELSE n
           n1 == AddBlock([n0 EXCEPT !.R[r].proposed = @ \cup {b}], b) IN
       IF B[b].seed = NoSeed THEN n1 ELSE ToVerify(n1, r, b)

ProcessVerifyBlock(n, e, b, B) ==
  LET r == B[b].r IN
  IF ~B[b].valid THEN n                                      \* b.Validate
  ELSE IF r < n.cur - 1 THEN n
  ELSE LET n0 == IF r > 1 /\ Ex(n, r - 1) THEN [n EXCEPT !.upn = @ \cup {b}] ELSE n IN
       IF ~Ex(n0, r) THEN AddToRoundVerification(GetOrCreate(n0, r), e, r, b, B)
       ELSE IF n0.R[r].phase >= Notarize THEN n0
       ELSE \* the wire object takes the tickets the round collected for its hash (verified at their receipt)
            LET vts == {t[2] : t \in {x \in n0.R[r].rtk : x[1] = b}}
                notar == Cardinality(vts) >= NT IN
            IF ~notar
              THEN LET n1 == AddToRoundVerification(n0, e, r, b, B) IN
                   IF Has(n1, b) /\ (Has(n0, b) \/ b \in n1.R[r].proposed) THEN AddTickets(n1, b, vts) ELSE n1
            ELSE LET n1 == AddTickets(AddBlock(n0, b), b, vts) IN
                 IF n1.R[r].seed = B[b].seed THEN CheckBlockNotarization(AddRoundBlock(n1, e, r, b, B, ~Has(n0, b)), e, r, b, B)
                 ELSE CheckBlockNotarization(AddNotarizedBlockToRound(n1, e, r, b, B), e, r, b, B)

(* mc.updatePreviousBlockNotarization (goroutine of processVerifyBlock) *)
UpnStep(n, e, b, B) ==
  LET n0 == [n EXCEPT !.upn = @ \ {b}]
      pb == B[b].prev
      r == B[b].r IN
  IF ~Has(n0, pb) \/ ~n0.K[pb].comp THEN n0                  \* GetPreviousBlock: cannot be fetched offline
  ELSE IF n0.K[pb].notar THEN n0
  ELSE IF Cardinality(B[b].ptk) < NT \/ ~B[b].pvalid THEN n0 \* VerifyNotarization fails
  ELSE LET n1 == [n0 EXCEPT !.R[r - 1].rtk = @ \cup {<<pb, m>> : m \in B[b].ptk}] IN   \* pr.AddVerificationTickets
       AddNotarizedBlockToRound(AddTickets(CancelVerification(n1, r - 1), pb, B[b].ptk), e, r - 1, pb, B)

(* mc.handleVerificationTicketMessage *)
HandleTicket(n, e, r, b, m, valid, B) ==
  IF ~valid THEN n                                           \* VerifyTickets
  ELSE IF ~Has(n, b) THEN [n EXCEPT !.R[r].rtk = @ \cup {<<b, m>>}]
  ELSE ProcessVerifiedTicket(n, e, r, b, m, B)

(* mc.notarizationProcess + mc.MergeNotarization *)
NotarizationProcess(n, e, r, b, tks, bad, B) ==
  LET n0 == GetOrCreate(n, r) IN
  IF ~Has(n0, b) THEN n0                                     \* the block cannot be fetched offline
  ELSE IF ~CanCompute(n0, b, B) THEN n0
  ELSE LET n1 == [n0 EXCEPT !.K[b].comp = TRUE] IN
       IF n1.K[b].notar THEN ProgressOnNotarization(AddNotarizedBlockToRound(n1, e, r, b, B), r)
       ELSE LET new == tks \ n1.K[b].tk IN
            IF new = {} THEN n1                              \* not notarized, nothing new: error
            ELSE IF new \cap bad # {} THEN n1                  \* VerifyTickets of the new ones fails
            ELSE LET n2 == CheckBlockNotarization(AddTickets(n1, b, new), e, r, b, B) IN
                 IF ~n2.K[b].notar THEN n2
                 ELSE ProgressOnNotarization(AddNotarizedBlockToRound(n2, e, r, b, B), r)

-----------------------------------------------------------------------------
(* receipt handlers (miner/m_handler.go): does the message get into the message channel? *)
Bound(n) == Min2(n.tk, n.lfbr)
FilterVRF(n, r, m) ==
  /\ r >= Bound(n)
  /\ r >= n.cur
  /\ Ex(n, r) => (n.R[r].seed = NoSeed /\ m \notin n.R[r].shares)
FilterPB(n, b, B) ==
  LET r == B[b].r IN
  /\ B[b].gen # Self
  /\ r >= n.lfbr
  /\ Ex(n, r - 1)
  /\ r >= n.cur - 1
  /\ Ex(n, r) => (n.R[r].phase < Notarize /\ b \notin n.R[r].proposed)
  /\ ~(Has(n, b) /\ Has(n, B[b].prev) /\ n.K[B[b].prev].notar)
\* VerificationTicketReceiptHandler creates the round as a side effect
FilterTK(n, r, b, m, B) ==
  /\ Ex(n, r - 1)
  /\ Has(n, b) => B[b].r >= n.lfbr
  /\ ~(Ex(n, r) /\ <<b, m>> \in n.R[r].rtk)
RecvTKEffect(n, r, b, B) == IF Ex(n, r - 1) /\ (Has(n, b) => B[b].r >= n.lfbr) THEN GetOrCreate(n, r) ELSE n
FilterNZ(n, r, b) ==
  /\ r >= n.lfbr
  /\ ~(Has(n, b) /\ n.K[b].notar /\ n.K[b].comp)
  /\ b \notin n.nzp

-----------------------------------------------------------------------------
(* timeouts: mc.handleRoundTimeout / restartRound                            *)
RECURSIVE KickFin(_, _, _, _)
KickFin(n, i, e_, cnt) ==
  IF i >= e_ \/ cnt >= 5 THEN n
  ELSE IF ~Ex(n, i) \/ n.R[i].fin = 2 THEN KickFin(n, i + 1, e_, cnt + 1)
  ELSE KickFin([n EXCEPT !.fq = IF i \in SeqSet(@) THEN @ ELSE Append(@, i)], i + 1, e_, cnt + 1)

\* miner.Round.Restart
RoundRestart(n, r) ==
  LET n1 == CancelRoundVerification(n, r) IN
  [n1 EXCEPT !.R[r] = [@ EXCEPT !.nb = <<>>, !.proposed = {}, !.shares = {}, !.seed = NoSeed, !.best = NoBlock,
                                !.soft = 0, !.phase = ShareVRF, !.cache = {}, !.chan = <<>>, !.rtk = {}]]

RestartRound(n, e, rn) ==
  LET n1 == [n EXCEPT !.movw = {}, !.rtc = @ + 1]            \* restart round event: waiters give up
      ahead == rn + 1 > n1.tk + Ahead
      n2 == IF ahead /\ n1.lfbr <= n1.tk THEN KickFin(n1, n1.lfbr, n1.cur, 0) ELSE n1
  IN IF n2.R[rn].nb # <<>> THEN ProgressOnNotarization(n2, rn)
     ELSE LET r == IF n2.lfbr + 1 > rn THEN n2.lfbr + 1 ELSE rn
              n3 == GetOrCreate(n2, r) IN
          IF n3.R[r].soft < RestartMult THEN n3
          ELSE IF n3.R[r].phase >= Share THEN n3               \* CompleteRoundRestartError
          ELSE LET n4 == RoundRestart(n3, r)
                   n5 == IF PrevSeed(n4, r) = NoSeed THEN n4
                         ELSE [n4 EXCEPT !.R[r].toc = IF TocCap > 0 THEN Min2(@ + 1, TocCap) ELSE @ + 1]
               IN IF PrevSeed(n5, r) # NoSeed THEN AddMyVRFShare(n5, e, r) ELSE n5

HandleRoundTimeout(n, e, rn) ==
  IF n.R[rn].soft = RestartMult THEN RestartRound(n, e, rn)
  ELSE [n EXCEPT !.R[rn].soft = @ + 1]

-----------------------------------------------------------------------------
(* mc.handleVRFShare (miner/protocol_receive.go)                             *)
HandleVRFShare(n, e, r, sh) ==
  LET n1 == GetOrCreate(n, r) IN
  IF r > n1.cur THEN CacheAdd(n1, r, sh) ELSE AddVRFShare(n1, e, r, sh)

(* mc.handleNotarizationMessage -> processNotarization: one notarization per block is ever queued *)
NzQueued(n, b) == b \notin n.nzp
HandleNotarization(n, b) == [n EXCEPT !.nzp = @ \cup {b}]

-----------------------------------------------------------------------------
(* finalization hand-off: chain.FinalizeRoundImpl -> FinalizeRoundWorker -> chain.finalizeRound -> *)
(* FinalizedBlockWorker (FinalizationDefs: the operators bound to the code by C36)                 *)
Par(n, B) == [b \in DOMAIN n.K |-> IF B[b].prev \in DOMAIN n.K THEN B[b].prev ELSE NoBlock]
Rnd(n, B) == [b \in DOMAIN n.K |-> B[b].r]
Nota(n) == UNION {SeqSet(n.R[q].nb) : q \in DOMAIN n.R}

\* the chain of blocks (oldest first) is handed block by block to FinalizedBlockWorker: finalizeBlockProcess
\* (previous round finalized with the block's parent) and chain.finalizeBlock (which refuses a block whose stored
\* rank is not a generator's rank); on an error finalizeRound resets the round's finalizing state and returns
RECURSIVE FinChain(_, _, _, _)
FinChain(n, chain, r, B) ==
  IF chain = <<>> THEN n
  ELSE LET fb == Head(chain)
           q == B[fb].r IN
       IF r - q < Confirm THEN FinChain(n, Tail(chain), r, B)
       ELSE IF ~n.K[fb].notar \/ ~Ex(n, q) THEN n               \* would be fetched from the network / no round
       ELSE IF n.lfb = fb THEN FinChain(n, Tail(chain), r, B)
       ELSE IF \/ ~Ex(n, q - 1) \/ n.rfin[q - 1] = NoBlock \/ n.rfin[q - 1] # B[fb].prev
               \/ n.K[fb].rank \notin 0..(NGen - 1)
              THEN [n EXCEPT !.R[q].fin = IF @ = 2 THEN 2 ELSE 0]
       ELSE FinChain([n EXCEPT !.lfb = fb, !.lfbr = q, !.rfin[q] = fb, !.R[q].fin = 2, !.R[q].best = fb], Tail(chain), r, B)

FinalizeRoundBody(n, r, B) ==
  LET par == Par(n, B)
      rnd == Rnd(n, B)
      nota == Nota(n)
      fb == CodeCompute(par, rnd, nota, n.lfbr, r) IN
  IF r <= n.lfbr \/ fb = NoBlock \/ fb = n.lfb THEN n
  ELSE IF rnd[fb] > n.lfbr
    THEN IF r - rnd[fb] >= 2 * Ahead THEN n
         ELSE LET bc == BackChain(par, rnd, fb, n.lfb, Ahead, <<>>) IN
              IF ~bc[1] THEN n ELSE FinChain(n, Reverse(bc[2]), r, B)
    ELSE LET ca == CommonAnc(par, rnd, n.lfb, fb) IN          \* DEVIATION kept as in the code: rollback
         IF ca = NoBlock THEN n ELSE [n EXCEPT !.lfb = ca, !.lfbr = rnd[ca]]

FinStep(n, B) ==
  LET r == Head(n.fq)
      n0 == [n EXCEPT !.fq = Tail(@)] IN
  IF ~Ex(n0, r) \/ n0.R[r].fin = 2 \/ n0.R[r].nb = <<>> THEN n0
  ELSE FinalizeRoundBody([n0 EXCEPT !.R[r].fin = IF @ = 0 THEN 1 ELSE @], r, B)

-----------------------------------------------------------------------------
(* the node comes to rest: every spawned goroutine runs (fixed order; the exhaustive model *)
(* RoundTrace.tla interleaves the same steps freely)                                        *)
CollReady(n) == {r \in DOMAIN n.R : n.R[r].coll /\ (n.R[r].chan # <<>> \/ ~n.R[r].fired)}
MoveReady(n) == {r \in n.movw : Ex(n, r) /\ NotAhead(n, r)}
Busy(n) == n.upn # {} \/ n.gen # {} \/ CollReady(n) # {} \/ n.mov # {} \/ n.fq # <<>> \/ MoveReady(n) # {}
\* order: the collector empties its channel at once; a block generation spawned together with the collector
\* completes (a few ms) before the collector's timer fires (server_chain.block.proposal.max_wait_time, 120 ms in
\* the harness configuration), so the node's own proposal is among the accumulated blocks; the harness sends
\* nothing while a timer is pending
CollDrain(n) == {r \in DOMAIN n.R : n.R[r].coll /\ n.R[r].chan # <<>>}
Step(n, e, B) ==
  IF n.upn # {} THEN UpnStep(n, e, CHOOSE b \in n.upn : TRUE, B)
  ELSE IF CollDrain(n) # {} THEN CollRecv(n, e, CHOOSE x \in CollDrain(n) : \A y \in CollDrain(n) : x <= y, B)
  ELSE IF n.gen # {} THEN GenStep(n, e, CHOOSE r \in n.gen : TRUE, B)
  ELSE IF CollReady(n) # {} THEN CollTimer(n, e, CHOOSE x \in CollReady(n) : \A y \in CollReady(n) : x <= y, B)
  ELSE IF n.mov # {} THEN MoveBegin(n, CHOOSE r \in n.mov : \A y \in n.mov : r <= y)
  ELSE IF n.fq # <<>> THEN FinStep(n, B)
  ELSE MoveEnd(n, e, CHOOSE r \in MoveReady(n) : \A y \in MoveReady(n) : r <= y)
RECURSIVE Settle(_, _, _, _)
Settle(n, e, B, fuel) == IF fuel = 0 \/ ~Busy(n) THEN n ELSE Settle(Step(n, e, B), e, B, fuel - 1)

=============================================================================
