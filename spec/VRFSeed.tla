------------------------------ MODULE VRFSeed ------------------------------
(***************************************************************************)
(* C33 - every miner derives the same round random seed.                   *)
(*                                                                         *)
(* miner/protocol_bls.go, chaincore/round/entity.go, as coded:             *)
(*   AddVRFShare(round, share from party j):                               *)
(*     share.timeoutCount # round.timeoutCount      -> ignored             *)
(*     a share of j is already stored                -> ignored            *)
(*     |stored| >= T                                 -> ignored            *)
(*     ~VerifySignature(share, msg, gmpk[id_j])      -> ignored            *)
(*     Round.AddVRFShare(share, T)  (stores; again refuses at >= T / dup)  *)
(*     ThresholdNumBLSSigReceived: if no seed yet and |stored| >= T:       *)
(*        seed := first 16 hex digits of Hash(RecoverGroupSig(stored))     *)
(*   msg = "<round><timeout count><previous seed in hex>"                  *)
(*                                                                         *)
(* Toy group (ToyGroup.tla): the DKG is summarised by its aggregated       *)
(* polynomial F of degree T-1 (party j holds F(j), public key F(j), group  *)
(* secret F(0), see ThresholdSig.tla); the message is the scalar h, which  *)
(* stands for (round, timeout count, previous seed).                       *)
(***************************************************************************)
EXTENDS ToyGroup, TLC

CONSTANTS P, MaxN, MaxT,
          CoefVals,     \* coefficients of F
          MsgVals,      \* message scalars (non-zero)
          Kinds,        \* subset of {"ok", "bad", "wrongmsg", "other", "stale"}
          MaxArrivals,  \* shares delivered to the miner
          MaxPerParty,  \* deliveries per sender
          MaxInvalid    \* deliveries that are not genuine shares of this (round, timeout count)

VARIABLES t, n, F, h,
          stored,       \* function: sender -> stored share value (the round's share map)
          seed,         \* 0 = not set, otherwise 1 + group signature
          valid,        \* senders that have delivered a valid share for this (round, timeout count)
          hist          \* delivered <<sender, kind>>
vars == <<t, n, F, h, stored, seed, valid, hist>>

Parties == 1..n
Secret(j) == Eval(F, j, P)
Public(j) == Secret(j)
GroupSecret == F[1]
OtherMsg == (h % (P - 1)) + 1                         \* a message # h (another timeout count / previous seed)
NextParty(j) == (j % n) + 1
SeedOf(groupSig) == groupSig + 1

(* what travels *)
ShareVal(j, k) ==
  CASE k = "bad"      -> (Sig(Secret(j), h, P) + 1) % P          \* altered share
    [] k = "wrongmsg" -> Sig(Secret(j), OtherMsg, P)             \* j's share for another message
    [] k = "other"    -> Sig(Secret(NextParty(j)), h, P)         \* somebody else's share sent as j's
    [] OTHER          -> Sig(Secret(j), h, P)                    \* "ok", "stale"

Init == /\ t \in 1..MaxT /\ n \in 1..MaxN /\ t <= n /\ n < P
        /\ F \in [1..t -> CoefVals] /\ h \in MsgVals
        /\ stored = <<>> /\ seed = 0 /\ valid = {} /\ hist = <<>>

Count(j) == Cardinality({i \in 1..Len(hist) : hist[i][1] = j})
Senders == DOMAIN stored

RecoverStored(st) ==
  LET js == SetToSeq(DOMAIN st) IN Recover(js, [i \in 1..Len(js) |-> st[js[i]]], P)

(* mc.AddVRFShare as coded *)
Arrive(j, k) ==
  /\ Len(hist) < MaxArrivals /\ j \in Parties /\ k \in Kinds /\ Count(j) < MaxPerParty
  /\ (k = "other" => n > 1)
  /\ (k # "ok" => Cardinality({i \in 1..Len(hist) : hist[i][2] # "ok"}) < MaxInvalid)
  /\ hist' = Append(hist, <<j, k>>)
  /\ LET v == ShareVal(j, k)
         ok == Ver(v, Public(j), h, P)
         accept == k # "stale" /\ j \notin Senders /\ Cardinality(Senders) < t /\ ok
         st2 == IF accept THEN [x \in Senders \cup {j} |-> IF x = j THEN v ELSE stored[x]] ELSE stored
     IN /\ stored' = st2
        /\ valid' = IF k # "stale" /\ ok THEN valid \cup {j} ELSE valid
        /\ seed' = IF accept /\ seed = 0 /\ Cardinality(DOMAIN st2) >= t THEN SeedOf(RecoverStored(st2)) ELSE seed
  /\ UNCHANGED <<t, n, F, h>>

Next == \E j \in 1..MaxN : \E k \in Kinds : Arrive(j, k)
Spec == Init /\ [][Next]_vars

(* ---- C33 on the model ---------------------------------------------------- *)
TypeOK == t <= n /\ Senders \subseteq Parties /\ seed \in 0..P
C33_Cap == Cardinality(Senders) <= t
C33_OnlyValidStored == \A j \in Senders : stored[j] = Sig(Secret(j), h, P) /\ j \in valid
C33_SeedIffThreshold == (seed # 0) <=> (Cardinality(valid) >= t)
(* the seed is the one determined by the DKG and the message alone: every subset and order gives it *)
C33_SeedFunction == (seed # 0) => seed = SeedOf(Sig(GroupSecret, h, P))
=============================================================================
