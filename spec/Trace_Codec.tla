----------------------------- MODULE Trace_Codec -----------------------------
(***************************************************************************)
(* Trace spec for C08.  Each `RT` event is one value of one stored type    *)
(* (one registered schema version of it) instantiated from one class       *)
(* vector of Codec.tla, with the outcome of the REAL MarshalMsg ->         *)
(* UnmarshalMsg -> MarshalMsg.  Each `Mig` event is one real MigrateFrom   *)
(* step v_i -> v_{i+1} of an entitywrapper type on a stored-and-reloaded   *)
(* value, followed by storing and reloading the migrated entity.           *)
(* The actions only consume events; the property is in the invariants.     *)
(***************************************************************************)
EXTENDS TraceLib
C == INSTANCE Codec WITH NVersions <- 2, FieldNames <- {"a", "b", "c"}, FieldsOf <- <<{"a", "b"}, {"a", "b", "c"}>>,
                         MVals <- {"zero"}, DropOnMigrate <- {}, DispatchByTag <- TRUE,
                         mem <- 0, stored <- 0, truth <- 0, codeVer <- 0

VARIABLES l, ev
vars == <<l, ev>>
Null == [ev |-> "none"]

TraceInit == l = 1 /\ ev = Null
TraceNext == l <= Len(Trace) /\ l' = l + 1 /\ ev' = Trace[l]
TraceSpec == TraceInit /\ [][TraceNext]_vars

IsRT == ev.ev = "RT" /\ ~IsKnown(ev)
IsMig == ev.ev = "Mig" /\ ~IsKnown(ev)

\* Decode(Encode(x)) = x : the stored bytes decode, and to an equal value
C08_Lossless == IsRT => (ev.encode_ok /\ ev.decode_ok /\ ev.eq_value)
\* Encode(Decode(Encode(x))) = Encode(x), and Encode is a function of the value (not of Go's map order)
C08_Canonical == IsRT => (ev.stable /\ (ev.decode_ok => ev.eq_bytes))
\* every registered migration step keeps the common fields, and the migrated entity is stored under,
\* and read back as, the new version
C08_MigrationPreserves == IsMig => (ev.ok /\ ev.common_ok /\ ev.version_ok /\ ev.rt_ok)

\* binding of the driver to the model: the class vector of every event is one TLC enumerated, the
\* round is one of the model's, migrations go to the next version only
VecOf(e) == [s \in 1..Len(e.vec) |-> e.vec[s]]
HarnessVectorFromModel == ev.ev \in {"RT", "Mig"} => (VecOf(ev) \in C!Vectors /\ ev.round \in C!Rounds)
HarnessNonEmpty == ev.ev = "RT" => ev.leaves >= 0
=============================================================================
