---------------------------- MODULE Trace_Bridge ----------------------------
(***************************************************************************)
(* Trace spec for C18 / C19.  Every Burn / Mint / Auth event is one real   *)
(* zcnsc transaction executed through Chain.UpdateState, with its          *)
(* arguments, its outcome, the balance deltas it caused and the bridge     *)
(* state READ BACK from the real MPT after it (burn nonce per Ethereum     *)
(* address, the minted-nonce partitions, registered authorizers, reward    *)
(* totals of the authorizers' stake pools).  The actions only consume the  *)
(* events (pre := post, post := projection); the invariants relate two     *)
(* consecutive projections with the step predicates of BridgeDefs.tla,     *)
(* the same predicates TLC checks on the model (Bridge.tla).               *)
(* Ledger `Txn` events of the same transactions are skipped here.          *)
(***************************************************************************)
EXTENDS TraceLib, BridgeDefs

VARIABLES l, ev, pre, post
vars == <<l, ev, pre, post>>
Null == [ev |-> "none"]

SetOf(s) == {s[i] : i \in 1..Len(s)}
FunOf(ps) == [x \in {ps[i].a : i \in 1..Len(ps)} |-> PairOf(ps, x, 0)]
State(e) == [auth |-> SetOf(e.auth), minted |-> SetOf(e.minted), burn |-> FunOf(e.nonces), rewards |-> FunOf(e.rewards)]
Empty == [auth |-> {}, minted |-> {}, burn |-> <<>>, rewards |-> <<>>]
StepEvents == {"Burn", "Mint", "Auth"}

TraceInit == l = 1 /\ ev = Null /\ pre = Empty /\ post = Empty
TraceReset == /\ l <= Len(Trace) /\ Trace[l].ev = "Reset" /\ l' = l + 1 /\ ev' = Trace[l]
              /\ pre' = State(Trace[l]) /\ post' = State(Trace[l])
TraceStep == /\ l <= Len(Trace) /\ Trace[l].ev \in StepEvents /\ l' = l + 1 /\ ev' = Trace[l]
             /\ pre' = post /\ post' = State(Trace[l])
TraceOther == /\ l <= Len(Trace) /\ Trace[l].ev \notin StepEvents \cup {"Reset"} /\ l' = l + 1 /\ ev' = Trace[l]
              /\ UNCHANGED <<pre, post>>
TraceNext == TraceReset \/ TraceStep \/ TraceOther
TraceSpec == TraceInit /\ [][TraceNext]_vars

(* ---- the step record of BridgeDefs, built from the event and the two projections ---- *)
Delta(name) == PairOf(ev.delta, name, 0)
Others(names) == \E i \in 1..Len(ev.delta) : ev.delta[i].a \notin names
RDelta(a) == post.rewards[a] - (IF a \in DOMAIN pre.rewards THEN pre.rewards[a] ELSE 0)
Common(op, client) ==
  [op |-> op, ok |-> ev.class = "ok", preAuth |-> pre.auth, preMinted |-> pre.minted, postMinted |-> post.minted,
   preBurn |-> pre.burn, postBurn |-> post.burn,
   dClient |-> Delta(client), dWallet |-> Delta("zcnsc"), others |-> Others({client, "zcnsc"})]
R == CASE ev.ev = "Burn" -> Common("burn", ev.client) @@
                            [v |-> ev.value, min |-> ev.min_burn, ethEmpty |-> (ev.eth = ""), eth |-> ev.eth]
       [] ev.ev = "Mint" -> Common("mint", ev.client) @@
                            [selfRcv |-> (ev.receiver = ev.client), sigs |-> ev.sigs, pct |-> ev.pct_milli, nonce |-> ev.nonce,
                             amt |-> ev.amount,
                             credited |-> SumFun([a \in DOMAIN post.rewards |-> RDelta(a)], DOMAIN post.rewards),
                             creditedTo |-> {a \in DOMAIN post.rewards : RDelta(a) # 0}]
       [] OTHER -> Common("other", "nobody")
IsStep == ev.ev \in StepEvents

(* C19 *)
C19_BurnExact == IsStep => BurnStepOK(R)
C19_BurnGuard == IsStep => BurnGuardOK(R)
(* C18.  An event that bin/vcheck marked as an instance of a listed known finding (known_findings.jsonl) *)
(* skips exactly the invariant of that deviation: a successful mint whose fee was credited to nobody     *)
(* (fee_credited = FALSE, fee_credit = "none") while a signing authorizer's stake is below the pool's    *)
(* minimum (auth_understaked).  Everything else about such an event is still checked.                    *)
C18_MintQuorum == IsStep => MintQuorumOK(R)
C18_NonceOnce == IsStep => MintNonceOK(R)
KnownFeeUncredited == IsKnown(ev) /\ ev.ev = "Mint" /\ ev.class = "ok" /\ ~ev.fee_credited /\ ev.fee_credit = "none" /\ ev.auth_understaked
C18_MintAmounts == (IsStep /\ ~KnownFeeUncredited) => MintAmountsOK(R)
\* what must hold even for the known deviation: receiver and wallet move together, nothing else moves
C18_MintAmountsKnown == (IsStep /\ KnownFeeUncredited) =>
    (R.dWallet = -R.dClient /\ ~R.others /\ R.dClient >= 0 /\ R.dClient <= R.amt /\ R.credited = 0)

(* harness guards: the projection is complete, and the driver's input classification agrees with the spec's *)
HarnessProjection == IsStep => (DOMAIN post.burn = DOMAIN pre.burn /\ DOMAIN post.rewards = DOMAIN pre.rewards)
HarnessQuorumClass == (IsStep /\ ev.ev = "Mint") =>
    ((ev.quorum = "valid") <=> (LET n == Cardinality(pre.auth) v == Cardinality(ValidSigners(ev.sigs, pre.auth)) IN
                                 v > 0 /\ v >= Threshold(ev.pct_milli, n)))
=============================================================================
