SPECIFICATION Spec
CONSTANTS
  Fixed = FALSE
  Scenarios <- MCScenarios
INVARIANTS RaceOnlyAtDeviation LockDiscipline
CHECK_DEADLOCK FALSE
