SPECIFICATION Spec
CONSTANTS
  Node = {"n1", "n2", "n3"}
  IdOrder <- MCIdOrder3
  Seeds = {1}
  PermOf <- MCPerm
  Scores = {1, 2}
  NReps <- MCNRepsShare
  IndexBySortedId = TRUE
  CutAtN = FALSE
  Sharing = TRUE
  ReplaceByKey = TRUE
  MaxReAdd = 1
  CanonicalFirst = TRUE
INVARIANTS TypeOK C42_SameSet C42_AtLeastN C42_AllWhenDisabled M_Pool2EachOnce
ACTION_CONSTRAINT HistoryAfterBuild
CHECK_DEADLOCK FALSE
