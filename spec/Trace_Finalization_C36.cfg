SPECIFICATION TraceSpec
INVARIANTS NoPanic HarnessTree C36_CommonAncestor C36_SingleChain
POSTCONDITION Accepted
CHECK_DEADLOCK FALSE
