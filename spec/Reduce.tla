------------------------------- MODULE Reduce -------------------------------
(***************************************************************************)
(* C39.  View-change node selection (minersc SimpleNodes.reduce and its    *)
(* callers reduceNodes / reduceShardersList), specified declaratively.     *)
(*                                                                         *)
(*   Reduce(cands, stake, prev, limit, pct, seed)                          *)
(*                                                                         *)
(*   - returns exactly  MaxNodes = min(limit, |cands|)  candidates;        *)
(*   - first the QUOTA: the x = min(|prev \cap cands|, ceil(pct*MaxNodes)) *)
(*     highest-stake members of the previous set are kept (which of        *)
(*     several equal-stake previous members fills the quota is left open:  *)
(*     the property is silent about it);                                   *)
(*   - then the FILL: the remaining y = MaxNodes - x places go to the      *)
(*     other candidates by stake, descending;                              *)
(*   - candidates TIED at the cut-off stake of the fill: the k of them     *)
(*     that get in are Pick(seed, tied, k): a function of the seed and of  *)
(*     the tied set only.  No tied candidate is in (or out) whatever the   *)
(*     seed, and the pick does not depend on the ids' values (renaming     *)
(*     the candidates order-preservingly renames the result).              *)
(*                                                                         *)
(* pct is a whole percentage (0..100); stakes are naturals.                *)
(***************************************************************************)
EXTENDS Integers, FiniteSets, Sequences

Min(a, b) == IF a < b THEN a ELSE b
CeilPct(pct, n) == (pct * n + 99) \div 100

MaxNodes(cands, limit) == Min(limit, Cardinality(cands))
Quota(cands, prev, limit, pct) ==
  Min(Cardinality(prev \cap cands), CeilPct(pct, MaxNodes(cands, limit)))

(* S is a choice of the highest-stake elements of U *)
IsTop(S, U, stake) == S \subseteq U /\ \A a \in S, b \in U \ S : stake[a] >= stake[b]
TopSets(U, k, stake) == {S \in SUBSET U : Cardinality(S) = k /\ IsTop(S, U, stake)}

(* ---- the fill of y places from pool U ---- *)
(* cut-off stake: the y-th highest stake of U (defined for 0 < y <= |U|) *)
CutStake(U, y, stake) ==
  CHOOSE c \in {stake[u] : u \in U} :
     /\ Cardinality({u \in U : stake[u] > c}) < y
     /\ Cardinality({u \in U : stake[u] >= c}) >= y
Sure(U, y, stake) == IF y = 0 \/ Cardinality(U) <= y THEN (IF y = 0 THEN {} ELSE U)
                     ELSE {u \in U : stake[u] > CutStake(U, y, stake)}
Tied(U, y, stake) == IF y = 0 \/ Cardinality(U) <= y THEN {}
                     ELSE {u \in U : stake[u] = CutStake(U, y, stake)}
TiedK(U, y, stake) == y - Cardinality(Sure(U, y, stake))     \* places left for the tied ones
RealTie(U, y, stake) == LET k == TiedK(U, y, stake) IN 0 < k /\ k < Cardinality(Tied(U, y, stake))

(* ---- Pick: a seeded choice of k out of the tied set T.                 *)
(* The model uses one concrete seeded choice: the k elements of T that    *)
(* follow cyclic position `seed` in the canonical order `ord` (a sequence *)
(* of all names).  Any function of (seed, T, k) that lets every element   *)
(* in and out for some seed would do.                                     *)
SeqOf(T, ord) == SelectSeq(ord, LAMBDA n : n \in T)
Pick(seed, T, k, ord) ==
  LET s == SeqOf(T, ord)  n == Len(s)
  IN IF n = 0 THEN {} ELSE {s[((seed + i) % n) + 1] : i \in 0..(k - 1)}

(* the deviation suspected in the code (DESIGN 7 #11): when the tied range *)
(* starts at the first place of the fill, its first element (lowest id) is *)
(* taken unconditionally and only the rest is picked by the seed           *)
PickAsCoded(seed, T, k, ord, tieAtHead) ==
  LET s == SeqOf(T, ord) IN
  IF tieAtHead /\ Len(s) >= 2 /\ k >= 1
    THEN {s[1]} \cup Pick(seed, T \ {s[1]}, k - 1, ord)
    ELSE Pick(seed, T, k, ord)

(* the quota as the code fills it: by stake, then by canonical order *)
RECURSIVE TakeTop(_, _, _, _)
TakeTop(U, k, stake, ord) ==
  IF k = 0 \/ U = {} THEN {}
  ELSE LET best == CHOOSE u \in U : \A v \in U \ {u} :
                      stake[u] > stake[v] \/ (stake[u] = stake[v] /\
                        (CHOOSE i \in 1..Len(ord) : ord[i] = u) < (CHOOSE i \in 1..Len(ord) : ord[i] = v))
       IN {best} \cup TakeTop(U \ {best}, k - 1, stake, ord)

Reduce(cands, stake, prev, limit, pct, seed, ord, headBug) ==
  LET mx == MaxNodes(cands, limit)
      x  == Quota(cands, prev, limit, pct)
      P  == TakeTop(prev \cap cands, x, stake, ord)
      U  == cands \ P
      y  == mx - x
      T  == Tied(U, y, stake)
      sure == Sure(U, y, stake)
  IN P \cup sure \cup PickAsCoded(seed, T, TiedK(U, y, stake), ord, headBug /\ sure = {})

(* ---- the properties of one result R (also evaluated on recorded results) ---- *)
Exact(R, cands, limit) == R \subseteq cands /\ Cardinality(R) = MaxNodes(cands, limit)
QuotaKept(R, cands, stake, prev, limit, pct) ==
  \E P \in TopSets(prev \cap cands, Quota(cands, prev, limit, pct), stake) : P \subseteq R
StakeOrdered(R, cands, stake, prev, limit, pct) ==
  \E P \in TopSets(prev \cap cands, Quota(cands, prev, limit, pct), stake) :
     P \subseteq R /\ IsTop(R \ P, cands \ P, stake)

(* D = the set of results obtained over a family of seeds: the tied choice is made by the seed alone *)
TieBySeedOnly(D, cands, stake, prev, limit, pct) ==
  \E P \in TopSets(prev \cap cands, Quota(cands, prev, limit, pct), stake) :
     /\ \A R \in D : P \subseteq R
     /\ LET U == cands \ P
            y == MaxNodes(cands, limit) - Cardinality(P)
        IN RealTie(U, y, stake) =>
             \A t \in Tied(U, y, stake) : (\E R \in D : t \in R) /\ (\E R \in D : t \notin R)

(* renaming the candidates (same stakes, other ids => another canonical order of the  *)
(* names): wherever the quota is determined by the stakes, the tied candidates that   *)
(* get in occupy the same POSITIONS of the tied set's canonical order, seed by seed.  *)
(* R1, R2: results per seed (functions over Seeds) under orders ord1, ord2            *)
QuotaDetermined(cands, stake, prev, limit, pct) ==
  Cardinality(TopSets(prev \cap cands, Quota(cands, prev, limit, pct), stake)) = 1
RelabelInvariant(R1, ord1, R2, ord2, Seeds, cands, stake, prev, limit, pct) ==
  QuotaDetermined(cands, stake, prev, limit, pct) =>
    LET P == CHOOSE Q \in TopSets(prev \cap cands, Quota(cands, prev, limit, pct), stake) : TRUE
        U == cands \ P
        y == MaxNodes(cands, limit) - Cardinality(P)
        T == Tied(U, y, stake)
        s1 == SeqOf(T, ord1)
        s2 == SeqOf(T, ord2)
    IN \A s \in Seeds : {i \in 1..Len(s1) : s1[i] \in R1[s]} = {i \in 1..Len(s2) : s2[i] \in R2[s]}
=============================================================================
