SPECIFICATION MCSpec
CONSTANTS
  MaxRound = 3
  MaxInputs = 3
  VerifyRegistered = TRUE
INVARIANTS AuthenticRegistered
PROPERTIES C41_Monotone
CHECK_DEADLOCK FALSE
