SPECIFICATION TraceSpec
INVARIANTS
  C03_BranchNonceOrder C03_OncePerBranch
  HarnessEnv HarnessClock HarnessSubmit HarnessGenerated HarnessBlockTime HarnessGenBlock HarnessVerify HarnessNoExpired HarnessPool
POSTCONDITION Accepted
CHECK_DEADLOCK FALSE
