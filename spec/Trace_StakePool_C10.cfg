SPECIFICATION TraceSpec
CONSTANTS PropTol = 2
INVARIANTS HarnessContinuity HarnessFlags C10_NoPanic C10_ExactSum C10_Charge C10_Subset C10_Proportional
POSTCONDITION Accepted
CHECK_DEADLOCK FALSE
