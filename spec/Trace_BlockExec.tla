--------------------------- MODULE Trace_BlockExec ---------------------------
(* Every `Run` event is one execution of one real block through the real     *)
(* Block.ComputeState (or the generator's own execution) on the same prior   *)
(* state; `ref` is the first result tuple of the current block.  C06: every  *)
(* later run of the same block has the same tuple.                           *)
EXTENDS TraceLib
VARIABLES l, ev, ref, refev
vars == <<l, ev, ref, refev>>
Null == [ev |-> "none"]
Tuple(e) == <<e.root, e.changes, e.statuses, e.outputs>>
TraceInit == l = 1 /\ ev = Null /\ ref = <<>> /\ refev = ""
TraceReset == l <= Len(Trace) /\ Trace[l].ev = "Reset" /\ l' = l + 1 /\ ev' = Null /\ ref' = <<>> /\ refev' = ""
TraceRun == /\ l <= Len(Trace) /\ Trace[l].ev = "Run" /\ l' = l + 1 /\ ev' = Trace[l]
            /\ ref' = IF ref = <<>> THEN Tuple(Trace[l]) ELSE ref
            \* the event list is produced by ComputeState only: compared among verifier runs
            /\ refev' = IF refev = "" /\ Trace[l].role = "verifier" THEN Trace[l].events ELSE refev
TraceSkip == l <= Len(Trace) /\ Trace[l].ev \notin {"Reset", "Run"} /\ l' = l + 1 /\ ev' = Null /\ UNCHANGED <<ref, refev>>
TraceNext == TraceReset \/ TraceRun \/ TraceSkip
TraceSpec == TraceInit /\ [][TraceNext]_vars

IsRun == ev.ev = "Run" /\ ~IsKnown(ev)
HarnessComputed == ev.ev = "Run" => ev.err = ""      \* the block must be executable at all
C06_Deterministic == IsRun => (Tuple(ev) = ref /\ (ev.role = "verifier" => ev.events = refev))
=============================================================================
