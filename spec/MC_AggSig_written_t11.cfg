SPECIFICATION Spec
CONSTANTS
  P = 11
  MaxN = 2
  KeyVals = {2, 7}
  MsgVals = {1, 5, 10}
  WrongKeys = {3, 6}
  WrongMsgs = {4, 9}
  Deltas = {1, 2, 3, 4, 5, 6, 7, 8, 9, 10}
  SameModes = {TRUE, FALSE}
  MaxTouched = 2
  GenMaxMixed = 2
  GenWithRepeat = FALSE
  MaxPasses = 1
  ReKeys = {}
  AsCoded = TRUE
INVARIANTS TypeOK ObjectsCurrent Completeness SoundNonCancelling SingleFaultDetected BatchSplitIndependent OnlyGapIsCancelling
CHECK_DEADLOCK FALSE
