--------------------------- MODULE Trace_TxnLife ---------------------------
(***************************************************************************)
(* Trace specification of the transaction-life family.                     *)
(*                                                                         *)
(* Every line is one step of the REAL miner code (harness/drivers/txnlife):*)
(*   Submit   chain.PutTransaction on a transaction decoded from JSON      *)
(*   Inject   transaction.PutTransaction (pool intake without validation)  *)
(*   Gen      GenerateRoundBlock of this miner on a chosen parent; the     *)
(*            block is then verified by the real VerifyBlock as another    *)
(*            miner on the same previous state                             *)
(*   Forge    a block of another generator carrying a chosen transaction   *)
(*            list, verified by this miner's real VerifyBlock              *)
(*   Fin      SetLatestFinalizedBlock + the real updateFinalizedBlock      *)
(*   Cleanup  the real CleanupWorker, one pass                             *)
(*   Tick     the wall clock moved (timed traces)                          *)
(* each with the real pool read back from redis afterwards (collection     *)
(* members `pool`, entity keys `ents`).                                    *)
(*                                                                         *)
(* The actions consume the event and apply the model's big-step semantics  *)
(* (TxnLifeDefs: the composition of the step actions of TxnLife.tla) to    *)
(* the tracked state.  Cxx_* invariants are instances of listed properties *)
(* on what the real code produced or accepted.  Harness* invariants say    *)
(* "model and code disagree" about behaviour no listed property speaks     *)
(* about (exit 2, never a verdict).                                        *)
(***************************************************************************)
EXTENDS TraceLib, TxnLifeDefs

VARIABLES l, ev,
          cfg,      \* [tol, fn, maxtx, margin, ownkeeps]
          T,        \* id -> [s, n, ct, f, k]
          pool, ents,
          blocks,   \* name -> [p, bt, x (ids of its pool transactions), hs (hash prefixes of all its transactions), st, own]
          lfb,
          xacc,     \* the model's verdict for the Submit / Forge just consumed
          xblk,     \* the model's block for the Gen just consumed
          ordok,    \* the observed block applies every transaction at nonce = branch state + 1
          onceok,   \* no transaction of the observed block is already on its branch, none twice
          bndok,    \* no transaction of the observed block has a hash or signature that does not fit
          timeok,   \* every transaction of the observed block is within the tolerance of the block's time
          clk       \* the previous event's clock

vars == <<l, ev, cfg, T, pool, ents, blocks, lfb, xacc, xblk, ordok, onceok, bndok, timeok, clk>>
Null == [ev |-> "none"]
AllS == {"c1", "c2", "c3", "m1", "m2", "m3"}
Cfg0 == [tol |-> 0, fn |-> 0, maxtx |-> 0, margin |-> 0, ownkeeps |-> TRUE]

TraceInit == /\ l = 1 /\ ev = Null /\ cfg = Cfg0 /\ T = <<>> /\ pool = {} /\ ents = {} /\ blocks = <<>> /\ lfb = ""
             /\ xacc = FALSE /\ xblk = <<>> /\ ordok = TRUE /\ onceok = TRUE /\ bndok = TRUE /\ timeok = TRUE /\ clk = 0

IsEvent(e) == l <= Len(Trace) /\ Trace[l].ev = e /\ l' = l + 1 /\ ev' = Trace[l]
NoCheck == xacc' = FALSE /\ xblk' = <<>> /\ ordok' = TRUE /\ onceok' = TRUE /\ bndok' = TRUE /\ timeok' = TRUE

TxRec(t) == [s |-> t.s, n |-> t.n, ct |-> t.ct, f |-> t.f, k |-> t.k]
RECURSIVE PutAll(_, _, _)
PutAll(tab, q, i) == IF i > Len(q) THEN tab ELSE PutAll(Put(tab, q[i].id, TxRec(q[i])), q, i + 1)

TraceReset ==
  /\ IsEvent("Reset")
  /\ LET e == Trace[l] IN
       /\ cfg' = [tol |-> e.tol, fn |-> e.fn, maxtx |-> e.maxtx, margin |-> e.margin, ownkeeps |-> TRUE]
       /\ blocks' = (e.base :> [p |-> "", bt |-> e.base_bt, x |-> <<>>, hs |-> {}, st |-> [s \in AllS |-> 0], own |-> FALSE])
       /\ lfb' = e.base
  /\ T' = <<>> /\ pool' = {} /\ ents' = {} /\ clk' = 0 /\ NoCheck

TraceSubmit ==
  /\ IsEvent("Submit")
  /\ LET e == Trace[l]
         t == TxRec(e.t)
         ok == SubmitOK(cfg, t, e.now, blocks[lfb].st) IN
       /\ T' = Put(T, e.t.id, t)
       /\ xacc' = ok
       /\ pool' = IF ok THEN pool \cup {e.t.id} ELSE pool
       /\ ents' = IF ok THEN ents \cup {e.t.id} ELSE ents
       /\ clk' = e.now
  /\ xblk' = <<>> /\ ordok' = TRUE /\ onceok' = TRUE /\ bndok' = TRUE /\ timeok' = TRUE
  /\ UNCHANGED <<cfg, blocks, lfb>>

TraceInject ==
  /\ IsEvent("Inject")
  /\ LET e == Trace[l] IN
       /\ T' = Put(T, e.t.id, TxRec(e.t))
       /\ pool' = pool \cup {e.t.id} /\ ents' = ents \cup {e.t.id} /\ clk' = e.now
  /\ NoCheck /\ UNCHANGED <<cfg, blocks, lfb>>

TraceTick ==
  /\ IsEvent("Tick") /\ clk' = Trace[l].now
  /\ NoCheck /\ UNCHANGED <<cfg, T, pool, ents, blocks, lfb>>

TraceSkip ==
  /\ IsEvent("Skip")
  /\ NoCheck /\ UNCHANGED <<cfg, T, pool, ents, blocks, lfb, clk>>

\* the observed block: its transactions are [id (0: not a pool transaction), s, n, ct, h]
RECURSIVE ObsReplay(_, _, _)
ObsReplay(q, i, st) ==
  IF i > Len(q) THEN [ok |-> TRUE, st |-> st]
  ELSE LET e == q[i]
           r == ObsReplay(q, i + 1, [st EXCEPT ![e.s] = e.n]) IN
       [ok |-> (e.n = st[e.s] + 1) /\ r.ok, st |-> r.st]
RECURSIVE BranchHs(_)
BranchHs(b) == IF b = "" THEN {} ELSE blocks[b].hs \cup BranchHs(blocks[b].p)
ObsIds(q) == LET f == SelectSeq(q, LAMBDA e : e.id # 0) IN [i \in 1..Len(f) |-> f[i].id]
ObsHs(q) == {q[i].h : i \in 1..Len(q)}
ObsChecks(tab, q, p, bt) ==
  /\ ordok' = ObsReplay(q, 1, blocks[p].st).ok
  /\ onceok' = (Cardinality(ObsHs(q)) = Len(q) /\ ObsHs(q) \cap BranchHs(p) = {})
  /\ bndok' = \A i \in 1..Len(q) : q[i].id # 0 => ~Unbound(tab[q[i].id].k)
  /\ timeok' = \A i \in 1..Len(q) : Within(bt, q[i].ct, cfg.tol)
AddBlock(name, q, p, bt, own) ==
  blocks' = Put(blocks, name, [p |-> p, bt |-> bt, x |-> ObsIds(q), hs |-> ObsHs(q), st |-> ObsReplay(q, 1, blocks[p].st).st, own |-> own])

(* TxnLife!GenStart . GenIter* . GenCurrent* . GenSeal . DeleteInvalid *)
TraceGen ==
  /\ IsEvent("Gen")
  /\ LET e == Trace[l]
         G == GenRun(cfg, T, blocks[e.p].st, e.bt, SortByFee(T, pool), pool \cap ents)
         far == TooFar(cfg, T, G) IN
       /\ xblk' = G.blk
       /\ pool' = ((pool \ far) \cup Range(G.blk)) \ G.invalid
       /\ ents' = (ents \ far) \ G.invalid
       /\ clk' = e.now
       /\ IF e.b # ""
            THEN AddBlock(e.b, e.txns, e.p, e.bt, TRUE) /\ ObsChecks(T, e.txns, e.p, e.bt)
            ELSE UNCHANGED blocks /\ ordok' = TRUE /\ onceok' = TRUE /\ bndok' = TRUE /\ timeok' = TRUE
  /\ xacc' = FALSE /\ UNCHANGED <<cfg, T, lfb>>

(* TxnLife!Receive *)
TraceForge ==
  /\ IsEvent("Forge")
  /\ LET e == Trace[l]
         tab == PutAll(T, e.x, 1)
         ids == [i \in 1..Len(e.x) |-> e.x[i].id] IN
       /\ T' = tab
       /\ xacc' = VerifyOK(cfg, tab, blocks[e.p].st, e.bt, ids)
       /\ clk' = e.now
       /\ IF e.b # ""
            THEN AddBlock(e.b, e.txns, e.p, e.bt, FALSE) /\ ObsChecks(tab, e.txns, e.p, e.bt)
            ELSE UNCHANGED blocks /\ ordok' = TRUE /\ onceok' = TRUE /\ bndok' = TRUE /\ timeok' = TRUE
  /\ xblk' = <<>> /\ UNCHANGED <<cfg, pool, ents, lfb>>

(* TxnLife!Finalize . PoolFinalized *)
TraceFin ==
  /\ IsEvent("Fin")
  /\ LET e == Trace[l]
         b == blocks[e.b] IN
       /\ lfb' = e.b
       /\ pool' = FinPool(T, b.x, cfg.ownkeeps /\ b.own, pool)
       /\ ents' = FinEnts(b.x, ents)
       /\ clk' = e.now
  /\ NoCheck /\ UNCHANGED <<cfg, T, blocks>>

(* TxnLife!Cleanup *)
TraceCleanup ==
  /\ IsEvent("Cleanup")
  /\ LET e == Trace[l] IN
       /\ pool' = CleanPool(cfg, T, e.now, pool, ents)
       /\ ents' = CleanEnts(cfg, T, e.now, pool, ents)
       /\ clk' = e.now
  /\ NoCheck /\ UNCHANGED <<cfg, T, blocks, lfb>>

TraceNext == TraceReset \/ TraceSubmit \/ TraceInject \/ TraceTick \/ TraceSkip \/ TraceGen \/ TraceForge \/ TraceFin \/ TraceCleanup
TraceSpec == TraceInit /\ [][TraceNext]_vars

-----------------------------------------------------------------------------
Is(e) == ev.ev = e /\ ~IsKnown(ev)
NewBlock == (Is("Gen") \/ Is("Forge")) /\ ev.b # ""
SetOf(q) == {q[i] : i \in 1..Len(q)}

(* C03 "A transaction is applied only if its nonce is exactly one more than the sender's current nonce in state.   *)
(*      Every applied transaction ... raises that nonce by exactly one. Hence no signed transaction can be applied  *)
(*      twice and no nonce can be skipped."                                                                         *)
(* Instance: in every block this node generated, and in every block of another generator that this node's          *)
(* VerifyBlock accepted (= whose transactions it applied), each transaction's nonce is the branch state's nonce of  *)
(* its sender + 1 - the branch state being the one reached through the blocks below it, all of them produced or     *)
(* accepted by the real code earlier in the trace - and no transaction occurs twice on a branch.                    *)
C03_BranchNonceOrder == NewBlock => ordok
C03_OncePerBranch == NewBlock => onceok

(* C30 "A transaction is accepted only if its hash is the hash of its contents and its signature verifies under    *)
(*      the public key whose hash is its client id. Altering any field that changes what the transaction does ...   *)
(*      invalidates it."  (only hash-covered fields are altered here: the listed findings about fee/type are C30's) *)
(* Instance: the intake handler accepts no transaction whose value was altered after signing (with or without      *)
(* re-hashing) or that was signed with another key, and VerifyBlock accepts no block that carries one.             *)
C30_SubmitBound == (Is("Submit") /\ ev.accepted) => ~Unbound(ev.t.k)
C30_BlockBound == NewBlock => bndok

(* C45 "Any block a miner generates from its transaction pool, verified by another node holding the same previous  *)
(*      state, passes validation and recomputes to the same state root ... It contains no transaction twice, keeps  *)
(*      each sender's nonces consecutive, stays under the block cost limit ..."                                     *)
C45_GeneratedVerifies == (Is("Gen") /\ ev.b # "") => (ev.accepted /\ ev.roots_equal)
C45_NoDuplicate == (Is("Gen") /\ ev.b # "") => Cardinality(ObsHs(ev.txns)) = Len(ev.txns)
C45_ConsecutiveNonces == (Is("Gen") /\ ev.b # "") => ordok
C45_CostLimit == (Is("Gen") /\ ev.b # "") => ev.cost <= ev.maxcost

-----------------------------------------------------------------------------
(* model / code mismatches (machinery to be looked at; no listed property speaks about these)                      *)
HasPool == ev.ev \in {"Submit", "Inject", "Gen", "Forge", "Fin", "Cleanup"}
\* the real pool after the step is the model's pool: what the handler admitted, what generation deleted (invalid,
\* far-future), what finalization and the clean-up worker removed
HarnessPool == HasPool => (SetOf(ev.pool) = pool /\ SetOf(ev.ents) = ents)
\* the handler's verdict is the model's (time window, nonce window against the final state, fee, binding)
HarnessSubmit == ev.ev = "Submit" => ev.accepted = xacc
\* the generator produced a block, with the model's block time and exactly the model's transactions in the model's order
HarnessGenerated == ev.ev = "Gen" => (ev.gen_err = "" /\ ev.b # "")
HarnessBlockTime == ev.ev = "Gen" => ev.bt = MaxOf(ev.now, blocks[ev.p].bt)
HarnessGenBlock == (ev.ev = "Gen" /\ ev.b # "") => ObsIds(ev.txns) = xblk
\* the verifier's verdict on a foreign block is the model's (a block the model rejects for an expired transaction or a
\* replay that the code accepts shows up here unless a Cxx invariant already caught it)
HarnessVerify == ev.ev = "Forge" => ev.accepted = xacc
\* never after it expired: no block that joined the tree carries a transaction outside the tolerance of its time
HarnessNoExpired == (ev.ev \in {"Gen", "Forge"} /\ ev.b # "") => timeok
\* the scenario respected the model's environment assumptions
HarnessEnv == /\ (ev.ev = "Fin" => ev.child_of_lfb)
              /\ (ev.ev \in {"Gen", "Forge"} => ev.live)
HarnessClock == ("now" \in DOMAIN ev) => ev.now >= 0
=============================================================================
