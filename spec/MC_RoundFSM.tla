---------------------------- MODULE MC_RoundFSM ----------------------------
(* Exhaustive configurations of the RoundFSM step machine (C37).           *)
EXTENDS RoundFSM

O(t, v, m) == [t |-> t, v |-> v, m |-> m]
\* operations that touch phase / shares / finalizing state / r.mutex
MutexOps == {O("SetPhase", 1, ""), O("SetPhase", 3, ""), O("ResetPhase", 0, ""), O("GetPhase", 0, ""),
             O("Restart", 0, ""), O("AddShare", 1, "m1"), O("AddShare", 2, "m2"), O("AddNB", 0, ""),
             O("SetFinalizing", 0, ""), O("SetFinalized", 0, ""), O("ResetIfNot", 0, ""),
             O("ResetFin", 0, ""), O("IsFinalized", 0, "")}
\* the smaller alphabet used for three processes
MutexOpsSmall == {O("SetPhase", 1, ""), O("SetPhase", 3, ""), O("ResetPhase", 0, ""),
                  O("Restart", 0, ""), O("AddShare", 1, "m1"), O("AddShare", 2, "m2"), O("AddShare", 3, "m3"),
                  O("AddNB", 0, ""), O("SetFinalized", 0, ""), O("ResetIfNot", 0, ""), O("IsFinalized", 0, "")}
\* operations of the embedded timeoutCounter (its own mutex)
TocOps == {O("SetToc", 1, ""), O("SetToc", 2, ""), O("IncToc", 0, ""), O("Vote", 3, "m2"), O("Vote", 2, "m1"),
           O("GetToc", 0, "")}
MCNoOp == O("none", 0, "")
Budget21 == [p \in Proc |-> IF p = "p1" THEN 2 ELSE 1]
Budget22 == [p \in Proc |-> 2]
Budget111 == [p \in Proc |-> 1]
Budget211 == [p \in Proc |-> IF p = "p1" THEN 2 ELSE 1]
Budget222 == [p \in Proc |-> 2]
Budget32 == [p \in Proc |-> IF p = "p1" THEN 3 ELSE 2]
=============================================================================
