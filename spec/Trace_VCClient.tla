--------------------------- MODULE Trace_VCClient ---------------------------
(***************************************************************************)
(* Trace spec of the view-change client family.  A trace is the recorded    *)
(* execution of the REAL clients (miner.Chain.DKGProcess loops and phase    *)
(* functions, SignShareRequestHandler, ViewChange / SetDKGSFromStore,       *)
(* GetPhaseFromSharders, ConfirmTransaction) of four miners against the     *)
(* REAL miner contract:                                                     *)
(*   Reset     configuration, contract state, client states                 *)
(*   Txn38     one contract transaction (keep / payfees of the ledger,      *)
(*             mpk / sos / wait produced by a client), with the stored      *)
(*             state read back (the event of Trace_ViewChange plus the      *)
(*             stored contents `sc`)                                        *)
(*   Sync      the lagging sharder caught up (what it serves now)           *)
(*   Poll      miner m polls the phase (view = which sharder answers) and   *)
(*             its loop processes the event (rview = which sharder answers  *)
(*             the phase function); followed by the ShareRPC / Txn38 events *)
(*             of that iteration and by                                     *)
(*   LoopEnd   the client state read back when the loop is idle again       *)
(*   ShareRPC  one DKG share request m -> j and what the peer answered      *)
(*   DropTxn   an unconfirmed transaction is lost for good                  *)
(*   NewMB     the block that carries the new magic block                   *)
(*   Adopt     miner m processed that block (ViewChange); state read back   *)
(*   Lookup    GetMagicBlock(r) / GetDKG(r) of miner m                      *)
(*   GroupSign the miners sign with the installed key shares, verify each   *)
(*             other's shares and recover the group signature               *)
(*   End       end of the trace (the model/code disagreements collected in  *)
(*             `hb` are judged here, see the end of the module)             *)
(* The actions consume the events and advance the MODEL state `cl` of the   *)
(* clients with the step functions of VCClient.tla (the hidden loop         *)
(* variables psr / retry live only there); the contract state is the        *)
(* observed one.  Cxx_* invariants are instances of listed properties;      *)
(* Harness* invariants say that the model and the code disagree.            *)
(***************************************************************************)
EXTENDS TraceLib, VCClientDefs

VARIABLES l, ev,
          sc, psc,       \* the contract as observed after this / the previous event: [S, mpkv, sosv, mb]
          cyc, mbcyc,    \* ghost: number of the DKG cycle, cycle of the stored magic block
          lagv,          \* what the lagging sharder serves
          ef,            \* the magic block in force
          tcl, pcl,      \* the model's clients after this / the previous event
          pend,          \* per miner: submitted, not yet executed transactions (model)
          nseq,          \* per miner: transactions submitted
          dlv,           \* did the last poll deliver an event (model)
          popped,        \* the model transaction that this event executed (NoTxn: none)
          hb             \* model/code disagreements seen in this trace so far: <<check, line>>
tvars == <<l, ev, sc, psc, cyc, mbcyc, lagv, ef, tcl, pcl, pend, nseq, dlv, popped, hb>>
Null == [ev |-> "none"]
PR_real == <<1, 2, 2, 2, 2>>

SetOf(q) == {q[i] : i \in 1..Len(q)}
F(ps) == [m \in Miner |-> PairOf(ps, m, 0)]
FS(ps) == [j \in Miner |-> [i \in Miner |-> PairOf(ps, j \o ">" \o i, 0)]]
ToS(x) == [present |-> x.present, phase |-> x.phase, start |-> x.start, restarts |-> x.restarts,
           dkg |-> SetOf(x.dkg), k |-> x.k, t |-> x.t, mpks |-> SetOf(x.mpks), gsos |-> SetOf(x.gsos),
           keep |-> SetOf(x.keep), waited |-> SetOf(x.waited), mbst |-> x.mbst, mbm |-> SetOf(x.mbm),
           mbs |-> SetOf(x.mbs), vc |-> x.vc, prevM |-> SetOf(x.prev_m), prevS |-> SetOf(x.prev_s)]
ToMB(x, c) == IF x.sr < 0 THEN NoMB
              ELSE [sr |-> x.sr, miners |-> SetOf(x.miners), mpk |-> F(x.mpk), sos |-> FS(x.sos), cyc |-> c]
ToSC(x, c) == [S |-> ToS(x.st), mpkv |-> F(x.mpkv), mpkp |-> x.mpkp, sosv |-> FS(x.sosv), mb |-> ToMB(x.mb, c)]
NoSC == [none |-> TRUE]
View(name) == CASE name = "cur" -> [S |-> sc.S, mpkv |-> sc.mpkv, mpkp |-> sc.mpkp, mb |-> sc.mb]
                [] name = "lag" -> [S |-> lagv.S, mpkv |-> lagv.mpkv, mpkp |-> lagv.mpkp, mb |-> lagv.mb]
                [] OTHER -> NoView
ObsC(x) == [cph |-> x.cph, vdkg |-> x.vdkg, vsh |-> F(x.vsh), sij |-> x.sij, cmpk |-> F(x.cmpk), csos |-> F(x.csos),
            sset |-> x.store.set, sshares |-> F(x.store.shares), rset |-> x.rdkg.set, rsr |-> x.rdkg.sr,
            rshares |-> F(x.rdkg.shares)]
ProjC(c) == [cph |-> c.cph, vdkg |-> c.vdkg, vsh |-> c.vsh, sij |-> c.sij, cmpk |-> c.cmpk, csos |-> c.csos,
             sset |-> c.store.set, sshares |-> c.store.shares, rset |-> c.rdkg.set, rsr |-> c.rdkg.sr,
             rshares |-> c.rdkg.shares]
Tail1(q) == IF q = <<>> THEN q ELSE Tail(q)

TraceInit == /\ l = 1 /\ ev = Null /\ sc = NoSC /\ psc = NoSC /\ cyc = 0 /\ mbcyc = 0 /\ lagv = NoSC /\ ef = NoMB
             /\ tcl = [m \in Miner |-> C0] /\ pcl = [m \in Miner |-> C0]
             /\ pend = [m \in Miner |-> <<>>] /\ nseq = Zero /\ dlv = FALSE /\ popped = NoTxn /\ hb = {}
Step(name) == l <= Len(Trace) /\ Trace[l].ev = name /\ l' = l + 1 /\ ev' = Trace[l]
Head1(q) == IF q = <<>> THEN NoTxn ELSE Head(q)
Same(vs) == UNCHANGED vs

TraceReset == /\ Step("Reset")
              /\ sc' = ToSC(Trace[l].sc, 0) /\ psc' = NoSC /\ cyc' = 1 /\ mbcyc' = 0 /\ lagv' = ToSC(Trace[l].sc, 0) /\ ef' = NoMB
              /\ tcl' = [m \in Miner |-> C0] /\ pcl' = [m \in Miner |-> C0]
              /\ pend' = [m \in Miner |-> <<>>] /\ nseq' = Zero /\ dlv' = FALSE /\ popped' = NoTxn

(* a contract transaction: the observed state becomes the current one; the ghost cycle follows the phase machine *)
TraceTxn ==
  /\ Step("Txn38")
  /\ LET e == Trace[l]
         n == ToS(e.sc.st)
         pay == e.op = "payfees" /\ e.result = "ok"
         restarted == pay /\ sc.S.present /\ n.restarts = sc.S.restarts + 1
         waitDone == pay /\ sc.S.present /\ sc.S.phase = Wait /\ n.phase = Start
         toWait == pay /\ sc.S.phase = Publish /\ n.phase = Wait
         mc == IF toWait THEN cyc ELSE mbcyc
     IN /\ psc' = sc /\ sc' = ToSC(e.sc, mc) /\ mbcyc' = mc
        /\ cyc' = IF restarted \/ waitDone THEN cyc + 1 ELSE cyc
        /\ pend' = IF e.op \in {"mpk", "sos", "wait"} THEN [pend EXCEPT ![e.by] = Tail1(@)] ELSE pend
        /\ popped' = IF e.op \in {"mpk", "sos", "wait"} THEN Head1(pend[e.by]) ELSE NoTxn
  /\ pcl' = tcl /\ Same(<<lagv, ef, tcl, nseq, dlv>>)

TraceSync == /\ Step("Sync") /\ lagv' = ToSC(Trace[l].sc, mbcyc) /\ pcl' = tcl
             /\ Same(<<sc, psc, cyc, mbcyc, ef, tcl, pend, nseq, dlv>>) /\ popped' = NoTxn

(* GetPhaseFromSharders, and the loop (idle between the steps of a scenario) takes the event at once *)
TracePoll ==
  /\ Step("Poll")
  /\ LET e == Trace[l]
         m == e.m
         c1 == AfterPoll(tcl[m], View(e.view))
         took == c1.inbox # NoPn /\ c1.lp = "idle"
         c2 == IF took THEN AfterTake(c1, m, View(e.rview), nseq[m] + 1) ELSE c1
         sent == took /\ c2.lp = "confirm"
     IN /\ tcl' = [tcl EXCEPT ![m] = c2] /\ pcl' = tcl /\ dlv' = took
        /\ pend' = IF sent THEN [pend EXCEPT ![m] = Append(@, c2.ltx)] ELSE pend
        /\ nseq' = IF sent THEN [nseq EXCEPT ![m] = @ + 1] ELSE nseq
  /\ Same(<<sc, psc, cyc, mbcyc, lagv, ef>>) /\ popped' = NoTxn

TraceRPC ==
  /\ Step("ShareRPC")
  /\ LET e == Trace[l]
         ok == e.result = "ok"
     IN tcl' = [tcl EXCEPT ![e.m] = AfterRPCSender(@, e.j, ok), ![e.j] = AfterRPCPeer(@, e.m, tcl[e.m].vdkg, ok)]
  /\ pcl' = tcl /\ Same(<<sc, psc, cyc, mbcyc, lagv, ef, pend, nseq, dlv>>) /\ popped' = NoTxn

(* requests that were not even sent (no share computed for the peer) count as failed *)
FailRest(c) == [c EXCEPT !.nfail = @ + Cardinality(c.todo), !.todo = {}]
TraceLoopEnd ==
  /\ Step("LoopEnd")
  /\ LET e == Trace[l]
         m == e.m
         c == tcl[m]
         c1 == CASE c.lp = "sharing" -> AfterShareEnd(FailRest(c))
                 [] c.lp = "confirm" -> IF e.confirmed THEN AfterConfirm(c) ELSE AfterConfirmFail(c)
                 [] OTHER -> c
         gone == c.lp = "confirm" /\ ~e.executed /\ e.fate # "late"     \* lost, or not admitted to the block
     IN /\ tcl' = [tcl EXCEPT ![m] = c1]
        /\ pend' = IF gone THEN [pend EXCEPT ![m] = Tail1(@)] ELSE pend
  /\ pcl' = tcl /\ Same(<<sc, psc, cyc, mbcyc, lagv, ef, nseq, dlv>>) /\ popped' = NoTxn

TraceDrop == /\ Step("DropTxn") /\ pend' = [pend EXCEPT ![Trace[l].m] = Tail1(@)] /\ pcl' = tcl
             /\ Same(<<sc, psc, cyc, mbcyc, lagv, ef, tcl, nseq, dlv>>) /\ popped' = NoTxn
TraceNewMB == /\ Step("NewMB") /\ ef' = ToMB(Trace[l].mb, mbcyc) /\ pcl' = tcl
              /\ Same(<<sc, psc, cyc, mbcyc, lagv, tcl, pend, nseq, dlv>>) /\ popped' = NoTxn
TraceAdopt == /\ Step("Adopt") /\ tcl' = [tcl EXCEPT ![Trace[l].m] = AfterAdopt(@, Trace[l].m, ef)] /\ pcl' = tcl
              /\ Same(<<sc, psc, cyc, mbcyc, lagv, ef, pend, nseq, dlv>>) /\ popped' = NoTxn
TraceOther == /\ l <= Len(Trace) /\ Trace[l].ev \in {"Lookup", "GroupSign", "End"} /\ l' = l + 1 /\ ev' = Trace[l] /\ pcl' = tcl
              /\ Same(<<sc, psc, cyc, mbcyc, lagv, ef, tcl, pend, nseq, dlv>>) /\ popped' = NoTxn
TraceEvent == TraceReset \/ TraceTxn \/ TraceSync \/ TracePoll \/ TraceRPC \/ TraceLoopEnd \/ TraceDrop \/ TraceNewMB
              \/ TraceAdopt \/ TraceOther

-----------------------------------------------------------------------------
Is(name) == ev.ev = name /\ ~IsKnown(ev)
cf == [pr |-> [p \in 0..4 |-> PRs[p + 1]], minN |-> MinN, maxN |-> Cardinality(Miner), minS |-> 1,
       maxS |-> Cardinality(Shs), all |-> Miner, shs |-> Shs, generator |-> "m1"]
st == sc.S
pst == psc.S

(* ---- C38.  "The miner contract's view-change phase advances Start, Contribute, Share, Publish, Wait, Start   *)
(* only when the current phase has run for its configured number of rounds and its condition holds; otherwise   *)
(* the key generation restarts at Start.  Public keys and shares are accepted only in their phase, once per     *)
(* participating miner, with the expected size and valid content, and the produced magic block keeps at least   *)
(* one miner and sharder from the previous set."  Instances: the same relations as Trace_ViewChange, on the     *)
(* histories in which the transactions are produced by the real clients.                                        *)
IsT(op) == Is("Txn38") /\ ev.op = op
PayOK == IsT("payfees") /\ ev.result = "ok"
Exp == AfterPayFees(pst, ev.round, cf, <<st.k, st.t>>, st.mbm, st.mbs, st.vc)
Core(s) == <<s.present, s.phase, s.start, s.restarts>>
Lists(s) == <<s.dkg, s.mpks, s.gsos, s.keep, s.waited>>
MBOf(s) == <<s.mbst, s.mbm, s.mbs>>
C38_PhaseSchedule == /\ PayOK => Core(st) = Core(Exp)
                     /\ (IsT("payfees") /\ ev.result # "ok") => st = pst
C38_ListsFollow == PayOK => (Lists(st) = Lists(Exp) /\ st.prevM = Exp.prevM /\ st.prevS = Exp.prevS
                              /\ (Exp.dkg = pst.dkg => (st.k = pst.k /\ st.t = pst.t)))
C38_MagicBlock == PayOK =>
  IF MovesToWait(pst, ev.round, cf)
    THEN LET St == Stored(pst, ev.round) IN
         /\ MBMinersOK(st.mbm, St, cf) /\ MBShardersOK(st.mbs, St, cf)
         /\ HasPrev(st.mbm, pst.prevM) /\ HasPrev(st.mbs, pst.prevS)
         /\ st.mbst = ev.round + cf.pr[Wait] /\ st.vc = st.mbst
    ELSE MBOf(st) = MBOf(pst) /\ (st.vc # pst.vc => ev.round = pst.vc)
C38_MpkAccept == IsT("mpk") => st \in AfterMpk(pst, ev.by, ev.size)
C38_KeepAccept == IsT("keep") => st \in AfterKeep(pst, ev.by, cf)
(* valid content: every revealed share belongs to the key vector the contract stores for the sender *)
EvSosValid == \A i \in Miner : F(ev.sos)[i] > 0 => F(ev.sos)[i] = psc.mpkv[ev.by]
C38_ShareAccept == IsT("sos") => st \in AfterSos(pst, ev.by, ev.n, EvSosValid)
C38_WaitAccept == IsT("wait") => st \in AfterWait(pst, ev.by)
C38_ParticipantsHaveKeys == (Is("Txn38") /\ st.phase \in {Share, Publish}) => st.dkg \subseteq st.mpks

(* ---- C34.  "In a DKG with threshold t among n parties, every share a party derives for another validates     *)
(* against the sender's published public polynomial, and the parties' aggregated keys sign messages that verify *)
(* under their group-derived public keys.  Any t signature shares recover the same group signature ..."         *)
(* (a) the share a client sends to a peer (sendDKGShare, from createSijs / ComputeDKGKeyShare) validates        *)
(* (library ValidateShare, by the harness) against the key vector the contract stores for the sender, when that *)
(* vector is the one of the sender's present DKG                                                               *)
C34_ShareValidates ==
  (Is("ShareRPC") /\ ev.valid_pub # -1 /\ pcl[ev.m].vdkg # 0 /\ sc.mpkv[ev.m] = pcl[ev.m].vdkg) => ev.valid_pub = 1
(* (b) every miner that completed the DKG of the magic block in force (it stored its summary in the wait phase  *)
(* of that cycle and installed it) signs so that every other such miner accepts the share under its             *)
(* group-derived public keys, and every t of these shares recover one and the same group signature             *)
Completed(m) == tcl[m].rdkg.set /\ tcl[m].store.cyc = ef.cyc /\ Consistent(tcl[m], ef)
C34_GroupKey == Is("GroupSign") =>
  /\ \A m \in Miner : Completed(m) => PairOf(ev.signers, m, 0) = 1
  /\ (Cardinality({m \in Miner : Completed(m)}) >= ev.t /\ ev.t > 0) => (ev.subsets > 0 /\ ev.distinct = 1)

(* ---- C40.  "For any set of stored magic blocks and any round, the magic block used for that round is the one *)
(* with the greatest starting round not after it, allowing for the view-change offset, or the latest one when   *)
(* none starts earlier."  Instance: GetMagicBlock(r) of a miner after the view change; the DKG used for the     *)
(* round follows the same rule whenever one starts early enough.                                               *)
Off(r, o) == IF r < o + 1 THEN r ELSE r - o
Floor(rs, x) == LET c == {rs[i] : i \in 1..Len(rs)} \cap 0..x IN IF c = {} THEN -1 ELSE CHOOSE y \in c : \A z \in c : z <= y
Latest(rs) == CHOOSE y \in SetOf(rs) : \A z \in SetOf(rs) : z <= y
C40_LookupFloor == Is("Lookup") =>
  /\ ev.got_mb = (IF Floor(ev.mb_rounds, Off(ev.r, ev.offset)) >= 0 THEN Floor(ev.mb_rounds, Off(ev.r, ev.offset)) ELSE Latest(ev.mb_rounds))
  /\ Floor(ev.dkg_rounds, Off(ev.r, ev.offset)) >= 0 => ev.got_dkg = Floor(ev.dkg_rounds, Off(ev.r, ev.offset))

(* ---- model / code agreement (not verdicts) *)
(* the constants of the trace configuration are those of the driver's world *)
H_Config == ev.ev = "Reset" =>
  /\ SetOf(ev.miners) = Miner /\ SetOf(ev.sharders) = Shs /\ ev.min_n = MinN /\ ev.cur_k = CurK
  /\ \A p \in 1..5 : ev.pr[p] = PRs[p]
(* thresholds of a DKG set *)
H_Thresholds == (ev.ev = "Txn38" /\ st.dkg # {}) => (st.k = K0 /\ st.t = T0)
(* the generator's payFees succeeds *)
H_PayFees == (ev.ev = "Txn38" /\ ev.op = "payfees") => ev.result = "ok"
(* the client state read back after a loop iteration / after ViewChange is the model's *)
(* (the memory of a DKG process that panicked half-way through a phase function is not compared: what was done *)
(* before the panic depends on Go's map iteration order; what it stored, and what ViewChange installs, is)     *)
Durable(x) == <<x.sset, x.sshares, x.rset, x.rsr, x.rshares>>
H_Client == /\ (ev.ev = "LoopEnd" /\ ~ev.crashed) => ObsC(ev.c) = ProjC(tcl[ev.m])
            /\ (ev.ev = "LoopEnd" /\ ev.crashed) => Durable(ObsC(ev.c)) = Durable(ProjC(tcl[ev.m]))
            /\ ev.ev = "Adopt" => IF tcl[ev.m].lp = "crashed" THEN Durable(ObsC(ev.c)) = Durable(ProjC(tcl[ev.m]))
                                                            ELSE ObsC(ev.c) = ProjC(tcl[ev.m])
H_LoopState == ev.ev = "LoopEnd" => /\ tcl[ev.m].lp = (IF ev.crashed THEN "crashed" ELSE "idle")
                                          /\ ev.delivered = dlv
                                          /\ tcl[ev.m].inbox = NoPn
(* the transaction a client sent is the one the model's phase function sends *)
H_Txn == (ev.ev = "Txn38" /\ ev.op \in {"mpk", "sos", "wait"}) =>
  /\ popped.kind = ev.op /\ popped.from = ev.by
  /\ ev.op = "mpk" => (popped.poly = ev.poly /\ popped.size = ev.size)
  /\ ev.op = "sos" => (popped.sos = F(ev.sos) /\ ev.n = Card(popped.sos))
H_RPC == ev.ev = "ShareRPC" =>
  /\ pcl[ev.m].lp = "sharing" /\ ev.j \in pcl[ev.m].todo
  /\ ev.result = "ok" => PeerAccepts(pcl[ev.m], pcl[ev.j], ev.m, ev.j)
  /\ ev.result = "refused" => ~PeerAccepts(pcl[ev.m], pcl[ev.j], ev.m, ev.j)
  /\ ev.poly = pcl[ev.m].vdkg
(* what the contract stores follows the model: a transaction of a client is accepted iff it is well formed, the *)
(* lists are cleared with a restart and when the magic block is made, the magic block is made of them          *)
H_Contents == ev.ev = "Txn38" =>
  LET restarted == pst.present /\ st.restarts = pst.restarts + 1
      toWait == pst.phase = Publish /\ st.phase = Wait
  IN CASE ev.op = "mpk" -> (st # pst) => (sc.mpkv = [psc.mpkv EXCEPT ![ev.by] = ev.poly] /\ sc.sosv = psc.sosv)
       [] ev.op = "sos" -> (st # pst) => (sc.sosv = [psc.sosv EXCEPT ![ev.by] = F(ev.sos)] /\ sc.mpkv = psc.mpkv)
       [] ev.op = "payfees" ->
            /\ (restarted \/ toWait) => (sc.mpkv = Zero /\ sc.sosv = ZeroSos)
            /\ ~(restarted \/ toWait) => (sc.mpkv = psc.mpkv /\ sc.sosv = psc.sosv)
            /\ toWait => sc.mb = MakeMB(ev.round, st.mbm, psc.mpkv, psc.sosv, sc.mb.cyc, cf)
            /\ ~toWait => sc.mb = psc.mb
       [] OTHER -> sc.mpkv = psc.mpkv /\ sc.sosv = psc.sosv /\ sc.mb = psc.mb
(* the magic block in the block is the one the contract stored *)
H_NewMB == ev.ev = "NewMB" => ef = sc.mb
(* the projection names every share and key vector *)
H_Named == (ev.ev \in {"LoopEnd", "Adopt"} /\ tcl[ev.m].lp # "crashed") =>
  \A m \in Miner : F(ev.c.vsh)[m] # 99 /\ F(ev.c.cmpk)[m] # 99 /\ F(ev.c.csos)[m] # 99 /\ F(ev.c.store.shares)[m] # 99

(* The model/code agreement checks are collected while a trace is consumed and judged at its End event, so    *)
(* that a deviation of the code which breaks a listed property later in the same trace is reported as that    *)
(* (a verdict on the real code), and as a disagreement only otherwise.                                        *)
HNames == {"Config", "Thresholds", "PayFees", "Client", "LoopState", "Txn", "RPC", "Contents", "NewMB", "Named"}
HOk(n) == CASE n = "Config" -> H_Config [] n = "Thresholds" -> H_Thresholds [] n = "PayFees" -> H_PayFees
            [] n = "Client" -> H_Client [] n = "LoopState" -> H_LoopState [] n = "Txn" -> H_Txn [] n = "RPC" -> H_RPC
            [] n = "Contents" -> H_Contents [] n = "NewMB" -> H_NewMB [] n = "Named" -> H_Named
HFails == {<<n, l - 1>> : n \in {x \in HNames : ~HOk(x)}}
TraceNext == TraceEvent /\ hb' = (IF ev'.ev = "Reset" THEN {} ELSE hb) \cup HFails'
TraceSpec == TraceInit /\ [][TraceNext]_tvars
AtEnd(n) == ev.ev = "End" => \A x \in hb : x[1] # n
HarnessConfig == AtEnd("Config")
HarnessThresholds == AtEnd("Thresholds")
HarnessPayFees == AtEnd("PayFees")
HarnessClient == AtEnd("Client")
HarnessLoopState == AtEnd("LoopState")
HarnessTxn == AtEnd("Txn")
HarnessRPC == AtEnd("RPC")
HarnessContents == AtEnd("Contents")
HarnessNewMB == AtEnd("NewMB")
HarnessNamed == AtEnd("Named")
(* every trace ends with its End event (else the collected disagreements would never be judged) *)
HarnessEnded == (ev.ev = "Reset" /\ l > 2) => Trace[l - 2].ev = "End"
=============================================================================
