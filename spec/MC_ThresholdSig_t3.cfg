SPECIFICATION Spec
CONSTANTS
  P = 5
  MaxN = 3
  MaxT = 3
  IdVals = {1, 2, 3, 4}
  IdOrder = "asc"
  IdSeqs <- MC_IdSeqs
  CoefVals = {1, 3}
  Msgs = {1, 2}
  Kinds = {"dkg", "client", "split", "sos"}
  TamperBy = {1}
INVARIANTS TypeOK HonestSharesValidate AlteredSharesFail PartyKeysVerify EnoughSharesRecover FewerSharesUndetermined SplitNeedsAll SosExact
CHECK_DEADLOCK FALSE
