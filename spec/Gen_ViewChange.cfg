SPECIFICATION GSpec
CONSTANTS
  Miners = {"m1","m2","m3","m4"}
  Sharders = {"s1","s2"}
  Stranger = "c1"
  PRs <- PR_real
  MinN = 2
  MaxN = 4
  MinS = 1
  MaxS = 2
  K0 = 3
  T0 = 3
  MaxRound = 12
  MaxTx = 6
  Focus = "m4"
INVARIANT GPrint
CHECK_DEADLOCK FALSE
