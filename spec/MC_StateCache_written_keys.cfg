SPECIFICATION Spec
CONSTANTS
  Keys = {"k1", "k2"}
  Vals = {1, 2}
  Blocks = {"b1"}
  Handles = {"h1"}
  DeepClone = TRUE
  CommitOnFail = FALSE
  RemoveOnDelete = TRUE
  MigrateWipes = TRUE
INVARIANTS TypeOK C07_CacheAgreesWithTrie
PROPERTIES C07_MutateInvisible C07_NoResidue
CHECK_DEADLOCK FALSE
