------------------------------ MODULE MC_Rank ------------------------------
EXTENDS Rank
MCIdOrder == <<"n1", "n2", "n3", "n4">>
\* three arbitrary "seeds": for every pool size a fixed bijection (what rand.Perm would return)
MCPerm == [s \in {1, 2, 3} |->
            CASE s = 1 -> <<  <<0>>, <<1, 0>>, <<2, 0, 1>>, <<3, 1, 0, 2>> >>
            []   s = 2 -> <<  <<0>>, <<0, 1>>, <<1, 2, 0>>, <<0, 3, 2, 1>> >>
            []   s = 3 -> <<  <<0>>, <<1, 0>>, <<0, 2, 1>>, <<2, 0, 1, 3>> >> ]
MCNReps == -1..5
MCNRepsQuick == {0, 2, 3, 5}
MCNRepsPos == 1..3
MCNRepsShare == {0, 2}
MCIdOrder3 == <<"n1", "n2", "n3">>
\* sharing configs: node 1 finishes its pool before node 2 starts (the two nodes touch disjoint
\* variables, every interleaving reaches the same states; this only removes the commuting orders)
Pool1First == (pool2' # pool2 \/ hist2' # hist2) => Len(pool1) = Cardinality(Node)
\* quick bound only: node 2's sharing / re-adding starts when its pool is complete (the thorough
\* config interleaves it with the building of the pool)
HistoryAfterBuild == Pool1First /\ ((other' # other \/ readds' # readds) => Len(pool2) = Cardinality(Node))
=============================================================================
