SPECIFICATION Spec
CONSTANTS
  FixedGroups <- NoGroups
  Scenarios <- MCScenarios
INVARIANTS RaceOnlyAtDeviation LockDiscipline
CHECK_DEADLOCK FALSE
