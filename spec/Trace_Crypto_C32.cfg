SPECIFICATION TraceSpec
INVARIANTS C32_AggExact HarnessAggInd HarnessAggLift HarnessAggPattern HarnessAggModelImage
POSTCONDITION Accepted
CHECK_DEADLOCK FALSE
