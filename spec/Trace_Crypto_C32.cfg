SPECIFICATION TraceSpec
INVARIANTS C32_AggExact HarnessAggInd HarnessAggLift HarnessAggPattern HarnessAggModelImage HarnessAggStep
POSTCONDITION Accepted
CHECK_DEADLOCK FALSE
