SPECIFICATION SpecC23
CONSTANTS
  Provider = {"p1", "p2"}
  Client = {"d1", "w1", "own", "x"}
  Delegates = {"d1"}
  Owner = "own"
  Ord <- OrdC23
  MaxV = 2
  MinLock = 1
  MaxStake = 10
  KillNum = 1
  KillDen = 2
  ShutNum = 1
  ShutDen = 4
  PropTol = 2
  RandNDropsRemainder = FALSE
  ShutDownSavesUnderCaller = FALSE
  Balances = {0, 5}
  MinStakes = {0}
  MaxN = 0
  MaxSteps = 3
  Amounts = {1}
  Funds = 0
INVARIANTS C10_Distribute C23_DeadNotRewarded C23_DeadImpliesPoolDead
PROPERTIES C23_Frame C23_DeadAndSlashedOnce C23_DeviationMisplacesPool
CHECK_DEADLOCK FALSE
