--------------------------- MODULE MC_Finalization ---------------------------
(* Exhaustive exploration of Finalization.tla: every tree with <= MaxRound    *)
(* rounds x <= PerRound blocks per round, every block notarized or only known *)
(* as a parent, every growth order, finalizeRound of every round in between.  *)
(* Configs: _quick/_short/_thorough = 2 blocks per round (2-way forks), 4-5    *)
(* rounds; _wide (3 rounds), _wide_u1 (3 rounds, one block known only as a     *)
(* parent), _wide4 (4 rounds) = 3 blocks per round: 3-way forks whose branches *)
(* merge pairwise at different depths, where a walk that follows only some of  *)
(* the branches of a level arrives at a block that is not a common ancestor.   *)
EXTENDS Finalization, TLC

Table == <<<<"b1_1", "b1_2", "b1_3">>, <<"b2_1", "b2_2", "b2_3">>, <<"b3_1", "b3_2", "b3_3">>,
           <<"b4_1", "b4_2", "b4_3">>, <<"b5_1", "b5_2", "b5_3">>, <<"b6_1", "b6_2", "b6_3">>>>
MCBlock == {Table[r][i] : r \in 1..MaxRound, i \in 1..PerRound}
AllNames == {Table[r][i] : r \in 1..6, i \in 1..3}
RoundTbl == [b \in AllNames |-> CHOOSE r \in 1..6 : \E i \in 1..3 : Table[r][i] = b]
IdxTbl == [b \in AllNames |-> CHOOSE i \in 1..3 : \E r \in 1..6 : Table[r][i] = b]
MCRoundOf(b) == RoundTbl[b]
MCIdx(b) == IdxTbl[b]

CONSTANT MaxUnnotarized   \* bound on blocks known only as parents
A_AddBlock == \E b \in Block, p \in Blocks, n \in BOOLEAN :
                 /\ AddBlock(b, p, n)
                 /\ (~n => Cardinality(Blocks \ nota) < MaxUnnotarized)
A_Notarize == \E b \in Blocks : Notarize(b)
A_FinSkip == \E r \in 1..MaxRound : FinSkip(r)
A_FinNotConnected == \E r \in 1..MaxRound : FinNotConnected(r)
A_FinForward == \E r \in 1..MaxRound : FinForward(r)
A_Rollback == \E r \in 1..MaxRound : Rollback(r)
MCNext == A_AddBlock \/ A_Notarize \/ A_FinSkip \/ A_FinNotConnected \/ A_FinForward \/ A_Rollback
MCSpec == Init /\ [][MCNext]_vars
=============================================================================
