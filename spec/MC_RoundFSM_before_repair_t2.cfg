SPECIFICATION Spec
CONSTANTS
  Miner = {"m1", "m2", "m3"}
  SelfMiner = "m1"
  Thr = 2
  Cap = 1
  LeakChoices = {TRUE}
  CapDecrChoices = {TRUE}
  SatChoices = {FALSE}
  AtomicSetPhase = FALSE
  Proc = {"p1", "p2"}
  NoProc = "nobody"
  NoOp <- MCNoOp
  OpSet <- TocOps
  Budget <- Budget22
INVARIANTS TypeOK C37_ShareCap C37_NoDeadlockUnlessLeak
PROPERTIES C37_ShareOnce C37_FinalizedSticky C37_PhaseMonotoneUnlessStale C37_TimeoutMonotoneUnlessCap
CHECK_DEADLOCK FALSE
