------------------------------ MODULE ToyGroup ------------------------------
(***************************************************************************)
(* The toy group used by AggSig.tla (C32), ThresholdSig.tla (C34) and      *)
(* VRFSeed.tla (C33): scalars are Z_p for a small prime p, the group G1 is *)
(* Z_p written additively, "hash to G1" of message h is the scalar h, the  *)
(* signature of h under secret key s is s*h mod p, the public key of s is  *)
(* s, and "pairing equality" e(sig, g2) = e(H(h), pk) is sig = pk*h.       *)
(* The map  real group -> toy group  is a homomorphism, so every equation  *)
(* the real code relies on (linearity of signatures, polynomial shares,    *)
(* Lagrange recovery) has its image here and TLC can enumerate all cases.  *)
(* Pure operators only (no variables, the prime is a parameter).           *)
(***************************************************************************)
EXTENDS Integers, Sequences, FiniteSets

M(a, p) == a % p                       \* TLC: result in 0..p-1 for p > 0, also for negative a

(* modular inverse of a # 0 (mod p), p prime *)
Inv(a, p) == CHOOSE x \in 1..(p - 1) : (M(a, p) * x) % p = 1

RECURSIVE Pow(_, _, _)
Pow(a, k, p) == IF k = 0 THEN 1 ELSE (a * Pow(a, k - 1, p)) % p

(* sum of f[i] over a finite index set *)
RECURSIVE SumOver(_, _, _)
SumOver(f, S, p) == IF S = {} THEN 0
                    ELSE LET x == CHOOSE y \in S : TRUE IN (f[x] + SumOver(f, S \ {x}, p)) % p

RECURSIVE SumSeq(_, _, _)
SumSeq(s, i, p) == IF i > Len(s) THEN 0 ELSE (s[i] + SumSeq(s, i + 1, p)) % p

(* plain integer sum of a sequence (no reduction) *)
RECURSIVE ISum(_, _)
ISum(s, i) == IF i > Len(s) THEN 0 ELSE s[i] + ISum(s, i + 1)

(* signature, verification *)
Sig(sk, h, p) == (sk * h) % p
Ver(sig, pk, h, p) == M(sig, p) = (pk * h) % p

(* polynomial c[1] + c[2] x + ... + c[t] x^(t-1) evaluated at x *)
RECURSIVE EvalFrom(_, _, _, _)
EvalFrom(c, k, x, p) == IF k > Len(c) THEN 0 ELSE (c[k] * Pow(x, k - 1, p) + EvalFrom(c, k + 1, x, p)) % p
Eval(c, x, p) == EvalFrom(c, 1, x, p)

(* Lagrange coefficient at 0 of the point with abscissa xs[j] among the abscissae xs (a sequence, *)
(* pairwise distinct and non-zero mod p)                                                          *)
RECURSIVE LagNumDen(_, _, _, _)
LagNumDen(xs, j, m, p) ==      \* <<numerator, denominator>> over m..Len(xs), m # j
  IF m > Len(xs) THEN <<1, 1>>
  ELSE LET r == LagNumDen(xs, j, m + 1, p) IN
       IF m = j THEN r ELSE << (r[1] * xs[m]) % p, (r[2] * M(xs[m] - xs[j], p)) % p >>
Lagrange0(xs, j, p) == LET nd == LagNumDen(xs, j, 1, p) IN (nd[1] * Inv(nd[2], p)) % p

(* value at 0 of the interpolating polynomial through (xs[j], ys[j]) - order of the points is the *)
(* order of the sequences; the result must not depend on it (that is one of C34's invariants)      *)
RECURSIVE RecoverFrom(_, _, _, _)
RecoverFrom(xs, ys, j, p) == IF j > Len(xs) THEN 0
                             ELSE (ys[j] * Lagrange0(xs, j, p) + RecoverFrom(xs, ys, j + 1, p)) % p
Recover(xs, ys, p) == RecoverFrom(xs, ys, 1, p)

Distinct(xs) == \A i, j \in 1..Len(xs) : i # j => xs[i] # xs[j]
Range(s) == {s[i] : i \in 1..Len(s)}
=============================================================================
