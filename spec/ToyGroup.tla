------------------------------ MODULE ToyGroup ------------------------------
(***************************************************************************)
(* The toy group used by AggSig.tla (C32), ThresholdSig.tla (C34) and      *)
(* VRFSeed.tla (C33): scalars are Z_p for a small prime p, the group G1 is *)
(* Z_p written additively, "hash to G1" of message h is the scalar h, the  *)
(* signature of h under secret key s is s*h mod p, the public key of s is  *)
(* s, and "pairing equality" e(sig, g2) = e(H(h), pk) is sig = pk*h.       *)
(* The map  real group -> toy group  is a homomorphism, so every equation  *)
(* the real code relies on (linearity of signatures, polynomial shares,    *)
(* Lagrange recovery) has its image here and TLC can enumerate all cases.  *)
(* Pure operators only (no variables, the prime is a parameter).           *)
(***************************************************************************)
EXTENDS Integers, Sequences, FiniteSets, Functions, SequencesExt

(* Folds are the Java-implemented ones of the CommunityModules (no RECURSIVE operators: TLC evaluates *)
(* the arguments of recursive operators by name, which is very slow for nested sums)                   *)

M(a, p) == a % p                       \* TLC: result in 0..p-1 for p > 0, also for negative a

(* modular inverse of a # 0 (mod p), p prime *)
Inv(a, p) == CHOOSE x \in 1..(p - 1) : (M(a, p) * x) % p = 1

AddP(p, a, b) == (a + b) % p
MulP(p, a, b) == (a * b) % p

Pow(a, k, p) == FoldFunctionOnSet(LAMBDA x, y : (x * y) % p, 1, [i \in 1..k |-> M(a, p)], 1..k)

(* sum (mod p) of f[i] over a finite index set *)
SumOver(f, S, p) == FoldFunctionOnSet(LAMBDA x, y : (x + y) % p, 0, f, S)
ProdOver(f, S, p) == FoldFunctionOnSet(LAMBDA x, y : (x * y) % p, 1, f, S)

(* sum (mod p) of s[i..Len(s)] *)
SumSeq(s, i, p) == FoldFunctionOnSet(LAMBDA x, y : (x + y) % p, 0, s, i..Len(s))

(* plain integer sum of s[i..Len(s)] (no reduction) *)
ISum(s, i) == FoldFunctionOnSet(LAMBDA x, y : x + y, 0, s, i..Len(s))

(* signature, verification *)
Sig(sk, h, p) == (sk * h) % p
Ver(sig, pk, h, p) == M(sig, p) = (pk * h) % p

(* polynomial c[1] + c[2] x + ... + c[t] x^(t-1) evaluated at x *)
Eval(c, x, p) == LET cc == c  xx == M(x, p) IN
                 SumOver([k \in 1..Len(cc) |-> (cc[k] * Pow(xx, k - 1, p)) % p], 1..Len(cc), p)

(* Lagrange coefficient at 0 of the point with abscissa xs[j] among the abscissae xs (a sequence, *)
(* pairwise distinct and non-zero mod p):  Prod_{m # j} xs[m] / (xs[m] - xs[j])                    *)
Lagrange0(xs, j, p) ==
  LET others == (1..Len(xs)) \ {j}
      num == ProdOver([m \in others |-> M(xs[m], p)], others, p)
      den == ProdOver([m \in others |-> M(xs[m] - xs[j], p)], others, p)
  IN (num * Inv(den, p)) % p

(* value at 0 of the interpolating polynomial through (xs[j], ys[j]) - the order of the points is *)
(* the order of the sequences; the result must not depend on it (one of C34's invariants)          *)
Recover(xs, ys, p) ==
  LET X == xs  Y == ys IN
  SumOver([j \in 1..Len(X) |-> (Y[j] * Lagrange0(X, j, p)) % p], 1..Len(X), p)

Distinct(xs) == \A i, j \in 1..Len(xs) : i # j => xs[i] # xs[j]
=============================================================================
