------------------------------ MODULE Gen_Ledger ------------------------------
(* Behaviour generator: TLC -simulate walks Ledger's micro-step machine and    *)
(* prints, for every completed walk, the abstract transaction list (with the   *)
(* chosen contract outcome) as JSON.  vdriver replays each list on the real    *)
(* chain (c1, c2 = the poor clients holding 2 and 1 tokens; sc1 = faucet).     *)
EXTENDS MC_Ledger, Json
VARIABLE hist
GInit == MCInit /\ hist = <<>>
G_Begin == /\ begun < MaxTxns /\ begun' = begun + 1
           /\ \E t \in Txn :
                \* bias the walk towards applicable transactions: wrong nonces only in one canonical shape
                /\ \/ t.nonce = nonce[t.from] + 1
                   \/ (t.nonce \in {nonce[t.from], nonce[t.from] + 2} /\ t.value = 1 /\ t.fee = 0 /\ t.to = "c2")
                /\ Begin(t) /\ hist' = Append(hist, t @@ [out |-> "none", q |-> <<>>, s |-> <<>>, kv |-> 0])
G_ok == A_ExecSC_ok /\ hist' = [hist EXCEPT ![Len(hist)].out = "ok", ![Len(hist)].q = queue', ![Len(hist)].s = signed',
                                                ![Len(hist)].kv = okv'[cur.to]]
G_fail == A_ExecSC_fail /\ hist' = [hist EXCEPT ![Len(hist)].out = "fail"]
G_other == (A_ExecSend \/ A_ExecData \/ A_QueueFee \/ A_ApplyTransfer \/ A_ApplyOverflow \/ A_ApplySigned
            \/ A_IncNonce \/ A_Commit \/ A_Reject) /\ UNCHANGED hist
GNext == G_Begin \/ G_ok \/ G_fail \/ G_other
GSpec == GInit /\ [][GNext]_<<vars, begun, hist>>
GPrint == (begun = MaxTxns /\ phase = "idle") => PrintT(<<"BEHAVIOUR", ToJson(hist)>>)
=============================================================================
