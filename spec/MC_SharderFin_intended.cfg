\* The intended counter semantics (the counter of a round IS the number of its transactions): CountExact holds and
\* a fair health check completes every round exactly (MC_SharderFin_live_intended.cfg, liveness).
SPECIFICATION Spec
CONSTANTS
  Canon <- MCCanon3
  Fork <- MCFork
  Info <- MCInfo
  Genesis = "g"
  Batch = 1
  Confirmations = 1
  CountMerges = FALSE
  MaxFaults = 2
  MaxCnt = 4
  HCAhead = FALSE
  Concurrent = FALSE
  MaxLag = 0
CONSTRAINT StateConstraint
INVARIANTS TypeOK RoundMapCanonical LFBCanonical RestartPossible LFBPersisted OnlyFinalizedStored CountExact CountMultiple
  ServeByRoundSound ConfirmationSound
PROPERTIES RoundMapStable LFBChain FinalizationComplete RepairCompletes RepairKeeps RepairWindow
CHECK_DEADLOCK FALSE
