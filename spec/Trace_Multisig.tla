---------------------------- MODULE Trace_Multisig ----------------------------
(***************************************************************************)
(* Trace specification for C21 (Multisig.tla).  Every "Msig" line is one   *)
(* real multisigsc transaction (register / vote) executed through          *)
(* Chain.UpdateState, with, read back from the real MPT after it:          *)
(*   signers, t      : the stored wallet (signer client ids, num_required) *)
(*   exists, expiry, voters, executed, executed_here : the stored proposal *)
(*   wdelta, rdelta  : OBSERVED balance change of the wallet / recipient   *)
(* and recomputed by the harness with the REAL signature code:             *)
(*   is_signer, vote_sig_ok : the sender is a registered signer and his    *)
(*                            share signature on the vote's transfer holds *)
(*   compatible      : the vote names the live proposal's transfer         *)
(*   thr_sig_ok      : the stored threshold signature verifies under the   *)
(*                     wallet's public key (SignedTransfer.VerifySignature)*)
(* The spec tracks every proposal INSTANCE (key = wallet/proposal id; a    *)
(* new instance may start only after the previous one expired) with its    *)
(* counted voters and the number of observed executions.  Error texts,     *)
(* pruning order, what non-counted votes return are left free.             *)
(***************************************************************************)
EXTENDS TraceLib

VARIABLES l, ev,
          PR,     \* key -> [expiry, votes, execs, executed]
          B       \* the addressed proposal instance before the event (NoInst if none)

vars == <<l, ev, PR, B>>
Null == [ev |-> "none"]
NoInst == [expiry |-> -1, votes |-> {}, execs |-> 0, executed |-> FALSE]

TraceInit == l = 1 /\ ev = Null /\ PR = <<>> /\ B = NoInst
IsEvent(e) == l <= Len(Trace) /\ Trace[l].ev = e /\ l' = l + 1
TraceReset == IsEvent("Reset") /\ ev' = Null /\ PR' = <<>> /\ B' = NoInst

Names(ps) == {ps[i].a : i \in 1..Len(ps)}

TraceMsig ==
  /\ IsEvent("Msig")
  /\ LET e == Trace[l]
         b == Get(PR, e.key, NoInst)
         same == b.expiry = e.expiry                        \* the stored proposal is the tracked instance
         paid == IF e.wdelta < 0 THEN 1 ELSE 0
     IN /\ ev' = e /\ B' = b
        /\ PR' = IF e.op # "vote" \/ ~e.exists THEN PR
                 ELSE Put(PR, e.key, [expiry |-> e.expiry, votes |-> Names(e.voters),
                                      execs |-> (IF same THEN b.execs ELSE 0) + paid,
                                      executed |-> e.executed])

TraceSkip ==
  /\ l <= Len(Trace) /\ Trace[l].ev \notin {"Reset", "Msig"}
  /\ l' = l + 1 /\ ev' = Null /\ UNCHANGED <<PR, B>>

TraceNext == TraceReset \/ TraceMsig \/ TraceSkip
TraceSpec == TraceInit /\ [][TraceNext]_vars

-----------------------------------------------------------------------------
IsM == ev.ev = "Msig"
IsVote == IsM /\ ev.op = "vote"
Stored == IsVote /\ ev.exists                      \* a proposal is stored after the event
A == Get(PR, ev.key, NoInst)
Same == B.expiry = ev.expiry
OldVotes == IF Same THEN B.votes ELSE {}
Signers == Names(ev.signers)
Paid == IsM /\ ev.wdelta < 0

NoPanic == IsM => ~ev.panic
HarnessRange == IsM => ~ev.overflow

(* C21 *)
(* an instance is executed at most once; a payment out of the wallet happens only as an execution *)
C21_Once ==
  /\ \A k \in DOMAIN PR : PR[k].execs <= 1
  /\ Paid => (Stored /\ ev.executed_here /\ ev.wdelta = -ev.amount /\ (ev.to # ev.wallet => ev.rdelta = ev.amount))
  /\ (Stored /\ ev.executed_here) => Paid
  /\ (Stored /\ Same /\ B.executed) => (ev.executed /\ ~ev.executed_here /\ A.votes = B.votes)
(* executed only with enough distinct registered signers, before expiry *)
C21_Threshold ==
  (Stored /\ (ev.executed \/ Paid)) =>
     /\ ev.registered /\ ev.t >= 1
     /\ Cardinality(A.votes) >= ev.t
     /\ A.votes \subseteq Signers
     /\ (Paid => ev.now < ev.expiry)
(* the counted votes are distinct registered signers; a vote is counted only if it is the sender's,   *)
(* validly signed, compatible, and the instance is alive; counted votes are never lost; a new instance *)
(* starts only after the previous one expired                                                          *)
C21_Counted ==
  Stored =>
     /\ Len(ev.voters) = Cardinality(A.votes) /\ ev.n_votes = Len(ev.voters) /\ ev.n_sigs = ev.n_votes
     /\ A.votes \subseteq Signers
     /\ OldVotes \subseteq A.votes
     /\ (A.votes \ OldVotes) \subseteq {ev.by}
     /\ (A.votes # OldVotes) => (ev.class = "ok" /\ ev.registered /\ ev.is_signer /\ ev.vote_sig_ok /\ ev.compatible /\ ev.now < ev.expiry)
     /\ (~Same /\ B.expiry # -1) => ev.now >= B.expiry
(* the executed transfer carries a valid threshold signature of the wallet *)
C21_Signature == (Stored /\ ev.executed /\ ~IsKnown(ev)) => ev.thr_sig_ok
=============================================================================
