------------------------------ MODULE MC_Vesting ------------------------------
(* Exhaustive small-constant instance of Vesting.tla: every order of add /     *)
(* trigger / unlock / stop / delete / clock steps.                             *)
EXTENDS Vesting
\* the trailing conjunct makes TLC report coverage under these names
A_Add == (\E ds \in SUBSET Dest, am \in [Dest -> 0..MaxAmt], x \in 0..MaxExtra, dl \in 0..MaxDelay, du \in Durs :
             Add(ds, am, x, dl, du)) /\ TRUE
A_Trigger == Trigger /\ TRUE
A_UnlockOwner == UnlockOwner /\ TRUE
A_UnlockDest == (\E d \in Dest : UnlockDest(d)) /\ TRUE
A_Stop == (\E d \in Dest : Stop(d)) /\ TRUE
A_Delete == Delete /\ TRUE
A_Tick == (\E d \in 1..MaxStep : Tick(d)) /\ TRUE
MCNext == A_Add \/ A_Trigger \/ A_UnlockOwner \/ A_UnlockDest \/ A_Stop \/ A_Delete \/ A_Tick
MCSpec == Init /\ [][MCNext]_vars
=============================================================================
