----------------------------- MODULE SigSchemes -----------------------------
(* C47: for every client signature scheme, Verify(sig, key, hash) holds      *)
(* exactly for the signing key and the signed hash; a client id is the hash  *)
(* of the public key.  The decision table is tiny; TLC enumerates it and     *)
(* every entry is replayed on the real schemes with random keys and hashes.  *)
EXTENDS Integers, Sequences, FiniteSets, TLC, Json

CONSTANTS Scheme, Key, Hash, Mangle   \* Mangle: ways of damaging a signature / key

VARIABLES phase, scheme, sk, sh, vk, vh, mg, idkey, idclaim, hist
vars == <<phase, scheme, sk, sh, vk, vh, mg, idkey, idclaim, hist>>

Init == /\ phase = "start" /\ scheme \in Scheme /\ sk \in Key /\ sh \in Hash /\ vk \in Key /\ vh \in Hash
        /\ mg = "none" /\ idkey \in Key /\ idclaim \in Key /\ hist = <<>>
Sign == phase = "start" /\ phase' = "signed" /\ hist' = Append(hist, "Sign")
        /\ UNCHANGED <<scheme, sk, sh, vk, vh, mg, idkey, idclaim>>
Damage(m) == phase = "signed" /\ mg = "none" /\ m # "none" /\ mg' = m /\ hist' = Append(hist, m)
        /\ UNCHANGED <<phase, scheme, sk, sh, vk, vh, idkey, idclaim>>
Check == phase = "signed" /\ phase' = "checked" /\ hist' = Append(hist, "Verify")
        /\ UNCHANGED <<scheme, sk, sh, vk, vh, mg, idkey, idclaim>>
Next == Sign \/ (\E m \in Mangle : Damage(m)) \/ Check
Spec == Init /\ [][Next]_vars

Verify == sk = vk /\ sh = vh /\ mg = "none"
IdOK == idkey = idclaim
\* the property on the model: soundness and completeness of Verify
Exact == phase = "checked" => (Verify <=> (sk = vk /\ sh = vh /\ mg = "none"))
GPrint == phase = "checked" =>
  PrintT(<<"BEHAVIOUR", ToJson([scheme |-> scheme, sk |-> sk, sh |-> sh, vk |-> vk, vh |-> vh, mg |-> mg,
                                 idkey |-> idkey, idclaim |-> idclaim])>>)
=============================================================================
