----------------------------- MODULE SigSchemes -----------------------------
(* C47: for every client signature scheme, Verify(sig, key, hash) holds      *)
(* exactly for the signing key and the signed hash; a client id is the hash  *)
(* of the public key.  The decision table is tiny; TLC enumerates it and     *)
(* every entry is replayed on the real schemes with random keys and hashes.  *)
EXTENDS Integers, Sequences, FiniteSets, TLC, Json

(*                                                                           *)
(* The verifier is also modelled as a long-lived OBJECT (chaincore/client    *)
(* Client, embedded in node.Node): it has an exported public-key field       *)
(* (ofield) and a decoded signature scheme (okey = the key the scheme really *)
(* verifies with).  The object starts with an EARLIER identity (pk # vk) and *)
(* becomes the vk client in one of the Ways the repository does it:          *)
(*   "set"    SetPublicKey(vk)                 field and scheme together     *)
(*   "scheme" SetSignatureScheme(scheme of vk) field and scheme together     *)
(*   "copy"   Copy(client of vk)               field and scheme together     *)
(*   "decode" a serialized record of the vk client is decoded INTO the       *)
(*            object (+ ComputeProperties): only the field (and id) change   *)
(*   "assign" direct assignment c.PublicKey = vk (n.PublicKey = v.PublicKey) *)
(* after the last two the scheme is stale until the refresh idiom            *)
(* c.SetPublicKey(c.PublicKey) (node.Pool.AddNode, lazy decode paths) runs.  *)
(* Design requirement: when the object verifies, its scheme is the scheme of *)
(* its public-key field (ObjectBound), hence it verifies exactly vk's        *)
(* signatures (ObjectExact).                                                 *)
CONSTANTS Scheme, Key, Hash, Mangle,  \* Mangle: ways of damaging a signature / key
          Way                          \* how the verifying client object came to hold vk

VARIABLES phase, scheme, sk, sh, vk, vh, mg, idkey, idclaim, hist,
          way, pk,          \* the object's way to vk, its previous key
          ofield, okey,     \* the object: public-key field, key of its decoded scheme
          ostage            \* "old" (still the earlier identity) | "stale" (field replaced, scheme not) | "fresh"
vars == <<phase, scheme, sk, sh, vk, vh, mg, idkey, idclaim, hist, way, pk, ofield, okey, ostage>>
claim == <<scheme, sk, sh, vk, vh, idkey, idclaim, way, pk>>

Init == /\ phase = "start" /\ scheme \in Scheme /\ sk \in Key /\ sh \in Hash /\ vk \in Key /\ vh \in Hash
        /\ mg = "none" /\ idkey \in Key /\ idclaim \in Key /\ hist = <<>>
        /\ way \in Way /\ pk \in Key \ {vk} /\ ofield = pk /\ okey = pk /\ ostage = "old"
Sign == phase = "start" /\ phase' = "signed" /\ hist' = Append(hist, "Sign")
        /\ UNCHANGED <<claim, mg, ofield, okey, ostage>>
Damage(m) == phase = "signed" /\ mg = "none" /\ m # "none" /\ mg' = m /\ hist' = Append(hist, m)
        /\ UNCHANGED <<phase, claim, ofield, okey, ostage>>
\* the object becomes the vk client: field and scheme together, or the field alone
Rekey == /\ ostage = "old" /\ way \in {"set", "scheme", "copy"}
         /\ ofield' = vk /\ okey' = vk /\ ostage' = "fresh" /\ hist' = Append(hist, way)
         /\ UNCHANGED <<phase, claim, mg>>
Repopulate == /\ ostage = "old" /\ way \in {"decode", "assign"}
              /\ ofield' = vk /\ ostage' = "stale" /\ hist' = Append(hist, way)
              /\ UNCHANGED <<phase, claim, mg, okey>>
\* c.SetPublicKey(c.PublicKey): the scheme is rebuilt from the field, whatever the field was set by
Refresh == /\ ostage = "stale" /\ okey' = ofield /\ ostage' = "fresh" /\ hist' = Append(hist, "Refresh")
           /\ UNCHANGED <<phase, claim, mg, ofield>>
Check == phase = "signed" /\ ostage = "fresh" /\ phase' = "checked" /\ hist' = Append(hist, "Verify")
        /\ UNCHANGED <<claim, mg, ofield, okey, ostage>>
Next == Sign \/ (\E m \in Mangle : Damage(m)) \/ Rekey \/ Repopulate \/ Refresh \/ Check
Spec == Init /\ [][Next]_vars

Verify == sk = vk /\ sh = vh /\ mg = "none"
ObjVerify == sk = okey /\ sh = vh /\ mg = "none"      \* what the object's scheme decides
IdOK == idkey = idclaim
\* the property on the model: soundness and completeness of Verify
Exact == phase = "checked" => (Verify <=> (sk = vk /\ sh = vh /\ mg = "none"))
\* ... and of the long-lived object: it verifies with the scheme of its own public key, i.e. exactly vk's signatures
ObjectBound == ostage = "fresh" => (okey = ofield /\ ofield = vk)
ObjectExact == phase = "checked" => (ObjVerify <=> Verify)
GPrint == phase = "checked" =>
  PrintT(<<"BEHAVIOUR", ToJson([scheme |-> scheme, sk |-> sk, sh |-> sh, vk |-> vk, vh |-> vh, mg |-> mg,
                                 idkey |-> idkey, idclaim |-> idclaim, way |-> way, pk |-> pk])>>)
=============================================================================
