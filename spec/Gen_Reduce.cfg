SPECIFICATION GSpec
CONSTANTS
  Names = {"a","b","c","d"}
  Stakes = {1,2}
  Limits = {1,2,3,4}
  Pcts = {0,50}
  Ord1 <- O_abcd
  Ord2 <- O_cadb
  HeadBug = FALSE
INVARIANT GPrint
CHECK_DEADLOCK FALSE
