--------------------------- MODULE Trace_RoundFSM ---------------------------
(***************************************************************************)
(* Trace specification for C37: recorded executions of a REAL round.Round. *)
(*                                                                         *)
(* Events (one trace = one TLC-enumerated behaviour):                      *)
(*   Reset  cap, thr          start of a trace                             *)
(*   New                      a fresh round.Round object                   *)
(*   Op     op,v,m,res,hang + projected state read back after the call     *)
(*          (phase, toc, fin, shares) - a call made while nothing else runs *)
(*   Call / Ret  p, op, ...   start / end of a call made on goroutine p    *)
(*   Obs    projected state after all goroutines have returned             *)
(*                                                                         *)
(* Tracked: prj/pre = the projection logged by the last two sequential     *)
(* events (the C37_* invariants compare them: that is the property and     *)
(* nothing else), and cfgs = the set of configurations of the sequential   *)
(* specification RoundSeq that are consistent with the history so far,     *)
(* each pending call taking effect at some point between its Call and its  *)
(* Ret (linearizability).  cfgs = {} after a sequential event means the    *)
(* MODEL has drifted from the code (HarnessModelConforms, not a verdict);  *)
(* after a concurrent history it means the history is not linearizable     *)
(* (C37_Linearizable: an update was lost, i.e. phase / timeout count moved *)
(* backwards, a share was dropped, or a finalized round was reset).        *)
(* Both outcomes of the named deviations are admitted by the model         *)
(* (LeakChoices, CapDecrChoices = BOOLEAN), so that repairing them in the  *)
(* code does not make the model "drift"; the properties judge them.        *)
(***************************************************************************)
EXTENDS TraceLib, RoundSeq

VARIABLES l, ev, cfgs, pend, prj, pre, cap, thr
vars == <<l, ev, cfgs, pend, prj, pre, cap, thr>>
Null == [ev |-> "none"]
Proj0 == [phase |-> 0, toc |-> 0, fin |-> 0, shares |-> <<>>]

IsEvent(e) == l <= Len(Trace) /\ Trace[l].ev = e /\ l' = l + 1
OpOf(e) == [t |-> e.op, v |-> e.v, m |-> e.m]
SharesOf(e) == PutPairs(<<>>, e.shares, 1)
ProjOf(e) == [phase |-> e.phase, toc |-> e.toc, fin |-> e.fin, shares |-> SharesOf(e)]
ProjEq(s, e) == s.phase = e.phase /\ s.toc = e.toc /\ s.fin = e.fin /\ s.shares = SharesOf(e)
Drop(f, k) == [x \in DOMAIN f \ {k} |-> f[x]]

\* One more pending call takes effect.  Every operation takes effect atomically at one point between
\* its Call and its Ret, except Restart, which is two atomic steps as in the step machine RoundFSM:
\* (1) Lock + phase check, (2) initialize + ResetPhase + Unlock; while it is between the two it holds
\* r.mutex (locked = TRUE), so only the lock-free phase operations and the timeout counter can take
\* effect in between (done[p] = "@mid").
LinOne(c, p, op) ==
  IF p \in DOMAIN c.done
    THEN IF c.done[p] = "@mid"
           THEN {[s |-> [c.s EXCEPT !.phase = ShareVRF, !.shares = EmptyF, !.locked = FALSE], done |-> [c.done EXCEPT ![p] = "ok"]]}
           ELSE {}
    ELSE IF op.t = "Restart" /\ ~c.s.locked /\ c.s.phase < Share
           THEN {[s |-> [c.s EXCEPT !.locked = TRUE], done |-> c.done @@ (p :> "@mid")]}
           ELSE {[s |-> o.s, done |-> c.done @@ (p :> o.r)] : o \in {x \in SeqNext(op, c.s) : x.r # "hang"}}
Lin(C, pn) == UNION { UNION { LinOne(c, p, pn[p]) : p \in DOMAIN pn } : c \in C }
RECURSIVE Closure(_, _, _)
Closure(C, pn, n) == IF n = 0 THEN C
                     ELSE LET D == C \cup Lin(C, pn) IN IF D = C THEN C ELSE Closure(D, pn, n - 1)
Closed(C, pn) == Closure(C, pn, 2 * Cardinality(DOMAIN pn))

TraceInit == l = 1 /\ ev = Null /\ cfgs = {} /\ pend = <<>> /\ prj = Proj0 /\ pre = Proj0 /\ cap = 0 /\ thr = 0

TraceReset ==
  /\ IsEvent("Reset")
  /\ ev' = Null /\ cfgs' = {} /\ pend' = <<>> /\ prj' = Proj0 /\ pre' = Proj0
  /\ cap' = Trace[l].cap /\ thr' = Trace[l].thr

TraceNew ==
  /\ IsEvent("New")
  /\ ev' = Null /\ cfgs' = {[s |-> InitAbs(cap, thr), done |-> <<>>]} /\ pend' = <<>>
  /\ prj' = Proj0 /\ pre' = Proj0 /\ UNCHANGED <<cap, thr>>

Hung(e) == e.hang \/ e.proj_hang

TraceOp ==
  /\ IsEvent("Op")
  /\ LET e == Trace[l] IN
       /\ ev' = e /\ pre' = prj
       /\ IF Hung(e)
            THEN UNCHANGED <<cfgs, prj>>
            ELSE /\ prj' = ProjOf(e)
                 /\ cfgs' = UNION { {[s |-> o.s, done |-> <<>>] : o \in {x \in SeqNext(OpOf(e), c.s) : x.r = e.res /\ ProjEq(x.s, e)}}
                                    : c \in cfgs }
  /\ UNCHANGED <<pend, cap, thr>>

TraceCall ==
  /\ IsEvent("Call")
  /\ LET e == Trace[l] IN
       /\ ev' = e
       /\ pend' = pend @@ (e.p :> OpOf(e))
       /\ cfgs' = Closed(cfgs, pend')
  /\ UNCHANGED <<prj, pre, cap, thr>>

TraceRet ==
  /\ IsEvent("Ret")
  /\ LET e == Trace[l] IN
       /\ ev' = e
       /\ pend' = Drop(pend, e.p)
       /\ IF e.hang THEN UNCHANGED cfgs
          ELSE cfgs' = {[s |-> c.s, done |-> Drop(c.done, e.p)] :
                          c \in {x \in Closed(cfgs, pend) : e.p \in DOMAIN x.done /\ x.done[e.p] = e.res}}
  /\ UNCHANGED <<prj, pre, cap, thr>>

TraceObs ==
  /\ IsEvent("Obs")
  /\ LET e == Trace[l] IN
       /\ ev' = e /\ pre' = prj
       /\ IF Hung(e) THEN UNCHANGED <<cfgs, prj>>
          ELSE /\ prj' = ProjOf(e)
               /\ cfgs' = {c \in Closed(cfgs, pend) : DOMAIN c.done = DOMAIN pend /\ ProjEq(c.s, e)}
  /\ UNCHANGED <<pend, cap, thr>>

TraceNext == TraceReset \/ TraceNew \/ TraceOp \/ TraceCall \/ TraceRet \/ TraceObs
TraceSpec == TraceInit /\ [][TraceNext]_vars

-----------------------------------------------------------------------------
IsOp == ev.ev = "Op"
Live == ev.ev \in {"Op", "Ret", "Obs"} /\ ~Hung(ev)

(* every round operation returns (2 s watchdog), including the getters that *)
(* read the projection back, also after a rejected Restart                  *)
C37_Returns == ev.ev \in {"Op", "Ret", "Obs"} => ~ev.hang /\ ~ev.proj_hang

(* phase only moves forward except by ResetPhase or a Restart before Share  *)
C37_PhaseMonotone ==
  (IsOp /\ ~Hung(ev)) => \/ ev.phase >= pre.phase
                         \/ ev.op = "ResetPhase"
                         \/ (ev.op = "Restart" /\ pre.phase < Share)

C37_TimeoutMonotone == (IsOp /\ ~Hung(ev)) => ev.toc >= pre.toc

(* at most threshold-many shares, at most one per miner (the first is kept) *)
C37_ShareCap ==
  (ev.ev \in {"Op", "Obs"} /\ ~Hung(ev)) =>
     /\ Len(ev.shares) <= thr
     /\ \A i, j \in 1..Len(ev.shares) : i # j => ev.shares[i].a # ev.shares[j].a
C37_ShareOnce ==
  (IsOp /\ ~Hung(ev) /\ ev.op # "Restart") =>
     \A m \in DOMAIN pre.shares \cap DOMAIN prj.shares : prj.shares[m] = pre.shares[m]

(* the conditional reset never un-finalizes                                  *)
C37_FinalizedSticky ==
  (IsOp /\ ~Hung(ev) /\ ev.op = "ResetIfNot" /\ pre.fin = Finalized) => ev.fin = Finalized

(* model drift (sequential semantics), a harness matter                      *)
HarnessModelConforms == (IsOp /\ ~Hung(ev)) => cfgs # {}

(* concurrent histories are linearizable w.r.t. the sequential specification *)
C37_Linearizable == (ev.ev \in {"Ret", "Obs"} /\ ~Hung(ev)) => cfgs # {}
=============================================================================
