SPECIFICATION MCSpec
CONSTANTS
  Alloc = {"a1"}
  Blob = {"b1","b2","b3"}
  Client = {"c1"}
  M = 2
  Cap = 2
  ChargeCap = 1
  NBlob = 2
  Price = 1
  MaxCtr = 3
  IndLimit = 2
  TotLimit = 3
  Nonce = {1, 2}
  Groups = {"alloc", "slash"}
  SavePoolOnKilledReplace = TRUE
  RefreshZeroesOffers = FALSE
INVARIANTS TypeOK C12_ChallengePool C13_Allocated C13_Offers C13_Capacity C13_CloseEnabled C14_Once C09_Covered
PROPERTIES C14_Dead C14_Refund C09_Backed
CHECK_DEADLOCK FALSE
