---------------------------- MODULE Trace_Ledger ----------------------------
(***************************************************************************)
(* Trace specification for the Ledger family (C01-C05).                    *)
(* Every line of the trace is one call of the REAL Chain.UpdateState with  *)
(* the state read back from the REAL Merkle-Patricia trie before and after *)
(* it.  The trace action applies the big-step semantics of Ledger.tla      *)
(* (Summary) to the tracked abstract state; the invariants below are the   *)
(* properties, evaluated on every recorded step.  Events of other families *)
(* in the same file are skipped, so this spec also validates the           *)
(* transactions of every other driver.                                     *)
(***************************************************************************)
EXTENDS TraceLib

VARIABLES l,        \* next line
          ev,       \* the event just consumed (or Null)
          bal,      \* tracked balance of every account relative to trace start
          nonce,    \* tracked nonce of every account
          prenonce, \* tracked nonce of the sender before the event
          applied,  \* (sender, nonce) pairs already applied in this trace
          redeemed, \* free-storage markers (assigner, nonce) already redeemed in this trace
          fresh     \* the event's free-storage marker had not been redeemed before

vars == <<l, ev, bal, nonce, prenonce, applied, redeemed, fresh>>
Null == [ev |-> "none"]

TraceInit == l = 1 /\ ev = Null /\ bal = <<>> /\ nonce = <<>> /\ prenonce = 0 /\ applied = {}
             /\ redeemed = {} /\ fresh = TRUE

IsEvent(e) == l <= Len(Trace) /\ Trace[l].ev = e /\ l' = l + 1

TraceReset ==
  /\ IsEvent("Reset")
  /\ ev' = Null /\ bal' = <<>> /\ prenonce' = 0 /\ applied' = {}
  /\ redeemed' = {} /\ fresh' = TRUE
  \* a family whose own Reset already uses a field "nonces" (bridge: ethereum nonces) logs the ledger's as "nonces_ledger"
  /\ nonce' = IF "nonces_ledger" \in DOMAIN Trace[l] THEN PutPairs(<<>>, Trace[l].nonces_ledger, 1)
            ELSE IF "nonces" \in DOMAIN Trace[l] THEN PutPairs(<<>>, Trace[l].nonces, 1) ELSE <<>>

(* Ledger!Summary specialised to tracked state: an accepted transaction    *)
(* raises exactly the sender's nonce by one and moves balances by the      *)
(* recorded deltas; a rejected one changes nothing.                         *)
TraceTxn ==
  /\ IsEvent("Txn")
  /\ LET e == Trace[l] IN
       /\ ev' = e
       /\ prenonce' = Get(nonce, e.from, 0)
       /\ LET mk == IF "free_assigner" \in DOMAIN e THEN <<e.free_assigner, e.free_nonce>> ELSE <<"", 0>> IN
            /\ fresh' = (mk \notin redeemed)
            /\ redeemed' = IF e.class = "ok" /\ e.fn = "free_allocation_request" /\ "free_assigner" \in DOMAIN e
                             THEN redeemed \cup {mk} ELSE redeemed
       /\ IF e.class = "rejected"
            THEN UNCHANGED <<bal, nonce, applied>>
            ELSE /\ nonce' = Add(nonce, e.from, 1)
                 /\ bal' = AddPairs(bal, e.delta, 1)
                 /\ applied' = applied \cup {<<e.from, e.nonce>>}

TraceSkip ==
  /\ l <= Len(Trace) /\ Trace[l].ev \notin {"Reset", "Txn"}
  /\ l' = l + 1 /\ ev' = Trace[l]
  /\ UNCHANGED <<bal, nonce, prenonce, applied, redeemed, fresh>>

TraceNext == TraceReset \/ TraceTxn \/ TraceSkip
TraceSpec == TraceInit /\ [][TraceNext]_vars

IsTxn == ev.ev = "Txn" /\ ~IsKnown(ev)
Delta(a) == PairOf(ev.delta, a, 0)
Accounts == {ev.delta[i].a : i \in 1..Len(ev.delta)}

-----------------------------------------------------------------------------
(* harness sanity: the driver's panic flag, and the model's continuity      *)
NoPanic == IsTxn => ~ev.panic
\* a delta too large for TLC's 32-bit integers is a limit of the HARNESS (exit 2), not a verdict;
\* a real 64-bit wrap is caught exactly by sum_equal / above_supply, computed with big integers
HarnessRange == IsTxn => ~ev.overflow
\* ... unless the exact sums already differ: then the out-of-range delta IS the finding (C01 and C05 assert
\* sum_equal), not a limit.  Used by the configs of C01 and C05, whose invariants never read a capped delta
\* without its exact flag.
HarnessRangeExact == IsTxn => (ev.overflow => ~ev.sum_equal)

(* C01: the sum over ALL client leaves of the real trie is unchanged by    *)
(* every transaction, no leaf disappears, nothing wraps.                   *)
C01_Conservation ==
  IsTxn => /\ ev.sum_delta = 0
           /\ ev.sum_equal /\ ev.sum_is_supply
           /\ ev.leaves_missing = 0
           /\ SumFun(bal, DOMAIN bal) = 0
           /\ (ev.class = "rejected" => Len(ev.delta) = 0)

(* C02: a chargeable failure leaves fee + nonce + one error event, nothing *)
(* else: no other value node of the whole trie changed.                    *)
C02_FailOnlyFee ==
  (IsTxn /\ ev.class = "chargeable") =>
     /\ ev.type = "sc"
     /\ ev.changed_other = 0
     /\ ev.n_error_events = 1 /\ ev.n_foreign_events = 0
     /\ ev.post_nonce = ev.pre_nonce + 1
     /\ Len(ev.nonce_delta) = 1 /\ ev.nonce_delta[1].a = ev.from
     /\ IF ev.fee = 0 \/ ev.from = "minersc"
          THEN Len(ev.delta) = 0
          ELSE /\ Accounts = {ev.from, "minersc"}
               /\ Delta(ev.from) = -ev.fee /\ Delta("minersc") = ev.fee

(* C02, observationally: the sealed block was re-executed on a fork with every       *)
(* chargeable-failed call replaced by a call that can only pay its fee (same sender, *)
(* nonce, fee).  If failed calls leave nothing behind, both executions agree: same   *)
(* outcome for every later transaction, same balances/nonces, same contract nodes.   *)
(* This also sees writes that survive only in the state cache.                       *)
C02_TwinEqual ==
  (ev.ev = "BlockTwin" /\ ~IsKnown(ev)) => (ev.classes_equal /\ ev.leaves_equal /\ ev.nodes_equal)

(* C03: applied iff nonce = state nonce + 1; +1 per applied txn; never     *)
(* twice.  prenonce is the model's own nonce, so a nonce changed behind    *)
(* the model's back (between two transactions) is caught as well.          *)
C03_Nonce ==
  IsTxn =>
     /\ ev.pre_nonce = prenonce
     /\ ev.class # "rejected" =>
          /\ ev.nonce = ev.pre_nonce + 1
          /\ ev.post_nonce = ev.pre_nonce + 1
          /\ Len(ev.nonce_delta) = 1 /\ ev.nonce_delta[1].a = ev.from /\ ev.nonce_delta[1].d = 1
     /\ ev.class = "rejected" => ev.post_nonce = ev.pre_nonce /\ Len(ev.nonce_delta) = 0
C03_OnceOnly ==
  [][ (IsEvent("Txn") /\ Trace[l].class # "rejected") => <<Trace[l].from, Trace[l].nonce>> \notin applied ]_vars

(* C04: who may be debited.                                                 *)
SignedOK(a) == PairOf(ev.signed_ok, a, 0)
C04_DebitAuth ==
  IsTxn => \A a \in Accounts : Delta(a) < 0 =>
     \/ (a = ev.from /\ -Delta(a) <= ev.value + ev.fee + SignedOK(a))
     \/ (a = ev.to /\ ev.type = "sc" /\ a # ev.from)
     \/ (a # ev.from /\ -Delta(a) <= SignedOK(a))
     \/ (/\ a = "owner" /\ ev.fn = "free_allocation_request" /\ ev.to = "storagesc" /\ -Delta(a) <= ev.free_tokens
         \* ... under a valid assigner marker that has not been redeemed before
         /\ ("free_marker_ok" \in DOMAIN ev => (ev.free_marker_ok /\ fresh)))

(* C05: nobody is debited more than he had; nothing wraps; a send larger   *)
(* than the balance is rejected; a rejected txn changes no value node.      *)
Cap == 536870912
PreBal(a) == PairOf(ev.pre_bal, a, Cap)
\* A balance above the whole supply is how a wrapped debit shows.  Traces of the near-maximum scenario START
\* from a state with such balances (planted, to reach credits next to 2^64); for them the driver counts, with
\* exact integers, the balances that are above the supply after the transaction and were not before it.
Planted == "hi_new" \in DOMAIN ev
C05_NoOverdraw ==
  IsTxn =>
     /\ (IF Planted THEN ev.hi_new = 0 ELSE ~ev.above_supply) /\ ev.sum_equal
     /\ \A a \in Accounts : Delta(a) < 0 => (PreBal(a) = Cap \/ -Delta(a) <= PreBal(a))
     /\ (ev.type = "send" /\ ev.sender_pre_bal < Cap /\ ev.value + ev.fee > ev.sender_pre_bal) => ev.class = "rejected"
     /\ ev.class = "rejected" => ev.changed_all = 0 /\ Len(ev.delta) = 0

(* C05 / Ledger!ApplyTransfer on the real code: for calls of the probe contract (and   *)
(* for sends of scenarios that log their one transfer, qknown) the queued transfers     *)
(* are known, so the trace spec runs the model's transfer semantics (Ledger!ApplyOne:   *)
(* in order; amount 0 skipped; from = to, amount > balance at that point, or balance of *)
(* the destination + amount > MaxCoin fails the whole transaction) from the recorded    *)
(* starting balances.  A transaction the real code applied must be one the model        *)
(* applies, with exactly the model's net balance changes.                               *)
(* MaxCoin = 2^64-1 is beyond TLC's integers, so the distance to it is tracked instead: *)
(* qroom lists, for the accounts that are within Cap of it, how much they can still     *)
(* receive (exact, computed by the driver); everybody else has room for any amount.     *)
RoomAdd(rm, a, d) == IF a \in DOMAIN rm THEN [rm EXCEPT ![a] = @ + d] ELSE rm
RECURSIVE Sim(_, _, _, _)
Sim(b, rm, q, i) ==
  IF i > Len(q) THEN [ok |-> TRUE, bal |-> b, room |-> rm]
  ELSE LET t == q[i] IN
       IF t.amt = 0 THEN Sim(b, rm, q, i + 1)
       ELSE IF \/ t.from = t.to \/ t.huge \/ Get(b, t.from, 0) < t.amt
               \/ (t.to \in DOMAIN rm /\ rm[t.to] < t.amt)
            THEN [ok |-> FALSE, bal |-> b, room |-> rm]
       ELSE Sim(Add(Add(b, t.from, -t.amt), t.to, t.amt),
                RoomAdd(RoomAdd(rm, t.from, t.amt), t.to, -t.amt), q, i + 1)
FeeQ == IF ev.fee = 0 THEN <<>> ELSE <<[from |-> ev.from, to |-> "minersc", amt |-> ev.fee, huge |-> FALSE]>>
FullQueue == ev.queue \o FeeQ \o ev.squeue
PreFun == PutPairs(<<>>, ev.qpre, 1)
RoomFun == IF "qroom" \in DOMAIN ev THEN PutPairs(<<>>, ev.qroom, 1) ELSE <<>>
QKnown == ev.probe \/ ("qknown" \in DOMAIN ev /\ ev.qknown)
C05_QueueSemantics ==
  (IsTxn /\ QKnown /\ ev.class = "ok") =>
     LET r == Sim(PreFun, RoomFun, FullQueue, 1) IN
       /\ r.ok
       /\ \A a \in DOMAIN PreFun : (PreFun[a] < Cap) => Delta(a) = r.bal[a] - PreFun[a]
       /\ \A a \in DOMAIN RoomFun : Delta(a) = RoomFun[a] - r.room[a]
=============================================================================
