------------------------------ MODULE RoundFSM ------------------------------
(***************************************************************************)
(* One round.Round object (chaincore/round/entity.go), C37, STEP machine:  *)
(* every exported operation as its sequence of lock / atomic-load /        *)
(* atomic-store / field steps as in the source, run by 2-3 processes and   *)
(* exhaustively interleaved by TLC.  The sequential (big-step) semantics   *)
(* of the same operations is RoundSeq.tla; the deviations of the code from *)
(* the intended design are NAMED choices (LeakChoices, CapDecrChoices,     *)
(* SatChoices, AtomicSetPhase).  The notarized-block list is RoundNB.tla.  *)
(***************************************************************************)
EXTENDS RoundSeq

CONSTANTS Miner,            \* miner names (strings)
          Thr,              \* threshold passed to AddVRFShare
          Cap,              \* server_chain.round_timeouts.timeout_cap, 0 = no cap
          AtomicSetPhase    \* FALSE: as written, setPhase = atomic load, then atomic store

-----------------------------------------------------------------------------
(* Part 2: step machine                                                     *)

CONSTANTS Proc, NoProc, NoOp, OpSet, Budget
VARIABLES phase, toc, fin, shares, votes,     \* the object
          wr, rd, tcl,                        \* r.mutex writer / readers, timeoutCounter.mutex holder
          cur, pc, reg, res, left,            \* per process: operation, program counter, register, result, ops left
          racy,                               \* history: p's loaded phase is stale (someone stored since)
          leaked                              \* history: a call returned while holding r.mutex

vars == <<phase, toc, fin, shares, votes, wr, rd, tcl, cur, pc, reg, res, left, racy, leaked>>
obj == <<phase, toc, fin, shares, votes>>
locks == <<wr, rd, tcl>>

SetPhaseCode == IF AtomicSetPhase THEN <<"casphase">> ELSE <<"loadphase", "storephase">>
Prog(o) ==
  CASE o.t = "SetPhase"   -> SetPhaseCode
  []   o.t = "ResetPhase" -> <<"resetphase">>
  []   o.t = "GetPhase"   -> <<"readphase">>
  []   o.t = "Restart"    -> <<"lock", "rcheck", "rinit", "rreset", "unlock">>
  []   o.t = "AddShare"   -> <<"lock", "scheck">> \o SetPhaseCode \o <<"sput", "unlock">>
  []   o.t = "AddNB"      -> <<"lock">> \o SetPhaseCode \o <<"unlock">>
  []   o.t = "SetToc"     -> <<"tclock", "tset", "tcunlock">>
  []   o.t = "IncToc"     -> <<"tclock", "tinc", "tcunlock">>
  []   o.t = "Vote"       -> <<"tclock", "tvote", "tcunlock">>
  []   o.t = "GetToc"     -> <<"tclock", "tread", "tcunlock">>
  []   o.t = "SetFinalizing" -> <<"lock", "fsetting", "unlock">>
  []   o.t \in {"SetFinalized", "Finalize"} -> <<"lock", "fset", "unlock">>
  []   o.t = "ResetIfNot" -> <<"lock", "fresetc", "unlock">>
  []   o.t = "ResetFin"   -> <<"lock", "freset", "unlock">>
  []   o.t = "IsFinalized" -> <<"rlock", "fread", "runlock">>
  []   o.t = "GetShares"  -> <<"rlock", "sread", "runlock">>

\* value the embedded setPhase call tries to reach
Target(o) == CASE o.t = "SetPhase" -> o.v [] o.t = "AddShare" -> ShareVRF [] o.t = "AddNB" -> Share [] OTHER -> 0

Running(p) == pc[p] > 0
Instr(p) == IF Running(p) /\ pc[p] <= Len(Prog(cur[p])) THEN Prog(cur[p])[pc[p]] ELSE "none"
IndexOf(o, name) == CHOOSE i \in 1..Len(Prog(o)) : Prog(o)[i] = name
Step(p) == pc' = [pc EXCEPT ![p] = @ + 1]
Jump(p, i) == pc' = [pc EXCEPT ![p] = i]
SetRes(p, r) == res' = [res EXCEPT ![p] = r]
\* every other process that has loaded the phase and not yet stored now holds a stale value
Stale(p) == racy' = [q \in Proc |-> IF q # p /\ Instr(q) = "storephase" THEN TRUE ELSE racy[q]]

Init ==
  /\ phase = ShareVRF /\ toc = 0 /\ fin = NotFinalized /\ shares = EmptyF /\ votes = EmptyF
  /\ wr = NoProc /\ rd = {} /\ tcl = NoProc
  /\ cur = [p \in Proc |-> NoOp] /\ pc = [p \in Proc |-> 0] /\ reg = [p \in Proc |-> 0]
  /\ res = [p \in Proc |-> "none"] /\ left = Budget
  /\ racy = [p \in Proc |-> FALSE] /\ leaked = FALSE

Start(p) ==
  /\ pc[p] = 0 /\ left[p] > 0
  /\ \E o \in OpSet : cur' = [cur EXCEPT ![p] = o]
  /\ pc' = [pc EXCEPT ![p] = 1] /\ left' = [left EXCEPT ![p] = @ - 1] /\ SetRes(p, "none")
  /\ UNCHANGED <<obj, locks, reg, racy, leaked>>

Return(p) ==
  /\ Running(p) /\ pc[p] = Len(Prog(cur[p])) + 1
  /\ pc' = [pc EXCEPT ![p] = 0] /\ cur' = [cur EXCEPT ![p] = NoOp]
  /\ UNCHANGED <<obj, locks, reg, res, left, racy, leaked>>

\* ---- r.mutex (sync.RWMutex) and timeoutCounter.mutex
Lock(p)     == Instr(p) = "lock" /\ wr = NoProc /\ rd = {} /\ wr' = p /\ Step(p)
               /\ UNCHANGED <<obj, rd, tcl, cur, reg, res, left, racy, leaked>>
Unlock(p)   == Instr(p) = "unlock" /\ wr' = NoProc /\ Step(p)
               /\ UNCHANGED <<obj, rd, tcl, cur, reg, res, left, racy, leaked>>
RLock(p)    == Instr(p) = "rlock" /\ wr = NoProc /\ rd' = rd \cup {p} /\ Step(p)
               /\ UNCHANGED <<obj, wr, tcl, cur, reg, res, left, racy, leaked>>
RUnlock(p)  == Instr(p) = "runlock" /\ rd' = rd \ {p} /\ Step(p)
               /\ UNCHANGED <<obj, wr, tcl, cur, reg, res, left, racy, leaked>>
TcLock(p)   == Instr(p) = "tclock" /\ tcl = NoProc /\ tcl' = p /\ Step(p)
               /\ UNCHANGED <<obj, wr, rd, cur, reg, res, left, racy, leaked>>
TcUnlock(p) == Instr(p) = "tcunlock" /\ tcl' = NoProc /\ Step(p)
               /\ UNCHANGED <<obj, wr, rd, cur, reg, res, left, racy, leaked>>

\* ---- phase (atomic int32)
LoadPhase(p)  == Instr(p) = "loadphase" /\ reg' = [reg EXCEPT ![p] = phase] /\ racy' = [racy EXCEPT ![p] = FALSE]
                 /\ Step(p) /\ UNCHANGED <<obj, locks, cur, res, left, leaked>>
StorePhase(p) == /\ Instr(p) = "storephase" /\ Step(p)
                 /\ IF Target(cur[p]) > reg[p]
                      THEN phase' = Target(cur[p]) /\ Stale(p)
                      ELSE UNCHANGED <<phase, racy>>
                 /\ UNCHANGED <<toc, fin, shares, votes, locks, cur, reg, res, left, leaked>>
CasPhase(p)   == /\ Instr(p) = "casphase" /\ Step(p) /\ phase' = Max(phase, Target(cur[p]))
                 /\ UNCHANGED <<toc, fin, shares, votes, locks, cur, reg, res, left, racy, leaked>>
ResetPhaseStep(p) == /\ Instr(p) = "resetphase" /\ Step(p) /\ phase' = cur[p].v /\ Stale(p)
                     /\ UNCHANGED <<toc, fin, shares, votes, locks, cur, reg, res, left, leaked>>
ReadPhase(p)  == Instr(p) = "readphase" /\ Step(p) /\ SetRes(p, Str(phase))
                 /\ UNCHANGED <<obj, locks, cur, reg, left, racy, leaked>>

\* ---- Restart (entity.go:646-658)
RCheck(p) ==
  /\ Instr(p) = "rcheck"
  /\ IF phase >= Share
       THEN /\ SetRes(p, "err")
            /\ \E lk \in LeakChoices :
                 IF lk THEN Jump(p, Len(Prog(cur[p])) + 1) /\ leaked' = TRUE     \* return without Unlock
                       ELSE Jump(p, IndexOf(cur[p], "unlock")) /\ UNCHANGED leaked
       ELSE SetRes(p, "ok") /\ Step(p) /\ UNCHANGED leaked
  /\ UNCHANGED <<obj, locks, cur, reg, left, racy>>
RInit(p)  == Instr(p) = "rinit" /\ Step(p) /\ shares' = EmptyF
             /\ UNCHANGED <<phase, toc, fin, votes, locks, cur, reg, res, left, racy, leaked>>
RReset(p) == Instr(p) = "rreset" /\ Step(p) /\ phase' = ShareVRF /\ Stale(p)
             /\ UNCHANGED <<toc, fin, shares, votes, locks, cur, reg, res, left, leaked>>

\* ---- VRF shares (entity.go:669-688)
SCheck(p) ==
  /\ Instr(p) = "scheck"
  /\ IF Cardinality(DOMAIN shares) >= Thr \/ cur[p].m \in DOMAIN shares
       THEN SetRes(p, "false") /\ Jump(p, IndexOf(cur[p], "unlock"))
       ELSE SetRes(p, "true") /\ Step(p)
  /\ UNCHANGED <<obj, locks, cur, reg, left, racy, leaked>>
SPut(p)  == Instr(p) = "sput" /\ Step(p) /\ shares' = PutF(shares, cur[p].m, cur[p].v)
            /\ UNCHANGED <<phase, toc, fin, votes, locks, cur, reg, res, left, racy, leaked>>
SRead(p) == Instr(p) = "sread" /\ Step(p) /\ SetRes(p, Str(Cardinality(DOMAIN shares)))
            /\ UNCHANGED <<obj, locks, cur, reg, left, racy, leaked>>

\* ---- timeout counter (entity.go:102-187)
AbsNow == [phase |-> phase, toc |-> toc, fin |-> fin, shares |-> shares, votes |-> votes, locked |-> FALSE, cap |-> Cap, thr |-> Thr]
TSet(p)  == /\ Instr(p) = "tset" /\ Step(p)
            /\ \E sat \in SatChoices :
                 LET v == SetTocValue(AbsNow, cur[p].v, sat) IN
                 IF v <= toc THEN SetRes(p, "false") /\ UNCHANGED toc
                             ELSE SetRes(p, "true") /\ toc' = v
            /\ UNCHANGED <<phase, fin, shares, votes, locks, cur, reg, left, racy, leaked>>
TInc(p)  == /\ Instr(p) = "tinc" /\ Step(p)
            /\ \E n \in IncTocResults(AbsNow) : toc' = n
            /\ votes' = EmptyF
            /\ UNCHANGED <<phase, fin, shares, locks, cur, reg, res, left, racy, leaked>>
TVote(p) == /\ Instr(p) = "tvote" /\ Step(p) /\ votes' = PutF(votes, cur[p].m, cur[p].v)
            /\ UNCHANGED <<phase, toc, fin, shares, locks, cur, reg, res, left, racy, leaked>>
TRead(p) == Instr(p) = "tread" /\ Step(p) /\ SetRes(p, Str(toc))
            /\ UNCHANGED <<obj, locks, cur, reg, left, racy, leaked>>

\* ---- finalizing state (entity.go:446-529)
FSetting(p) == /\ Instr(p) = "fsetting" /\ Step(p)
               /\ IF fin # NotFinalized THEN SetRes(p, "false") /\ UNCHANGED fin
                                        ELSE SetRes(p, "true") /\ fin' = Finalizing
               /\ UNCHANGED <<phase, toc, shares, votes, locks, cur, reg, left, racy, leaked>>
FSet(p)    == Instr(p) = "fset" /\ Step(p) /\ fin' = Finalized
              /\ UNCHANGED <<phase, toc, shares, votes, locks, cur, reg, res, left, racy, leaked>>
FResetC(p) == Instr(p) = "fresetc" /\ Step(p) /\ fin' = (IF fin = Finalized THEN fin ELSE NotFinalized)
              /\ UNCHANGED <<phase, toc, shares, votes, locks, cur, reg, res, left, racy, leaked>>
FReset(p)  == Instr(p) = "freset" /\ Step(p) /\ fin' = NotFinalized
              /\ UNCHANGED <<phase, toc, shares, votes, locks, cur, reg, res, left, racy, leaked>>
FRead(p)   == Instr(p) = "fread" /\ Step(p) /\ SetRes(p, IF fin = Finalized THEN "true" ELSE "false")
              /\ UNCHANGED <<obj, locks, cur, reg, left, racy, leaked>>

AllDone == \A p \in Proc : pc[p] = 0 /\ left[p] = 0
Done == AllDone /\ UNCHANGED vars

A_Start == \E p \in Proc : Start(p)
A_Return == \E p \in Proc : Return(p)
A_Lock == \E p \in Proc : Lock(p)
A_Unlock == \E p \in Proc : Unlock(p)
A_RLock == \E p \in Proc : RLock(p)
A_RUnlock == \E p \in Proc : RUnlock(p)
A_TcLock == \E p \in Proc : TcLock(p)
A_TcUnlock == \E p \in Proc : TcUnlock(p)
A_LoadPhase == \E p \in Proc : LoadPhase(p)
A_StorePhase == \E p \in Proc : StorePhase(p)
A_CasPhase == \E p \in Proc : CasPhase(p)
A_ResetPhase == \E p \in Proc : ResetPhaseStep(p)
A_ReadPhase == \E p \in Proc : ReadPhase(p)
A_RCheck == \E p \in Proc : RCheck(p)
A_RInit == \E p \in Proc : RInit(p)
A_RReset == \E p \in Proc : RReset(p)
A_SCheck == \E p \in Proc : SCheck(p)
A_SPut == \E p \in Proc : SPut(p)
A_SRead == \E p \in Proc : SRead(p)
A_TSet == \E p \in Proc : TSet(p)
A_TInc == \E p \in Proc : TInc(p)
A_TVote == \E p \in Proc : TVote(p)
A_TRead == \E p \in Proc : TRead(p)
A_FSetting == \E p \in Proc : FSetting(p)
A_FSet == \E p \in Proc : FSet(p)
A_FResetC == \E p \in Proc : FResetC(p)
A_FReset == \E p \in Proc : FReset(p)
A_FRead == \E p \in Proc : FRead(p)
A_Done == Done

Next == A_Start \/ A_Return \/ A_Lock \/ A_Unlock \/ A_RLock \/ A_RUnlock \/ A_TcLock \/ A_TcUnlock
        \/ A_LoadPhase \/ A_StorePhase \/ A_CasPhase \/ A_ResetPhase \/ A_ReadPhase
        \/ A_RCheck \/ A_RInit \/ A_RReset \/ A_SCheck \/ A_SPut \/ A_SRead
        \/ A_TSet \/ A_TInc \/ A_TVote \/ A_TRead
        \/ A_FSetting \/ A_FSet \/ A_FResetC \/ A_FReset \/ A_FRead \/ A_Done

Spec == Init /\ [][Next]_vars
FairSpec == Spec /\ WF_vars(Next)

-----------------------------------------------------------------------------
(* Part 3: C37                                                              *)

TypeOK ==
  /\ phase \in 0..4 /\ fin \in 0..2 /\ toc \in Nat
  /\ DOMAIN shares \subseteq Miner /\ DOMAIN votes \subseteq Miner
  /\ wr \in Proc \cup {NoProc} /\ rd \subseteq Proc /\ tcl \in Proc \cup {NoProc}
  /\ (wr # NoProc => rd = {})

\* phase only moves forward, except through ResetPhase or a Restart that passed its phase check
C37_PhaseMonotone ==
  [][phase' >= phase \/ \E p \in Proc : ResetPhaseStep(p) \/ RReset(p)]_vars
\* code as written: additionally the second half of a non-atomic setPhase whose loaded value is stale
C37_PhaseMonotoneUnlessStale ==
  [][phase' >= phase \/ \E p \in Proc : ResetPhaseStep(p) \/ RReset(p) \/ (StorePhase(p) /\ racy[p])]_vars

C37_TimeoutMonotone == [][toc' >= toc]_vars
\* code as written: checkCap lowers a count that SetTimeoutCount put above the cap
C37_TimeoutMonotoneUnlessCap == [][toc' >= toc \/ (Cap > 0 /\ toc > Cap /\ toc' = Cap)]_vars

C37_ShareCap == Cardinality(DOMAIN shares) <= Thr
C37_ShareOnce == [][\A m \in DOMAIN shares \cap DOMAIN shares' : shares'[m] = shares[m]]_vars

\* a finalized round leaves that state only through the unconditional ResetFinalizingState
C37_FinalizedSticky == [][(fin = Finalized /\ fin' # Finalized) => \E p \in Proc : FReset(p)]_vars

\* deadlock freedom: some process has not finished and nobody can move
Blocked(p) == \/ (Instr(p) = "lock" /\ ~(wr = NoProc /\ rd = {}))
              \/ (Instr(p) = "rlock" /\ wr # NoProc)
              \/ (Instr(p) = "tclock" /\ tcl # NoProc)
Stuck == ~AllDone /\ \A p \in Proc : Blocked(p) \/ (pc[p] = 0 /\ left[p] = 0)
C37_NoDeadlock == ~Stuck
\* code as written: the only way to get stuck is a lock leaked by a rejected Restart
C37_NoDeadlockUnlessLeak == Stuck => leaked
C37_EveryCallReturns == <>[]AllDone

\* the step machine refines the sequential specification for a single process
\* (checked by the trace specification on the real code; here only typing)

=============================================================================
