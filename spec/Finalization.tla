---------------------------- MODULE Finalization ----------------------------
(***************************************************************************)
(* C36  Finalization picks the common ancestor and extends a single chain. *)
(*                                                                         *)
(* A node's view: a tree of blocks (parent = PrevBlock, every block one    *)
(* round above its parent), for every round the list of notarized blocks   *)
(* the node has (a block can be known as somebody's parent without being   *)
(* in its round's list: this is how "rounds without notarized blocks"      *)
(* appear in the middle), the latest finalized block `lfb`, and for every  *)
(* round the block it was finalized with (round.Finalize).                 *)
(*                                                                         *)
(* ComputeFinalizedBlock is written twice in FinalizationDefs: RefCompute  *)
(* (the property) and CodeCompute (the level-by-level walk of the code).   *)
(* finalizeRound is the code as written: forward branch (needs a chain     *)
(* back to the previous LFB) and the ROLLBACK branch as a separately named *)
(* action.                                                                 *)
(***************************************************************************)
EXTENDS FinalizationDefs

CONSTANTS Block,       \* universe of block ids (Genesis not included)
          RoundOf(_),  \* round of an id, >= 1
          Idx(_),      \* position of the id within its round, 1..PerRound (canonical naming)
          Genesis,
          MaxRound,    \* rounds 1..MaxRound exist as Round objects
          PerRound,    \* at most this many blocks per round
          Ahead,       \* config.GetLFBTicketAhead()
          Confirm,     \* confirmations needed before a block is finalized (3 in the code)
          FetchOK      \* environment: can a block that is not marked notarized be fetched from peers?

VARIABLES par,   \* parent link of every known block
          nota,  \* blocks that are in their round's notarized list
          lfb,   \* latest finalized block
          rfin   \* round -> block the round was finalized with (NoBlock if not)

vars == <<par, nota, lfb, rfin>>

Blocks == DOMAIN par
Rnd == [b \in Blocks |-> IF b = Genesis THEN 0 ELSE RoundOf(b)]
InRound(q) == {b \in Blocks : Rnd[b] = q}

Init ==
  /\ par = [b \in {Genesis} |-> NoBlock]
  /\ nota = {Genesis}
  /\ lfb = Genesis
  /\ rfin = [q \in 0..MaxRound |-> IF q = 0 THEN Genesis ELSE NoBlock]

(* a block arrives (as a notarized block, or only as the parent of one) *)
AddBlock(b, p, n) ==
  /\ b \in Block \ Blocks /\ p \in Blocks
  /\ RoundOf(b) <= MaxRound /\ Rnd[p] = RoundOf(b) - 1
  /\ Idx(b) = Cardinality(InRound(RoundOf(b))) + 1 /\ Idx(b) <= PerRound
  /\ par' = [x \in Blocks \cup {b} |-> IF x = b THEN p ELSE par[x]]
  /\ nota' = IF n THEN nota \cup {b} ELSE nota
  /\ UNCHANGED <<lfb, rfin>>

Notarize(b) ==
  /\ b \in Blocks \ nota
  /\ nota' = nota \cup {b}
  /\ UNCHANGED <<par, lfb, rfin>>

-----------------------------------------------------------------------------
Computed(r) == CodeCompute(par, Rnd, nota, Rnd[lfb], r)

(* finalizeRound returns early: round not above the LFB, nothing decisive,  *)
(* same block as before, or computed block too far behind the round.        *)
FinSkip(r) ==
  /\ \/ r <= Rnd[lfb]
     \/ Computed(r) = NoBlock
     \/ Computed(r) = lfb
     \/ (Computed(r) # NoBlock /\ Rnd[Computed(r)] > Rnd[lfb] /\ r - Rnd[Computed(r)] >= 2 * Ahead)
  /\ UNCHANGED vars

Forwardable(r) ==
  /\ r > Rnd[lfb] /\ Computed(r) # NoBlock /\ Computed(r) # lfb
  /\ Rnd[Computed(r)] > Rnd[lfb] /\ r - Rnd[Computed(r)] < 2 * Ahead

(* forward branch, computed block does not connect to the previous LFB *)
FinNotConnected(r) ==
  /\ Forwardable(r)
  /\ ~BackChain(par, Rnd, Computed(r), lfb, Ahead, <<>>)[1]
  /\ UNCHANGED vars

(* forward branch: finalize the chain towards the computed block *)
FinForward(r) ==
  /\ Forwardable(r)
  /\ LET bc == BackChain(par, Rnd, Computed(r), lfb, Ahead, <<>>) IN
     /\ bc[1]
     /\ LET res == FinBlocks(par, Rnd, nota, FetchOK, Reverse(bc[2]), r, Confirm, lfb, rfin) IN
        /\ lfb' = res[1] /\ rfin' = res[2]
  /\ UNCHANGED <<par, nota>>

(* DEVIATION kept as in the code: the computed block is not above the LFB's  *)
(* round and is not the LFB: the LFB is moved BACK to the common ancestor.   *)
Rollback(r) ==
  /\ r > Rnd[lfb] /\ Computed(r) # NoBlock /\ Computed(r) # lfb
  /\ Rnd[Computed(r)] <= Rnd[lfb]
  /\ lfb' = CommonAnc(par, Rnd, lfb, Computed(r))
  /\ UNCHANGED <<par, nota, rfin>>

FinalizeRound(r) == FinSkip(r) \/ FinNotConnected(r) \/ FinForward(r) \/ Rollback(r)

Next == \/ \E b \in Block, p \in Blocks, n \in BOOLEAN : AddBlock(b, p, n)
        \/ \E b \in Blocks : Notarize(b)
        \/ \E r \in 1..MaxRound : FinalizeRound(r)

Spec == Init /\ [][Next]_vars

-----------------------------------------------------------------------------
TypeOK ==
  /\ Genesis \in Blocks /\ Blocks \subseteq Block \cup {Genesis}
  /\ \A b \in Blocks \ {Genesis} : par[b] \in Blocks /\ Rnd[par[b]] = Rnd[b] - 1
  /\ nota \subseteq Blocks /\ lfb \in Blocks
  /\ \A q \in 0..MaxRound : rfin[q] = NoBlock \/ (rfin[q] \in Blocks /\ Rnd[rfin[q]] = q)

(* C36, first sentence: the code's walk returns the reference common         *)
(* ancestor, for every round and every LFB round it can be called with.      *)
C36_WalkIsCommonAncestor ==
  \A r \in 0..MaxRound, lr \in 0..MaxRound :
     lr >= r \/ CodeCompute(par, Rnd, nota, lr, r) = RefCompute(par, Rnd, nota, lr, r)

(* the chosen block lies in an earlier round than every block it was chosen for *)
C36_EarlierRound ==
  \A r \in 1..MaxRound : Computed(r) # NoBlock =>
     /\ Rnd[Computed(r)] < r
     /\ \A b \in NotaAt(nota, Rnd, RefStart(nota, Rnd, Rnd[lfb], r)) : Descends(par, b, Computed(r))

(* C36, second sentence: apart from Rollback steps the LFB only moves to a   *)
(* descendant of itself ...                                                  *)
AnyRollback == \E r \in 1..MaxRound : Rollback(r) /\ lfb' # lfb
C36_SingleChain == [][Descends(par', lfb', lfb) \/ AnyRollback]_vars
(* ... and never beyond the block chosen by ComputeFinalizedBlock            *)
C36_UpToChosen ==
  [][(lfb' # lfb /\ Descends(par, lfb', lfb)) =>
        \E r \in 1..MaxRound : FinForward(r) /\ Descends(par, Computed(r), lfb')]_vars

(* a move of the LFB to a block that does not descend from it is a Rollback   *)
(* step; it is only possible when a notarized fork deeper than the LFB        *)
(* exists, and it moves the LFB to one of its own ancestors                   *)
RollbackOnlyOnDeepFork ==
  [][(lfb' # lfb /\ ~Descends(par, lfb', lfb)) =>
        (AnyRollback /\ DeepFork(par, Rnd, nota, lfb) /\ Descends(par, lfb, lfb'))]_vars

(* the LFB is always the block its round was finalized with, unless rolled back to *)
FinalizedRoundsAgree == rfin[Rnd[lfb]] # NoBlock
=============================================================================
