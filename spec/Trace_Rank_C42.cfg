SPECIFICATION TraceSpec
INVARIANTS C42_SameSet C42_AtLeastN C42_AllWhenDisabled
POSTCONDITION Accepted
CHECK_DEADLOCK FALSE
