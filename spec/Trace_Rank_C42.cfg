SPECIFICATION TraceSpec
INVARIANTS C42_SameSet C42_AtLeastN C42_AllWhenDisabled C42_EntryPointsAgree
POSTCONDITION Accepted
CHECK_DEADLOCK FALSE
