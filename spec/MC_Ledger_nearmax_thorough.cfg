SPECIFICATION MCSpec
CONSTANTS
  Client = {"c1", "c2"}
  Contract = {"sc1"}
  MinerSC = "msc"
  MaxCoin = 4
  MaxSupply = 6
  MaxAmt = 2
  MaxNonce = 2
  MaxQueue = 2
  MaxTxns = 1
  Discipline = TRUE
  InitBal <- MCInitBal
VIEW MCView
INVARIANTS TypeOK C01_Conservation C05_Range
PROPERTIES StepRefinesSummary C02_FailOnlyFee C03_NonceStep C03_OnceOnly C04_DebitAuth C05_AllOrNothing
CHECK_DEADLOCK FALSE
