SPECIFICATION TraceSpec
INVARIANTS HarnessSendersKnown C45_NoDuplicate C45_ConsecutiveNonces C45_CostLimit C45_BuiltinsOnce C45_VerifierAgrees
POSTCONDITION Accepted
CHECK_DEADLOCK FALSE
