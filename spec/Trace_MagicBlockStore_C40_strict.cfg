\* NOT wired into checks/C40.json: C40 with the strict reading of "the pruned point" (the entry in
\* force at the pruned round itself must survive).  roundStartingStorage.Prune(p) removes p as well.
SPECIFICATION TraceSpec
INVARIANTS HarnessKnownEntity C40_Floor C40_Index C40_Prev C40_PruneKeeps C40x_PruneKeepsFloorAtPoint
POSTCONDITION Accepted
CHECK_DEADLOCK FALSE
