------------------------------ MODULE Partitions ------------------------------
(***************************************************************************)
(* A named partitioned list (smartcontract/partitions) AS CODED:           *)
(*   - `Last`: the in-memory tail partition (index lastLoc), embedded in   *)
(*     the top node when saved;                                            *)
(*   - packed partitions 0..lastLoc-1: state nodes (sparts), cached in     *)
(*     p.Partitions (pcache, with a Changed flag, written back by Save);   *)
(*   - one location node per PACKED item (sloc), cached in p.locations     *)
(*     (lcache);                                                           *)
(*   - add/pack, Remove = removeFromLast | removeItem (swap with the tail  *)
(*     of Last) + loadLastFromPrev (tail compaction), UpdateItem, Get and  *)
(*     ForEach (which warm the caches), Save, reload from state.           *)
(* `ref` is the reference: the set of items keyed by id (id -> value).     *)
(* TLC checks that after every operation the structure read the way the    *)
(* code reads it agrees with `ref` (the C25_ invariants).                  *)
(***************************************************************************)
EXTENDS Integers, Sequences, FiniteSets, TLC

CONSTANTS Ids, PSizes

VARIABLES psize,                 \* partition size
          lastLoc, lastItems,    \* p.Last
          pcache,                \* p.Partitions : index -> [items, changed]
          lcache,                \* p.locations  : id -> index
          sparts,                \* state: packed partition nodes, index -> items
          sloc,                  \* state: location nodes, id -> index
          stop,                  \* state: the top node (Last as saved), or NoTop
          dirty,                 \* in-memory changes not saved yet
          ref,                   \* reference set: id -> value
          last                   \* the last operation and its outcome
vars == <<psize, lastLoc, lastItems, pcache, lcache, sparts, sloc, stop, dirty, ref, last>>

Item(id, v) == [id |-> id, v |-> v]
IdsOf(s) == {s[i].id : i \in DOMAIN s}
Pos(s, id) == CHOOSE i \in DOMAIN s : s[i].id = id /\ \A j \in DOMAIN s : s[j].id = id => i <= j
SwapRemove(s, i) == SubSeq([s EXCEPT ![i] = s[Len(s)]], 1, Len(s) - 1)
Drop(f, K) == [x \in DOMAIN f \ K |-> f[x]]
Put(f, k, v) == [x \in DOMAIN f \cup {k} |-> IF x = k THEN v ELSE f[x]]
PutAll(f, K, v) == [x \in DOMAIN f \cup K |-> IF x \in K THEN v ELSE f[x]]
Min2(a, b) == IF a < b THEN a ELSE b
NoLoc == -1
NoTop == [loc |-> -1, items |-> <<>>]
OkErrs == {"none", "exist", "notfound"}

-----------------------------------------------------------------------------
(* The operations as coded, as functions on a record of the mutable parts.  *)
Mem == [ll |-> lastLoc, li |-> lastItems, pc |-> pcache, lc |-> lcache, sp |-> sparts, sl |-> sloc, err |-> "none"]

ItemPartIndex(s, id) ==                                    \* location.go getItemPartIndex
  IF id \in DOMAIN s.lc THEN s.lc[id] ELSE IF id \in DOMAIN s.sl THEN s.sl[id] ELSE NoLoc

LoadPart(s, i) ==                                          \* getPartition (loads into p.Partitions)
  IF i > s.ll THEN [s EXCEPT !.err = "overflow"]
  ELSE IF i = s.ll \/ i \in DOMAIN s.pc THEN s
  ELSE IF i \in DOMAIN s.sp THEN [s EXCEPT !.pc = Put(@, i, [items |-> s.sp[i], changed |-> FALSE])]
  ELSE [s EXCEPT !.err = "load"]
PartItems(s, i) == IF i = s.ll THEN s.li ELSE s.pc[i].items
SetPartItems(s, i, its) ==
  IF i = s.ll THEN [s EXCEPT !.li = its] ELSE [s EXCEPT !.pc = Put(@, i, [items |-> its, changed |-> TRUE])]

SaveLoc(s, id, i) == [s EXCEPT !.sl = Put(@, id, i), !.lc = Put(@, id, i)]
RemoveLoc(s, id) == [s EXCEPT !.sl = Drop(@, {id}), !.lc = Drop(@, {id})]

Pack(s) ==                                                 \* partitions.go pack
  [s EXCEPT !.sp = Put(@, s.ll, s.li),
            !.sl = PutAll(@, IdsOf(s.li), s.ll), !.lc = PutAll(@, IdsOf(s.li), s.ll),
            !.pc = Put(@, s.ll, [items |-> s.li, changed |-> TRUE]),
            !.ll = s.ll + 1, !.li = <<>>]

LoadLastFromPrev(s) ==                                     \* partitions.go loadLastFromPrev
  IF s.ll = 0 THEN s
  ELSE LET s1 == LoadPart(s, s.ll - 1) IN
       IF s1.err # "none" THEN s1
       ELSE LET prev == s1.pc[s.ll - 1].items IN
            [s1 EXCEPT !.ll = s.ll - 1, !.li = prev,
                       !.sl = Drop(@, IdsOf(prev)), !.lc = Drop(@, IdsOf(prev)),
                       !.sp = Drop(@, {s.ll - 1}), !.pc = Drop(@, {s.ll - 1})]

RemoveFromLast(s, idx) ==
  LET s1 == [s EXCEPT !.li = SwapRemove(@, idx)] IN IF Len(s1.li) > 0 THEN s1 ELSE LoadLastFromPrev(s1)

RemoveItem(s, id, loc) ==                                  \* partitions.go removeItem
  LET s1 == LoadPart(s, loc) IN
  IF s1.err # "none" THEN s1
  ELSE LET its == PartItems(s1, loc) IN
  IF id \notin IdsOf(its) THEN [s1 EXCEPT !.err = "notinpart"]
  ELSE LET s2 == SetPartItems(s1, loc, SwapRemove(its, Pos(its, id))) IN
  IF loc = s2.ll THEN s2
  ELSE IF s2.li = <<>> THEN [s2 EXCEPT !.err = "emptylast"]
  ELSE LET rep == s2.li[Len(s2.li)]
           s3 == [s2 EXCEPT !.li = SubSeq(@, 1, Len(@) - 1)]
           pits == PartItems(s3, loc) IN
  IF rep.id \in IdsOf(pits) THEN [s3 EXCEPT !.err = "dup"]
  ELSE LET s5 == SaveLoc(SetPartItems(s3, loc, Append(pits, rep)), rep.id, loc) IN
  IF Len(s5.li) > 0 THEN s5 ELSE LoadLastFromPrev(s5)

LoadLocations(s, idx) ==                                   \* location.go loadLocations
  IF idx <= 0 \/ idx \notin DOMAIN s.pc THEN s ELSE [s EXCEPT !.lc = PutAll(@, IdsOf(s.pc[idx].items), idx)]

AddOp(s, id, v) ==
  IF ItemPartIndex(s, id) # NoLoc \/ id \in IdsOf(s.li) THEN [s EXCEPT !.err = "exist"]
  ELSE LET s1 == IF Len(s.li) = psize THEN Pack(s) ELSE s IN [s1 EXCEPT !.li = Append(@, Item(id, v))]

RemoveOp(s, id) ==
  IF id \in IdsOf(s.li) THEN RemoveFromLast(s, Pos(s.li, id))
  ELSE LET loc == ItemPartIndex(s, id) IN
       IF loc = NoLoc THEN [s EXCEPT !.err = "notfound"]
       ELSE LET s1 == RemoveItem(s, id, loc) IN
            IF s1.err # "none" THEN s1 ELSE RemoveLoc(LoadLocations(s1, loc), id)

UpdateOp(s, id, v) ==
  IF id \in IdsOf(s.li) THEN [s EXCEPT !.li = [@ EXCEPT ![Pos(s.li, id)] = Item(id, v)]]
  ELSE LET loc == ItemPartIndex(s, id) IN
       IF loc = NoLoc THEN [s EXCEPT !.err = "notfound"]
       ELSE LET s1 == LoadPart(s, loc) IN
            IF s1.err # "none" THEN s1
            ELSE LET its == PartItems(s1, loc) IN
                 IF id \notin IdsOf(its) THEN [s1 EXCEPT !.err = "notinpart"]
                 ELSE LoadLocations(SetPartItems(s1, loc, [its EXCEPT ![Pos(its, id)] = Item(id, v)]), loc)

GetOp(s, id) ==                                            \* Get: warms p.Partitions and p.locations
  IF id \in IdsOf(s.li) THEN s
  ELSE LET loc == ItemPartIndex(s, id) IN
       IF loc = NoLoc THEN [s EXCEPT !.err = "notfound"]
       ELSE LET s1 == LoadPart(s, loc) IN
            IF s1.err # "none" THEN s1
            ELSE IF id \notin IdsOf(PartItems(s1, loc)) THEN [s1 EXCEPT !.err = "notinpart"]
            ELSE LoadLocations(s1, loc)

RECURSIVE LoadAll(_, _)
LoadAll(s, i) == IF i > s.ll \/ s.err # "none" THEN s ELSE LoadAll(LoadPart(s, i), i + 1)   \* ForEach

-----------------------------------------------------------------------------
Commit(s, op, id) ==
  /\ lastLoc' = s.ll /\ lastItems' = s.li /\ pcache' = s.pc /\ lcache' = s.lc /\ sparts' = s.sp /\ sloc' = s.sl
  /\ last' = [op |-> op, id |-> id, err |-> s.err]
  /\ UNCHANGED <<psize, stop>>

Init ==
  /\ psize \in PSizes /\ lastLoc = 0 /\ lastItems = <<>> /\ pcache = <<>> /\ lcache = <<>>
  /\ sparts = <<>> /\ sloc = <<>> /\ stop = NoTop /\ dirty = TRUE /\ ref = <<>>
  /\ last = [op |-> "none", id |-> 0, err |-> "none"]

Add(id, v) ==
  /\ LET s == AddOp(Mem, id, v) IN
       /\ Commit(s, "Add", id)
       /\ ref' = IF s.err = "none" THEN Put(ref, id, v) ELSE ref
  /\ dirty' = TRUE
Remove(id) ==
  /\ LET s == RemoveOp(Mem, id) IN
       /\ Commit(s, "Remove", id)
       /\ ref' = IF s.err = "none" THEN Drop(ref, {id}) ELSE ref
  /\ dirty' = TRUE
Update(id, v) ==
  /\ LET s == UpdateOp(Mem, id, v) IN
       /\ Commit(s, "Update", id)
       /\ ref' = IF s.err = "none" THEN Put(ref, id, v) ELSE ref
  /\ dirty' = TRUE
Get(id) == Commit(GetOp(Mem, id), "Get", id) /\ UNCHANGED <<ref, dirty>>
ForEach == Commit(LoadAll(Mem, 0), "ForEach", 0) /\ UNCHANGED <<ref, dirty>>

Save ==                                                    \* partitions.go Save
  /\ sparts' = [i \in DOMAIN sparts \cup {k \in DOMAIN pcache : pcache[k].changed} |->
                   IF i \in DOMAIN pcache /\ pcache[i].changed THEN pcache[i].items ELSE sparts[i]]
  /\ stop' = [loc |-> lastLoc, items |-> lastItems]
  /\ dirty' = FALSE
  /\ last' = [op |-> "Save", id |-> 0, err |-> "none"]
  /\ UNCHANGED <<psize, lastLoc, lastItems, pcache, lcache, sloc, ref>>

Reload ==                                                  \* GetPartitions after a Save: a fresh object
  /\ ~dirty /\ stop # NoTop
  /\ lastLoc' = stop.loc /\ lastItems' = stop.items /\ pcache' = <<>> /\ lcache' = <<>>
  /\ last' = [op |-> "Reload", id |-> 0, err |-> "none"]
  /\ UNCHANGED <<psize, sparts, sloc, stop, dirty, ref>>

Next == \/ \E id \in Ids, v \in {0} : Add(id, v)
        \/ \E id \in Ids : Remove(id) \/ Get(id) \/ (\E v \in {0, 1} : Update(id, v))
        \/ ForEach \/ Save \/ Reload
Spec == Init /\ [][Next]_vars

-----------------------------------------------------------------------------
(* Reading the structure the way the code reads it.                          *)
ViewPart(i) == IF i = lastLoc THEN lastItems
               ELSE IF i \in DOMAIN pcache THEN pcache[i].items
               ELSE IF i \in DOMAIN sparts THEN sparts[i] ELSE <<[id |-> 0, v |-> -1]>>   \* load error
RECURSIVE FlatFrom(_)
FlatFrom(i) == IF i > lastLoc THEN <<>> ELSE ViewPart(i) \o FlatFrom(i + 1)
Flat == FlatFrom(0)
CodedSize == IF Len(lastItems) = 0 THEN 0 ELSE lastLoc * psize + Len(lastItems)
CodedExist(id) == id \in IdsOf(lastItems) \/ ItemPartIndex(Mem, id) # NoLoc
CodedGet(id) ==                                            \* value, -1 = not found, -2 = internal error
  IF id \in IdsOf(lastItems) THEN lastItems[Pos(lastItems, id)].v
  ELSE LET loc == ItemPartIndex(Mem, id) IN
       IF loc = NoLoc THEN -1
       ELSE IF loc > lastLoc \/ id \notin IdsOf(ViewPart(loc)) THEN -2
       ELSE ViewPart(loc)[Pos(ViewPart(loc), id)].v
RECURSIVE Rand(_, _, _, _, _)
Rand(pi, ei, req, acc, fuel) ==                            \* GetRandomItems from element index pi*psize+ei
  IF req = 0 \/ fuel = 0 THEN acc
  ELSE LET part == ViewPart(pi) IN
       IF ei + req > Len(part)
         THEN Rand(IF pi = lastLoc THEN 0 ELSE pi + 1, 0, req - (Len(part) - ei),
                   acc \o SubSeq(part, ei + 1, Len(part)), fuel - 1)
         ELSE acc \o SubSeq(part, ei + 1, ei + req)
CodedRandom(r) == Rand(r \div psize, r % psize, Min2(psize, CodedSize), <<>>, lastLoc + 3)

-----------------------------------------------------------------------------
(* C25 on the model                                                          *)
TypeOK == psize \in PSizes /\ lastLoc >= 0 /\ DOMAIN ref \subseteq Ids
NoInternalError == last.err \in OkErrs
C25_NoDuplicates == Len(Flat) = Cardinality(IdsOf(Flat))
C25_IterationIsTheSet == {<<Flat[i].id, Flat[i].v>> : i \in DOMAIN Flat} = {<<id, ref[id]>> : id \in DOMAIN ref}
C25_AllButLastFull ==
  /\ \A i \in 0..(lastLoc - 1) : Len(ViewPart(i)) = psize
  /\ Len(lastItems) <= psize
  /\ (Len(lastItems) = 0 => lastLoc = 0)
C25_SizeExact == CodedSize = Cardinality(DOMAIN ref)
C25_Membership == \A id \in Ids : /\ CodedExist(id) <=> id \in DOMAIN ref
                                 /\ CodedGet(id) = IF id \in DOMAIN ref THEN ref[id] ELSE -1
C25_RandomDistinctMembers ==
  \A r \in 0..(CodedSize - 1) :
     LET s == CodedRandom(r) IN
       /\ Len(s) = Min2(psize, CodedSize)
       /\ Cardinality(IdsOf(s)) = Len(s)
       /\ \A i \in DOMAIN s : s[i].id \in DOMAIN ref /\ s[i].v = ref[s[i].id]
C25_SetSemantics ==
  /\ last.op = "Add" => last.err \in {"none", "exist"}
  /\ last.op \in {"Remove", "Update", "Get"} => last.err \in {"none", "notfound"}

(* location index: exactly the packed items have a location node, and it is right; the cache agrees *)
LocationsExact ==
  /\ \A i \in 0..(lastLoc - 1) : \A k \in DOMAIN ViewPart(i) : ViewPart(i)[k].id \in DOMAIN sloc /\ sloc[ViewPart(i)[k].id] = i
  /\ \A id \in DOMAIN sloc : id \in DOMAIN ref /\ id \notin IdsOf(lastItems)
  /\ \A id \in DOMAIN lcache : id \in DOMAIN sloc /\ lcache[id] = sloc[id]
(* what a Save leaves in the state is the structure itself (so a reload sees the same set) *)
SavedIsCurrent ==
  ~dirty => /\ stop = [loc |-> lastLoc, items |-> lastItems]
            /\ \A i \in 0..(lastLoc - 1) : i \in DOMAIN sparts /\ sparts[i] = ViewPart(i)
=============================================================================
