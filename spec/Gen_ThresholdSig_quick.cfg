SPECIFICATION GenSpec
CONSTANTS
  P = 7
  MaxN = 3
  MaxT = 3
  IdVals = {1, 2, 3, 4}
  IdOrder = "gen"
  IdSeqs <- MC_IdSeqs
  CoefVals = {1}
  Msgs = {2}
  Kinds = {"dkg", "client", "split", "sos"}
  TamperBy = {1}
INVARIANT GPrint
CHECK_DEADLOCK FALSE
