SPECIFICATION MCSpec
CONSTANTS
  Genesis = "g"
  MaxRound = 3
  PerRound = 3
  Ahead = 5
  Confirm = 3
  FetchOK = FALSE
  MaxUnnotarized = 1
  Block <- MCBlock
  RoundOf <- MCRoundOf
  Idx <- MCIdx
INVARIANTS TypeOK C36_WalkIsCommonAncestor FinalizedRoundsAgree
PROPERTIES C36_SingleChain C36_UpToChosen RollbackOnlyOnDeepFork
CHECK_DEADLOCK FALSE
