------------------------------- MODULE Bridge -------------------------------
(***************************************************************************)
(* The ZCN bridge contract (smartcontract/zcnsc): burn, mint, authorizer   *)
(* registration.  C19: a successful burn locks exactly the value and       *)
(* advances the burn nonce of the target Ethereum address by one.  C18: a  *)
(* mint needs a quorum of valid signatures of distinct registered          *)
(* authorizers, the submitter is the receiver, each nonce mints once, the  *)
(* receiver gets amount - fee and the fee is credited to an authorizer.    *)
(*                                                                         *)
(* The model describes the code as written; deviations from the intended   *)
(* design are switched by constants:                                       *)
(*   Acceptance = "written": mint.go as coded (count pre-check, truncation *)
(*      to |auth| entries, last entry per id wins, EVERY remaining entry   *)
(*      must pass verifySignatures, count of distinct ids >= threshold)    *)
(*   Acceptance = "intended": accepted iff the property's quorum holds     *)
(*   CountsUnverified: verifySignatures returned errors.Wrap(err, ..) with *)
(*      err = nil when Verify answers (false, nil), i.e. a well-formed     *)
(*      signature that does not verify PASSED and ended the verification   *)
(*      of the remaining entries.  Found by this check, repaired in /repo  *)
(*      by "fix: reject bridge mint signatures that do not verify"; the    *)
(*      configs run with FALSE, TRUE documents the former behaviour.       *)
(*   RewardNeedsStake: DistributeRewards credits nothing when the chosen   *)
(*      authorizer's stake is below the pool's min stake (stakepool.go)    *)
(***************************************************************************)
EXTENDS BridgeDefs, TLC

CONSTANTS Client,        \* submitting clients
          Eth, NoEth,    \* target addresses; NoEth = the empty address
          Auths,         \* identities that may be registered as authorizers
          AuthOrder,     \* the same as a sequence (canonical order)
          Stranger,      \* an identity that never registers
          NoAuth,
          InitAuth,      \* registered at the start
          Staked,        \* authorizers whose stake reaches the pool's minimum
          Nonces,        \* mint nonces
          MinBurn, BurnVals,   \* MinBurn / MinMint: the configured minimums at the start
          MinMint, MaxFee, MintAmts,
          MinVals,       \* values the owner may set min_burn / min_mint to (update-global-config); {} = never
          PctMilli,
          MaxBurnNonce,
          SigSeqs,       \* signature lists explored: sequences of [a, k], k in valid|forged|garbage
          Acceptance, CountsUnverified, RewardNeedsStake

VARIABLES auth, minted, burnNonce, minBurn, minMint, last
vars == <<auth, minted, burnNonce, minBurn, minMint, last>>

NoStep == [op |-> "other", ok |-> FALSE]

Init == /\ auth = InitAuth /\ minted = {} /\ burnNonce = [e \in Eth |-> 0]
        /\ minBurn = MinBurn /\ minMint = MinMint
        /\ last = [op |-> "other", ok |-> TRUE, preAuth |-> InitAuth, preMinted |-> {}, postMinted |-> {},
                   preBurn |-> [e \in Eth |-> 0], postBurn |-> [e \in Eth |-> 0], dClient |-> 0, dWallet |-> 0, others |-> FALSE]

Frame(op, ok) == [op |-> op, ok |-> ok, preAuth |-> auth, preMinted |-> minted, postMinted |-> minted,
                  preBurn |-> burnNonce, postBurn |-> burnNonce, dClient |-> 0, dWallet |-> 0, others |-> FALSE]

(* ---- burn (burn.go:17-115) ---- *)
(* the minimum is the min_burn of the global node AS CONFIGURED NOW: the owner may have changed it, and  *)
(* min_mint is a separate setting that has no say in a burn                                            *)
Burn(c, e, v) ==
  LET guard == v >= minBurn /\ e # NoEth IN
  \E ok \in (IF guard THEN {TRUE, FALSE} ELSE {FALSE}) :     \* FALSE under guard: the transfer is refused (balance)
    /\ (ok => burnNonce[e] < MaxBurnNonce)
    /\ burnNonce' = IF ok THEN [burnNonce EXCEPT ![e] = @ + 1] ELSE burnNonce
    /\ last' = [Frame("burn", ok) EXCEPT !.postBurn = burnNonce', !.dClient = IF ok THEN -v ELSE 0,
                                          !.dWallet = IF ok THEN v ELSE 0]
               @@ [v |-> v, min |-> minBurn, ethEmpty |-> (e = NoEth), eth |-> e, c |-> c]
    /\ UNCHANGED <<auth, minted, minBurn, minMint>>

(* ---- mint (mint.go:23-210) ---- *)
D(sigs) == [i \in 1..Len(sigs) |-> [a |-> sigs[i].a, d |-> IF sigs[i].k = "valid" THEN 1 ELSE 0]]
Canon(sd, au) == LET vs == ValidSigners(sd, au) IN
                 SelectSeq([i \in 1..Len(AuthOrder) |-> [a |-> AuthOrder[i], d |-> 1]], LAMBDA e : e.a \in vs)
T == Threshold(PctMilli, Cardinality(auth))

WrittenAccepts(c, p) ==
  LET n  == Cardinality(auth)
      sg == IF Len(p.sigs) > n THEN SubSeq(p.sigs, 1, n) ELSE p.sigs
      ids == {sg[i].a : i \in 1..Len(sg)}
      lastOf(a) == sg[CHOOSE i \in 1..Len(sg) : sg[i].a = a /\ \A j \in (i + 1)..Len(sg) : sg[j].a # a]
      passes(e) == e.a \in auth /\ (IF CountsUnverified THEN e.k # "garbage" ELSE e.k = "valid")
  IN /\ Len(p.sigs) > 0 /\ n > 0 /\ Len(p.sigs) >= T
     /\ p.rcv = c /\ p.amt >= minMint /\ p.amt >= MaxFee
     /\ p.n \notin minted
     /\ \A a \in ids : passes(lastOf(a))
     /\ Cardinality(ids) >= T

IntendedAccepts(c, p) ==
  LET v == Cardinality(ValidSigners(D(p.sigs), auth)) IN
  /\ auth # {} /\ v > 0 /\ v >= T
  /\ p.rcv = c /\ p.amt >= minMint /\ p.amt >= MaxFee /\ p.n \notin minted

Accepts(c, p) == IF Acceptance = "written" THEN WrittenAccepts(c, p) ELSE IntendedAccepts(c, p)

Payees(p) == IF Acceptance = "written"
             THEN {p.sigs[i].a : i \in 1..Len(p.sigs)} \cap auth
             ELSE ValidSigners(D(p.sigs), auth)

Mint(c, p) ==
  LET acc == Accepts(c, p) IN
  \E share \in (IF acc THEN 0..MaxFee ELSE {0}) : \E to \in (IF acc THEN Payees(p) ELSE {NoAuth}) :
    LET cred == IF acc /\ ~(RewardNeedsStake /\ to \notin Staked) THEN share ELSE 0 IN
    /\ minted' = IF acc THEN minted \cup {p.n} ELSE minted
    /\ last' = [Frame("mint", acc) EXCEPT !.postMinted = minted', !.dClient = IF acc THEN p.amt - share ELSE 0,
                                           !.dWallet = IF acc THEN -(p.amt - share) ELSE 0]
               @@ [selfRcv |-> (p.rcv = c), sigs |-> Canon(D(p.sigs), auth), pct |-> PctMilli, nonce |-> p.n, amt |-> p.amt,
                   credited |-> cred, creditedTo |-> IF cred > 0 THEN {to} ELSE {}, payee |-> to, fee |-> share,
                   wellFormed |-> Cardinality({p.sigs[i].a : i \in {j \in 1..Len(p.sigs) : p.sigs[j].k # "garbage"}} \cap auth)]
    /\ UNCHANGED <<auth, burnNonce, minBurn, minMint>>

(* ---- authorizer registration (authorizer.go) ---- *)
Register(a) == a \notin auth /\ auth' = auth \cup {a} /\ last' = Frame("other", TRUE) /\ UNCHANGED <<minted, burnNonce, minBurn, minMint>>
Delete(a) == a \in auth /\ auth' = auth \ {a} /\ last' = Frame("other", TRUE) /\ UNCHANGED <<minted, burnNonce, minBurn, minMint>>

(* ---- update-global-config (config.go / nodes.go UpdateConfig): the owner sets ONE of the two minimums ---- *)
SetMin(which, v) ==
  /\ which \in {"min_burn", "min_mint"} /\ v \in MinVals
  /\ minBurn' = IF which = "min_burn" THEN v ELSE minBurn
  /\ minMint' = IF which = "min_mint" THEN v ELSE minMint
  /\ last' = Frame("other", TRUE)
  /\ UNCHANGED <<auth, minted, burnNonce>>

MintPayloads == [rcv : Client, n : Nonces, amt : MintAmts, sigs : SigSeqs]

Next == \/ \E c \in Client, e \in Eth \cup {NoEth}, v \in BurnVals : Burn(c, e, v)
        \/ \E c \in Client, p \in MintPayloads : Mint(c, p)
        \/ \E a \in Auths : Register(a) \/ Delete(a)
        \/ \E w \in {"min_burn", "min_mint"}, v \in MinVals : SetMin(w, v)
Spec == Init /\ [][Next]_vars

-----------------------------------------------------------------------------
(* the properties, on the last step *)
C19_BurnExact == BurnStepOK(last)
C19_BurnGuard == BurnGuardOK(last)
C18_MintQuorum == MintQuorumOK(last)
C18_NonceOnce == MintNonceOK(last)
C18_MintAmounts == MintAmountsOK(last)
\* exact-threshold form (the rounding the code uses)
C18_ExactThreshold == (last.op = "mint" /\ last.ok) =>
     Cardinality(ValidSigners(last.sigs, last.preAuth)) >= Threshold(PctMilli, Cardinality(last.preAuth))

(* what still holds for the code as written *)
\* the quorum is met by entries that are well-formed signatures filed under distinct registered ids
C18_QuorumOfWellFormed == (last.op = "mint" /\ last.ok) =>
     (last.selfRcv /\ last.wellFormed >= Threshold(PctMilli, Cardinality(last.preAuth)))
\* the fee reaches the payee unless his stake is below the minimum, in which case it is credited to nobody
C18_AmountsUnlessUnstaked == (last.op = "mint" /\ last.ok) =>
     /\ last.dClient = last.amt - last.fee /\ last.dWallet = -last.dClient
     /\ (last.credited = last.fee \/ (last.payee \notin Staked /\ last.credited = 0))

(* the same as action properties: checked by TLC on every transition, also when the exhaustive *)
(* configs identify states by the VIEW StateView (last does not influence the future) *)
P_C19_BurnExact == [][BurnStepOK(last')]_vars
P_C19_BurnGuard == [][BurnGuardOK(last')]_vars
P_C18_MintQuorum == [][MintQuorumOK(last')]_vars
P_C18_ExactThreshold == [][(last'.op = "mint" /\ last'.ok) =>
     Cardinality(ValidSigners(last'.sigs, last'.preAuth)) >= Threshold(PctMilli, Cardinality(last'.preAuth))]_vars
P_C18_NonceOnce == [][MintNonceOK(last')]_vars
P_C18_MintAmounts == [][MintAmountsOK(last')]_vars
P_C18_QuorumOfWellFormed == [][(last'.op = "mint" /\ last'.ok) =>
     (last'.selfRcv /\ last'.wellFormed >= Threshold(PctMilli, Cardinality(last'.preAuth)))]_vars
P_C18_AmountsUnlessUnstaked == [][(last'.op = "mint" /\ last'.ok) =>
     /\ last'.dClient = last'.amt - last'.fee /\ last'.dWallet = -last'.dClient
     /\ (last'.credited = last'.fee \/ (last'.payee \notin Staked /\ last'.credited = 0))]_vars
StateView == <<auth, minted, burnNonce, minBurn, minMint>>
=============================================================================
