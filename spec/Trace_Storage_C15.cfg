SPECIFICATION TraceSpec
INVARIANTS NoPanic HarnessRange HarnessExact C15_Read C15_Monotone C15_OnlyReads
POSTCONDITION Accepted
CHECK_DEADLOCK FALSE
