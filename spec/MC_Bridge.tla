----------------------------- MODULE MC_Bridge -----------------------------
(* Exhaustive small-constant instances of Bridge.tla: 3 authorizers, every  *)
(* MULTISET of up to 3 / 4 signature entries from {valid_i, forged_i,       *)
(* stranger, garbage_1} (and, for the order-sensitive code as written,      *)
(* every LIST of up to 3), nonces repeated, registrations and deletions;    *)
(* burns around the minimum, with the owner moving min_burn and min_mint    *)
(* apart (MinVals; NoMins switches the config changes off).                 *)
(* Burns and mints do not interact, so they are  *)
(* explored by separate configs (NoSeqs / NoVals switch the other half      *)
(* off).  The properties are checked as action properties on every          *)
(* transition; states are identified by StateView.  Authorizers are deleted *)
(* and re-registered in the order of AuthOrder (they are interchangeable).  *)
EXTENDS Bridge

KindSeq == <<[a |-> "a1", k |-> "valid"], [a |-> "a2", k |-> "valid"], [a |-> "a3", k |-> "valid"],
             [a |-> "a1", k |-> "forged"], [a |-> "a2", k |-> "forged"], [a |-> "a3", k |-> "forged"],
             [a |-> "u1", k |-> "valid"], [a |-> "a1", k |-> "garbage"]>>
SigAlphabet == {KindSeq[i] : i \in 1..Len(KindSeq)}
SeqsUpTo(S, n) == UNION {[1..k -> S] : k \in 0..n}
\* multisets as non-decreasing index sequences
Sorted(n) == UNION {{[i \in 1..k |-> KindSeq[t[i]]] : t \in {s \in [1..k -> 1..Len(KindSeq)] : \A i \in 1..(k - 1) : s[i] <= s[i + 1]}} : k \in 0..n}
Multi3 == Sorted(3)
Multi4 == Sorted(4)
Seqs2 == SeqsUpTo(SigAlphabet, 2)
Seqs3 == SeqsUpTo(SigAlphabet, 3)
NoSeqs == {}
NoVals == {}
Order3 == <<"a1", "a2", "a3">>
E2 == {"e1", "e2"}
Vals4 == {0, 1, 2, 3}
Mins3 == {1, 2, 3}
NoMins == {}

Pos(a) == CHOOSE i \in 1..Len(AuthOrder) : AuthOrder[i] = a
\* the trailing conjunct makes TLC report coverage under these names
A_BurnOk == (\E c \in Client, e \in Eth \cup {NoEth}, v \in BurnVals : Burn(c, e, v) /\ last'.ok) /\ TRUE
\* a burn the two minimums disagree about (min_mint <= v < min_burn, to an address): refused like any other below min_burn
Between(e, v) == e # NoEth /\ minMint <= v /\ v < minBurn
A_BurnFail == (\E c \in Client, e \in Eth \cup {NoEth}, v \in BurnVals : ~Between(e, v) /\ Burn(c, e, v) /\ ~last'.ok) /\ TRUE
A_BurnBetween == (\E c \in Client, e \in Eth, v \in BurnVals : Between(e, v) /\ Burn(c, e, v) /\ ~last'.ok) /\ TRUE
A_MintOk == (\E p \in MintPayloads : Accepts("c1", p) /\ Mint("c1", p)) /\ TRUE
A_MintFail == (\E p \in MintPayloads : ~Accepts("c1", p) /\ Mint("c1", p)) /\ TRUE
A_Register == (\E a \in Auths : Pos(a) = Cardinality(auth) + 1 /\ Register(a)) /\ TRUE
A_Delete == (\E a \in Auths : Pos(a) = Cardinality(auth) /\ Delete(a)) /\ TRUE
A_SetMin == (\E w \in {"min_burn", "min_mint"}, v \in MinVals : SetMin(w, v)) /\ TRUE
MCNext == A_BurnOk \/ A_BurnFail \/ A_MintOk \/ A_MintFail \/ A_Register \/ A_Delete \/ A_SetMin \/ A_BurnBetween
MCSpec == Init /\ [][MCNext]_vars
=============================================================================
