----------------------------- MODULE MC_Bridge -----------------------------
(* Exhaustive small-constant instances of Bridge.tla: 3 authorizers, every  *)
(* signature LIST (order matters for the code as written) of up to 3 / 4    *)
(* entries from {valid_i, forged_i, stranger, garbage_1}, nonces repeated,  *)
(* registrations and deletions; burns around the minimum.  Burns and mints  *)
(* do not interact, so they are explored by separate configs (NoSeqs /      *)
(* NoVals switch the other half off).  The properties are checked as action *)
(* properties on every transition; states are identified by StateView.      *)
EXTENDS Bridge

SigAlphabet == {[a |-> x, k |-> kk] : x \in Auths, kk \in {"valid", "forged"}}
                 \cup {[a |-> Stranger, k |-> "valid"], [a |-> "a1", k |-> "garbage"]}
SeqsUpTo(S, n) == UNION {[1..k -> S] : k \in 0..n}
Seqs3 == SeqsUpTo(SigAlphabet, 3)
Seqs4 == SeqsUpTo(SigAlphabet, 4)
NoSeqs == {}
NoVals == {}
Order3 == <<"a1", "a2", "a3">>
E2 == {"e1", "e2"}
Vals4 == {0, 1, 2, 3}

\* the trailing conjunct makes TLC report coverage under these names
A_BurnOk == (\E c \in Client, e \in Eth \cup {NoEth}, v \in BurnVals : Burn(c, e, v) /\ last'.ok) /\ TRUE
A_BurnFail == (\E c \in Client, e \in Eth \cup {NoEth}, v \in BurnVals : Burn(c, e, v) /\ ~last'.ok) /\ TRUE
A_MintOk == (\E p \in MintPayloads : Accepts("c1", p) /\ Mint("c1", p)) /\ TRUE
A_MintFail == (\E p \in MintPayloads : ~Accepts("c1", p) /\ Mint("c1", p)) /\ TRUE
A_Register == (\E a \in Auths : Register(a)) /\ TRUE
A_Delete == (\E a \in Auths : Delete(a)) /\ TRUE
MCNext == A_BurnOk \/ A_BurnFail \/ A_MintOk \/ A_MintFail \/ A_Register \/ A_Delete
MCSpec == Init /\ [][MCNext]_vars
=============================================================================
