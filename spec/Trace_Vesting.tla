---------------------------- MODULE Trace_Vesting ----------------------------
(***************************************************************************)
(* Trace specification for C16 (Vesting.tla).  Every "Vest" line is one    *)
(* real vestingsc transaction executed through Chain.UpdateState, with the *)
(* addressed pool read back from the real MPT after it                     *)
(*   amount / vested / last : per destination (entries of one destination  *)
(*                            id summed), bal, start, expire, owner        *)
(* and the OBSERVED transfers                                              *)
(*   got      : balance changes of the destinations, the owner, the sender *)
(*   sc_delta : change of the contract's wallet.                           *)
(* The spec tracks every pool of the trace (P) and keeps the addressed     *)
(* pool's state before the event (B); the invariants compare B, the event  *)
(* and the new state.  Amounts paid for a given time, error texts, which   *)
(* calls fail for non-owners etc. are left free.                           *)
(*                                                                         *)
(* A destination that leaves the pool in the event (stop, delete) is       *)
(* judged with vested-before + what it received in this transaction.       *)
(* The pool owner, when he is also a destination, is judged by the stored  *)
(* numbers only (his balance change mixes several flows).                  *)
(***************************************************************************)
EXTENDS TraceLib

VARIABLES l, ev,
          P,      \* pool name -> [live, amount, vested, start, expire, bal, owner]
          B       \* the addressed pool before the event

vars == <<l, ev, P, B>>
Null == [ev |-> "none"]
NoPool == [live |-> FALSE, amount |-> <<>>, vested |-> <<>>, start |-> 0, expire |-> 0, bal |-> 0, owner |-> "none"]

TraceInit == l = 1 /\ ev = Null /\ P = <<>> /\ B = NoPool
IsEvent(e) == l <= Len(Trace) /\ Trace[l].ev = e /\ l' = l + 1

TraceReset == IsEvent("Reset") /\ ev' = Null /\ P' = <<>> /\ B' = NoPool

TraceVest ==
  /\ IsEvent("Vest")
  /\ LET e == Trace[l]
         b == Get(P, e.pool, NoPool)
         am == PutPairs(<<>>, e.amount, 1)
         ve == PutPairs(<<>>, e.vested, 1)
     IN /\ ev' = e /\ B' = b
        /\ P' = IF e.pool = "none" THEN P
                ELSE IF e.exists
                  THEN Put(P, e.pool, [live |-> TRUE, amount |-> am, vested |-> ve, start |-> e.start,
                                       expire |-> e.expire, bal |-> e.bal, owner |-> e.owner])
                  ELSE Put(P, e.pool, [b EXCEPT !.live = FALSE])

TraceSkip ==
  /\ l <= Len(Trace) /\ Trace[l].ev \notin {"Reset", "Vest"}
  /\ l' = l + 1 /\ ev' = Null /\ UNCHANGED <<P, B>>

TraceNext == TraceReset \/ TraceVest \/ TraceSkip
TraceSpec == TraceInit /\ [][TraceNext]_vars

-----------------------------------------------------------------------------
IsV == ev.ev = "Vest" /\ ev.pool # "none"
A == Get(P, ev.pool, NoPool)                      \* the addressed pool after the event
Got(d) == PairOf(ev.got, d, 0)
Before == IF B.live THEN DOMAIN B.amount ELSE {}
After == IF A.live THEN DOMAIN A.amount ELSE {}
Judged == (Before \cup After) \ (IF B.live THEN (Before \ After) \cap {B.owner} ELSE {})
Amount(d) == IF d \in After THEN A.amount[d] ELSE B.amount[d]
OldV(d) == IF d \in Before THEN B.vested[d] ELSE 0
NewV(d) == IF d \in After THEN A.vested[d] ELSE B.vested[d] + Got(d)
Ref == IF B.live THEN B ELSE A                    \* start / expire of the pool
Clip(t) == IF t > Ref.expire THEN Ref.expire ELSE IF t < Ref.start THEN Ref.start ELSE t
Unvested(p) == SumFun([d \in DOMAIN p.amount |-> p.amount[d] - p.vested[d]], DOMAIN p.amount)
ExcessB == B.bal - Unvested(B)

NoPanic == (ev.ev = "Vest") => ~ev.panic
HarnessRange == (ev.ev = "Vest") => ~ev.overflow

(* C16 *)
C16_AtMostAmount == IsV => \A d \in Judged : NewV(d) <= Amount(d)
C16_Monotone ==
  IsV => /\ \A d \in Judged : NewV(d) >= OldV(d)
         /\ \A d \in Before \cap After : A.amount[d] = B.amount[d]
         /\ (B.live /\ A.live) => (A.start = B.start /\ A.expire = B.expire /\ A.owner = B.owner /\ After \subseteq Before)
(* never ahead of the straight line from (start, 0) to (expire, amount), exactly as in Vesting.tla: the    *)
(* contract pays whole tokens and truncates, so the vested total is at most the floor of the line.  At   *)
(* the driven magnitudes (amount <= 50000, duration <= 7201 s) float64 evaluates left * period / full    *)
(* with the same integer part as exact arithmetic (a non-integer quotient is >= 1/7201 away from the     *)
(* next integer, the float error is < 1e-10), so no rounding allowance is needed; an allowance per       *)
(* payment would let every payment run up to a token ahead and the surplus add up unnoticed.             *)
C16_Schedule ==
  IsV => \A d \in Judged :
           NewV(d) * (Ref.expire - Ref.start) <= Amount(d) * (Clip(ev.now) - Ref.start)
(* the tokens a destination received are the tokens recorded as vested *)
C16_PaidIsVested ==
  IsV => \A d \in (Before \cap After) \ {B.owner} : Got(d) = A.vested[d] - B.vested[d]
(* at or after expiry a payment pays everything *)
C16_FullAtExpiry ==
  (IsV /\ B.live /\ ev.now >= B.expire) =>
     /\ (ev.op \in {"trigger", "delete"} /\ ev.by_owner) => \A d \in Judged : NewV(d) = Amount(d)
     \* (a destination's own unlock pays its first entry only; with several entries of one id the
     \*  owner's trigger / delete pays the rest, so only single-entry pools are judged here)
     /\ (ev.op = "unlock" /\ ~ev.by_owner /\ ev.by \in Before /\ ~ev.dup) => NewV(ev.by) = Amount(ev.by)
(* the pool holds the unvested remainder, and the contract wallet really holds the pool *)
C16_Backed ==
  IsV => /\ A.live => A.bal >= Unvested(A)
         /\ ev.sc_delta = (IF A.live THEN A.bal ELSE 0) - (IF B.live THEN B.bal ELSE 0)
(* the owner can always take the excess and can always delete the pool *)
C16_OwnerCan ==
  (IsV /\ B.live /\ ev.by_owner) =>
     /\ ev.op = "delete" => (ev.class = "ok" /\ ~A.live)
     /\ (ev.op = "unlock" /\ ExcessB > 0) => (ev.class = "ok" /\ Got(B.owner) = ExcessB /\ A.live /\ A.bal = B.bal - ExcessB)
=============================================================================
