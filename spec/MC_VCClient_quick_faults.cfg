SPECIFICATION RTCSpec
CONSTANTS
  Miner = {"m1","m2","m3"}
  Shs = {"s1"}
  K0 = 2
  T0 = 2
  PRs <- PR_ones
  MinN = 2
  CurK = 3
  MaxRound = 5
  MaxCycle = 1
  Flaky = {}
  LagOn = FALSE
  RestMayFail = FALSE
  StoreByNumber = TRUE
  MaxFaults = 1
INVARIANTS TypeOK KeyShareConsistent SameSwitch MagicBlockComplete SosOfStoredVector NoCrash AllWaitedAllInstall AckMeansShare
CHECK_DEADLOCK FALSE
