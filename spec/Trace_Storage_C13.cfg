SPECIFICATION TraceSpec
INVARIANTS NoPanic HarnessRange HarnessExact C13_Allocated C13_Offers C13_Capacity
POSTCONDITION Accepted
CHECK_DEADLOCK FALSE
