SPECIFICATION MCSpec
CONSTANTS
  Client = {c1}
  Configs <- BothAB
  InitCfg <- CfgA
  InitBal = 5
  Values = {0, 1, 2, 3, 4, 5}
  Refills = {3}
  MaxBal = 8
  MaxTime = 4
  MaxStep = 2
  LimitOnPoured = TRUE
INVARIANTS TypeOK C17_Balance C17_Window CountersAreSums C17_ClientLimit C17_GlobalLimit
CHECK_DEADLOCK FALSE
