SPECIFICATION MSpec
CONSTANTS
  Vals = {1,2,3}
  Callers = {"owner","stranger"}
  Owner = "owner"
  HasImmutable = TRUE
  TwoPhase = FALSE
  MaxSteps = 2
VIEW MView
INVARIANTS OwnerOnly AllOrNothing Atomic AlwaysValid ImmutableKept
CHECK_DEADLOCK FALSE
