---------------------------- MODULE EventDBDefs ----------------------------
(***************************************************************************)
(* Pure operators of property C20 (the query database records every        *)
(* finalized bridge and pool event), shared by EventDB.tla (design +       *)
(* exhaustive check) and Trace_EventDB.tla (validation of the real         *)
(* mergeEvents + tag handlers on the in-memory event database).            *)
(*                                                                         *)
(* A block is described by sequences of records:                           *)
(*   burns   [c, eth, amount, nonce]        one per successful burn        *)
(*   mints   [c, nonce, amount, signers]    one per successful mint        *)
(*   rewards [a, d]                         stake-pool reward events       *)
(* mTickets / mBurns / mMints / mRewards: what the merge step hands to the *)
(* handlers;  rows: burn_tickets rows after the store step; dBurn / dMint: *)
(* increase of authorizers.total_burn / total_mint ([a, d] pairs).         *)
(* Anchors: smartcontract/dbs/event/process.go mergeEvents, processEvent;  *)
(* merger.go withUniqueEventOverwrite; burn_ticket.go; authorizer.go.      *)
(***************************************************************************)
EXTENDS Integers, Sequences, FiniteSets

Range(s) == {s[i] : i \in 1..Len(s)}
RECURSIVE SumSeq(_, _)
SumSeq(s, i) == IF i > Len(s) THEN 0 ELSE s[i] + SumSeq(s, i + 1)
\* sum of F(s[i]) over the positions i >= k of s
SumOver(s, k, F(_)) == SumSeq([i \in 1..Len(s) |-> F(s[i])], k)
Count(s, P(_)) == Cardinality({i \in 1..Len(s) : P(s[i])})
\* equality of sequences as multisets
SameBag(s, t) == /\ Len(s) = Len(t)
                 /\ \A x \in Range(s) \cup Range(t) : Count(s, LAMBDA y : y = x) = Count(t, LAMBDA y : y = x)

Ticket(b) == [eth |-> b.eth, amount |-> b.amount, nonce |-> b.nonce]
BurnEv(b) == [a |-> b.c, d |-> b.amount]
MintEv(m) == [c |-> m.c, nonce |-> m.nonce, amount |-> m.amount, signers |-> m.signers]
Map(s, F(_)) == [i \in 1..Len(s) |-> F(s[i])]

\* Merge never drops an additive / append-only event
MergeKeepsAll(B) ==
  /\ SameBag(Map(B.burns, Ticket), B.mTickets)
  /\ SameBag(Map(B.burns, BurnEv), B.mBurns)
  /\ SameBag(Map(B.mints, MintEv), B.mMints)
  /\ \A p \in {r.a : r \in Range(B.rewards) \cup Range(B.mRewards)} :
        SumOver(B.rewards, 1, LAMBDA r : IF r.a = p THEN r.d ELSE 0) = SumOver(B.mRewards, 1, LAMBDA r : IF r.a = p THEN r.d ELSE 0)
\* one burn ticket per burn, with its address, amount and nonce
TicketPerBurn(B) == SameBag(Map(B.burns, Ticket), B.rows)
\* every burn counts toward the total of its burner (when the burner has a row in the authorizers table)
BurnTotals(B) == \A a \in B.auths :
   SumOver(B.dBurn, 1, LAMBDA r : IF r.a = a THEN r.d ELSE 0) = SumOver(B.burns, 1, LAMBDA b : IF b.c = a THEN b.amount ELSE 0)
\* every mint counts toward the totals of the authorizers that signed it
MintTotals(B) == \A a \in B.auths :
   SumOver(B.dMint, 1, LAMBDA r : IF r.a = a THEN r.d ELSE 0) = SumOver(B.mints, 1, LAMBDA m : IF a \in Range(m.signers) THEN m.amount ELSE 0)

(* what the code as written still guarantees *)
LastPerIndex(s, K(_)) == {i \in 1..Len(s) : \A j \in (i + 1)..Len(s) : K(s[j]) # K(s[i])}
\* the merge keeps, for every index, the last event filed under it
MergeKeepsLast(B) ==
  /\ Range(B.mTickets) = {Ticket(B.burns[i]) : i \in LastPerIndex(B.burns, LAMBDA b : b.eth)}
  /\ Range(B.mBurns) = {BurnEv(B.burns[i]) : i \in LastPerIndex(B.burns, LAMBDA b : b.c)}
  /\ Range(B.mMints) = {MintEv(B.mints[i]) : i \in LastPerIndex(B.mints, LAMBDA m : m.c)}
\* the ticket handler stores every ticket the merge kept
StoresAllMerged(B) == SameBag(B.mTickets, B.rows)
\* (former handler, before "fix: store every burn ticket of a merged event": one of the merged tickets)
StoresOneTicket(B) == IF Len(B.mTickets) = 0 THEN Len(B.rows) = 0
                      ELSE Len(B.rows) = 1 /\ B.rows[1] \in Range(B.mTickets)
\* burn totals count what the merge kept
BurnTotalsOfMerged(B) == \A a \in B.auths :
   SumOver(B.dBurn, 1, LAMBDA r : IF r.a = a THEN r.d ELSE 0) = SumOver(B.mBurns, 1, LAMBDA r : IF r.a = a THEN r.d ELSE 0)
\* mint totals count what the merge kept
MintTotalsOfMerged(B) == \A a \in B.auths :
   SumOver(B.dMint, 1, LAMBDA r : IF r.a = a THEN r.d ELSE 0) = SumOver(B.mMints, 1, LAMBDA m : IF a \in Range(m.signers) THEN m.amount ELSE 0)
=============================================================================
