SPECIFICATION MSpec
CONSTANTS
  Client = {"a1", "c2"}
  Eth = {"e1", "e2"}
  Auths = {"a1", "a2", "a3"}
  SignerSets <- Sets2
  MaxBurns = 2
  MaxMints = 1
  MaxBlocks = 2
  MaxOps = 3
  Merger = "overwrite"
  TicketStore = "all"
  BurnsFirst = TRUE
  MintKey = "minter"
VIEW GView
INVARIANTS GPrint
CHECK_DEADLOCK FALSE
