SPECIFICATION GSpec
CONSTANTS
  Miner = {"m1","m2","m3","m4"}
  Shs = {"s1"}
  K0 = 3
  T0 = 3
  PRs <- PR_two
  MinN = 3
  CurK = 4
  MaxRound = 22
  MaxCycle = 3
  Flaky = {"m3","m4"}
  LagOn = TRUE
  RestMayFail = TRUE
  StoreByNumber = TRUE
  MaxFaults = 4
INVARIANTS GPrint
CHECK_DEADLOCK FALSE
