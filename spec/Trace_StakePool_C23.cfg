SPECIFICATION TraceSpec
CONSTANTS PropTol = 2
INVARIANTS HarnessKillContinuity C23_NoPanic C23_Frame C23_Unauthorised C23_DeadSlashedOnce C23_NoRewardAfterDeath C23_UnlockKeepsDeath
POSTCONDITION Accepted
CHECK_DEADLOCK FALSE
