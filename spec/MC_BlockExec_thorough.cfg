SPECIFICATION Spec
CONSTANTS
  Kind = {"send", "data", "pour", "fail", "vest", "stake", "burn", "gov2_globals", "gov2_miner", "gov2_storage", "gov2_vesting", "gov2_zcn", "gov2_faucet", "govok"}
  MultiBad = {"gov2_globals", "gov2_miner", "gov2_storage", "gov2_vesting", "gov2_zcn", "gov2_faucet"}
  Env <- MCEnv
  MaxLen = 3
  SortedKeys = TRUE
INVARIANT Deterministic
CHECK_DEADLOCK FALSE
