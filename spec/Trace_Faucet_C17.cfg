SPECIFICATION TraceSpec
INVARIANTS NoPanic HarnessRange C17_ClientLimit C17_GlobalLimit C17_Balance C17_Window
POSTCONDITION Accepted
CHECK_DEADLOCK FALSE
