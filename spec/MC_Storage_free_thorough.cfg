SPECIFICATION MCSpec
CONSTANTS
  Alloc = {"a1","a2","a3"}
  Blob = {"b1"}
  Client = {"c1","c2","c3"}
  M = 3
  Cap = 2
  ChargeCap = 1
  NBlob = 1
  Price = 1
  MaxCtr = 3
  IndLimit = 2
  TotLimit = 5
  Nonce = {1, 2, 3}
  Groups = {"free"}
  SavePoolOnKilledReplace = TRUE
  RefreshZeroesOffers = FALSE
INVARIANTS TypeOK C24_Limits C09_Covered
PROPERTIES C24_Once C24_Rereg C09_Backed
CHECK_DEADLOCK FALSE
