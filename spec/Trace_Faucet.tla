---------------------------- MODULE Trace_Faucet ----------------------------
(***************************************************************************)
(* Trace specification for C17 (Faucet.tla).  Every "Faucet" line is one   *)
(* real faucetsc transaction executed through Chain.UpdateState, with      *)
(*   got      = observed change of the SENDER's balance in the real MPT,   *)
(*   fbal_pre = faucet wallet before the transaction,                      *)
(*   u_*, g_* = the stored user node of the sender / global node after it  *)
(*              (start times in seconds relative to the trace start,       *)
(*              NoneT = no node / zero time),                              *)
(*   pour .. g_reset = the stored configuration after it.                  *)
(* The spec is the observer of Faucet.tla (ObsUser / ObsGlobal): it sums   *)
(* the OBSERVED transfers per window, a window being identified by the     *)
(* start stored in the node; everything else (which amount is poured for   *)
(* which request, error texts, when a window is anchored) is left free.    *)
(* The contract's own counters (u_used, g_used) are not consulted.         *)
(***************************************************************************)
EXTENDS TraceLib

NoneT == -536870912

VARIABLES l, ev,
          poured, wstart,     \* per client: transferred in the current window, start of that window
          gpoured, gwstart,
          resets,             \* [ind, g]: reset periods in force before the event
          early               \* [u, g]: the event restarted a window before its period had elapsed

vars == <<l, ev, poured, wstart, gpoured, gwstart, resets, early>>
Null == [ev |-> "none"]
NoEarly == [u |-> FALSE, g |-> FALSE]

TraceInit == /\ l = 1 /\ ev = Null /\ poured = <<>> /\ wstart = <<>> /\ gpoured = 0 /\ gwstart = NoneT
             /\ resets = [ind |-> 1, g |-> 1] /\ early = NoEarly

IsEvent(e) == l <= Len(Trace) /\ Trace[l].ev = e /\ l' = l + 1

TraceReset ==
  /\ IsEvent("Reset")
  /\ ev' = Null /\ early' = NoEarly
  /\ IF "g_start" \in DOMAIN Trace[l]
       THEN /\ poured' = PutPairs(<<>>, Trace[l].u_used, 1) /\ wstart' = PutPairs(<<>>, Trace[l].u_start, 1)
            /\ gpoured' = Trace[l].g_used /\ gwstart' = Trace[l].g_start
            /\ resets' = [ind |-> Trace[l].ind_reset, g |-> Trace[l].g_reset]
       ELSE /\ poured' = <<>> /\ wstart' = <<>> /\ gpoured' = 0 /\ gwstart' = NoneT
            /\ resets' = [ind |-> 1, g |-> 1]

Pos(x) == IF x > 0 THEN x ELSE 0
Min2(a, b) == IF a < b THEN a ELSE b

TraceFaucet ==
  /\ IsEvent("Faucet")
  /\ LET e == Trace[l]
         amt == Pos(e.got)
         ws == Get(wstart, e.c, NoneT)
         newU == e.u_start # ws
         newG == e.g_start # gwstart
     IN /\ ev' = e
        /\ poured' = Put(poured, e.c, IF newU THEN amt ELSE Get(poured, e.c, 0) + amt)
        /\ wstart' = Put(wstart, e.c, e.u_start)
        /\ gpoured' = (IF newG THEN amt ELSE gpoured + amt)
        /\ gwstart' = e.g_start
        /\ early' = [u |-> newU /\ ws # NoneT /\ e.u_start - ws < Min2(resets.ind, resets.g),
                     g |-> newG /\ gwstart # NoneT /\ e.g_start - gwstart < resets.g]
        /\ resets' = [ind |-> e.ind_reset, g |-> e.g_reset]

TraceSkip ==
  /\ l <= Len(Trace) /\ Trace[l].ev \notin {"Reset", "Faucet"}
  /\ l' = l + 1 /\ ev' = Null /\ early' = NoEarly
  /\ UNCHANGED <<poured, wstart, gpoured, gwstart, resets>>

TraceNext == TraceReset \/ TraceFaucet \/ TraceSkip
TraceSpec == TraceInit /\ [][TraceNext]_vars

IsF == ev.ev = "Faucet"
-----------------------------------------------------------------------------
NoPanic == IsF => ~ev.panic
\* a number too large for TLC's 32-bit integers is a limit of the harness, not a verdict
HarnessRange == IsF => ~ev.overflow

(* C17: what was really transferred within one window stays within the limits *)
\* (events that bin/vcheck marked as instances of a listed known finding are consumed and summed, not judged)
C17_ClientLimit == (IsF /\ ev.got > 0 /\ ~IsKnown(ev)) => Get(poured, ev.c, 0) <= ev.periodic
C17_GlobalLimit == (IsF /\ ev.got > 0 /\ ~IsKnown(ev)) => gpoured <= ev.global
C17_Balance     == (IsF /\ ev.got > 0) => ev.got <= ev.fbal_pre
C17_Window      == ~early.u /\ ~early.g
=============================================================================
