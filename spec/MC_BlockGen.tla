---------------------------- MODULE MC_BlockGen ----------------------------
EXTENDS BlockGen, Json
MCBuiltIn == <<"payFees", "commit_settings_changes">>
\* positions (in the pool) of the block's pool transactions: the model's prediction, replayed as information
ExpBlock == LET f == SelectSeq(blk, LAMBDA e : e.p # 0) IN [i \in 1..Len(f) |-> f[i].p]
Scenario == [st |-> st, pool |-> hist, exp |-> ExpBlock]
GPrint == (phase = "done") => PrintT(<<"BEHAVIOUR", ToJson(Scenario)>>)
\* behaviour generation (-simulate picks successors uniformly): valid classes are given more weight
GenTxn == [s : Sender, n : 1..MaxNonce, c : Class, w : {1}] \cup [s : Sender, n : 1..MaxNonce, c : {"ok"}, w : {2, 3, 4}]
          \cup [s : Sender, n : 1..MaxNonce, c : {"sc"}, w : {2}]
GenInit == Init /\ len >= 3
GenSpec == GenInit /\ [][Next]_vars
\* exhaustive runs: the pool history is a function of nothing the generator reads later
View == <<st, len, Len(hist), nonce, mnonce, blk, fut, cur, ci, cost, phase, verdict>>
=============================================================================
