SPECIFICATION TraceSpec
INVARIANTS C48_OwnerOnly C48_AllOrNothing C48_Atomic C48_ValidAfter C48_SameOnEveryNode C48_NoSilentChange
POSTCONDITION Accepted
CHECK_DEADLOCK FALSE
