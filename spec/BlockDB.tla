------------------------------- MODULE BlockDB -------------------------------
(***************************************************************************)
(* The sharder's block database (sharder/blockdb): an immutable set of     *)
(* records in <file>.dat (each record = a 4-byte length write + a data     *)
(* write), and <file>.idx written by Save as: number of keys, the index    *)
(* entries sorted by key (key -> offset), the db header.  Open reads the    *)
(* .idx into a sorted fixed-key array; Read(k) = binary search in it        *)
(* (fixedKeyArrayIndex.GetOffset) + read of the record at the offset.       *)
(*                                                                         *)
(* Files are modelled at the granularity of the write calls ("tokens"); a   *)
(* process crash leaves every completed write and possibly a part of the    *)
(* one in progress.                                                        *)
(*                                                                         *)
(* Named deviation (SearchAsCoded): the `break` statements of GetOffset     *)
(* leave the switch, not the loop, so when the search interval has shrunk   *)
(* to one entry that is not the key, the loop never ends.  With             *)
(* SearchAsCoded = FALSE the search is the intended one.                    *)
(***************************************************************************)
EXTENDS Integers, Sequences, FiniteSets, TLC

CONSTANTS Keys,            \* ordered keys (integers)
          MaxRecs,         \* records written at most
          SearchAsCoded,   \* GetOffset as coded / as intended
          WithHeader       \* a DBHeader is set

VARIABLES recs,    \* records written so far, in order: [k, ver]
          dat,     \* <file>.dat : sequence of tokens [kind, pos, full]
          idx,     \* <file>.idx : sequence of tokens [kind, full]; <<>> with idxThere = FALSE means no file
          idxThere,
          snap,    \* the index as encoded by Save: sorted sequence of [k, pos]
          phase,   \* "writing" | "saved" | "crashed" | "open" | "openfailed"
          crashed  \* TRUE if the files are what a crash left
vars == <<recs, dat, idx, idxThere, snap, phase, crashed>>

Tok(kind, pos, full) == [kind |-> kind, pos |-> pos, full |-> full]
Written == {recs[i].k : i \in DOMAIN recs}
LastPos(k) == CHOOSE i \in DOMAIN recs : recs[i].k = k /\ \A j \in DOMAIN recs : recs[j].k = k => j <= i
RECURSIVE SortedKeys(_)
SortedKeys(S) == IF S = {} THEN <<>> ELSE LET mn == CHOOSE x \in S : \A y \in S : x <= y IN <<mn>> \o SortedKeys(S \ {mn})
Snapshot == LET ks == SortedKeys(Written) IN [i \in DOMAIN ks |-> [k |-> ks[i], pos |-> LastPos(ks[i])]]   \* mapIndex.Encode

Init == /\ recs = <<>> /\ dat = <<>> /\ idx = <<>> /\ idxThere = FALSE /\ snap = <<>>
        /\ phase = "writing" /\ crashed = FALSE

(* WriteData: SetOffset(key, current offset); write(len); write(data) *)
Write(k) ==
  /\ phase = "writing" /\ Len(recs) < MaxRecs
  /\ recs' = Append(recs, [k |-> k, ver |-> Cardinality({i \in DOMAIN recs : recs[i].k = k}) + 1])
  /\ dat' = dat \o <<Tok("len", Len(recs) + 1, TRUE), Tok("data", Len(recs) + 1, TRUE)>>
  /\ UNCHANGED <<idx, idxThere, snap, phase, crashed>>

(* the process dies inside WriteData *)
CrashInWrite(k, stage) ==
  /\ phase = "writing" /\ Len(recs) < MaxRecs
  /\ dat' = dat \o (CASE stage = "plen" -> <<Tok("len", Len(recs) + 1, FALSE)>>
                      [] stage = "len" -> <<Tok("len", Len(recs) + 1, TRUE)>>
                      [] stage = "pdata" -> <<Tok("len", Len(recs) + 1, TRUE), Tok("data", Len(recs) + 1, FALSE)>>)
  /\ phase' = "crashed" /\ crashed' = TRUE
  /\ UNCHANGED <<recs, idx, idxThere, snap>>
CrashBetweenWrites ==
  /\ phase = "writing" /\ phase' = "crashed" /\ crashed' = TRUE
  /\ UNCHANGED <<recs, dat, idx, idxThere, snap>>

FullIdx == <<Tok("num", 0, TRUE), Tok("index", 0, TRUE)>> \o (IF WithHeader THEN <<Tok("hdr", 0, TRUE)>> ELSE <<>>)
(* Save: the header file is created, then number of keys, index entries, header are written *)
Save ==
  /\ phase = "writing"
  /\ snap' = Snapshot /\ idx' = FullIdx /\ idxThere' = TRUE /\ phase' = "saved"
  /\ UNCHANGED <<recs, dat, crashed>>
CrashInSave(n, partial) ==                   \* n complete writes of the .idx, possibly a part of the next one
  /\ phase = "writing" /\ n \in 0..(Len(FullIdx) - 1)
  /\ snap' = Snapshot /\ idxThere' = TRUE
  /\ idx' = SubSeq(FullIdx, 1, n) \o (IF partial THEN <<[FullIdx[n + 1] EXCEPT !.full = FALSE]>> ELSE <<>>)
  /\ phase' = "crashed" /\ crashed' = TRUE
  /\ UNCHANGED <<recs, dat>>

HasFull(f, kind) == \E i \in DOMAIN f : f[i].kind = kind /\ f[i].full
OpenOK == idxThere /\ HasFull(idx, "num") /\ HasFull(idx, "index") /\ (WithHeader => HasFull(idx, "hdr"))
Open ==
  /\ phase \in {"saved", "crashed"}
  /\ phase' = IF OpenOK THEN "open" ELSE "openfailed"
  /\ UNCHANGED <<recs, dat, idx, idxThere, snap, crashed>>

Next == \/ \E k \in Keys : Write(k)
        \/ \E k \in Keys, st \in {"plen", "len", "pdata"} : CrashInWrite(k, st)
        \/ CrashBetweenWrites
        \/ Save
        \/ \E n \in 0..2, p \in BOOLEAN : CrashInSave(n, p)
        \/ Open
Spec == Init /\ [][Next]_vars

-----------------------------------------------------------------------------
(* Read(k) on an opened database.                                            *)
RECURSIVE Coded(_, _, _, _)
Coded(ix, key, lo, hi) ==                    \* index.go GetOffset, 0-based lo/hi; result: position, -1 = not found, -2 = never returns
  IF lo > hi THEN -1
  ELSE LET mid == (lo + hi) \div 2 IN
       IF ix[mid + 1].k = key THEN ix[mid + 1].pos
       ELSE IF ix[mid + 1].k < key THEN (IF lo = hi THEN -2 ELSE Coded(ix, key, mid + 1, hi))
       ELSE (IF lo = hi THEN -2 ELSE Coded(ix, key, lo, mid - 1))
Intended(ix, key) == IF \E i \in DOMAIN ix : ix[i].k = key
                       THEN ix[CHOOSE i \in DOMAIN ix : ix[i].k = key].pos ELSE -1
Search(ix, key) == IF SearchAsCoded THEN Coded(ix, key, 0, Len(ix) - 1) ELSE Intended(ix, key)

RecordReadable(pos) ==                       \* both writes of record `pos` are completely in the .dat
  /\ \E i \in DOMAIN dat : dat[i] = Tok("len", pos, TRUE)
  /\ \E i \in DOMAIN dat : dat[i] = Tok("data", pos, TRUE)
(* result of Read(k): [res |-> "ok", rec |-> ...] | "notfound" | "error" | "hang" *)
ReadRes(k) ==
  LET p == Search(snap, k) IN
  IF p = -2 THEN [res |-> "hang"]
  ELSE IF p = -1 THEN [res |-> "notfound"]
  ELSE IF RecordReadable(p) THEN [res |-> "ok", rec |-> recs[p]] ELSE [res |-> "error"]

-----------------------------------------------------------------------------
TypeOK == phase \in {"writing", "saved", "crashed", "open", "openfailed"} /\ Len(recs) <= MaxRecs

(* C26 (a): after Save + Open every written key reads back the record written under it *)
C26_ReadBackExact ==
  (phase = "open" /\ ~crashed) => \A k \in Written : ReadRes(k) = [res |-> "ok", rec |-> recs[LastPos(k)]]
(* a key that was never written is reported not-found (no hang, no other record) *)
C26_AbsentNotFound ==
  phase = "open" => \A k \in Keys \ Written : ReadRes(k) = [res |-> "notfound"]
(* after a crash Open fails cleanly or serves only fully written records *)
C26_CrashSafe ==
  (phase = "open" /\ crashed) =>
     \A k \in Written : ReadRes(k) \in {[res |-> "ok", rec |-> recs[LastPos(k)]], [res |-> "error"]}
C26_NormalOpenSucceeds == (phase = "openfailed") => crashed

(* what the model predicts for the code AS WRITTEN: present keys are always found; an absent key *)
(* is either reported not-found or the search never returns (and it does hang for some)          *)
CodedPresentFound == phase = "open" => \A k \in Written : ReadRes(k).res # "hang"
CodedAbsentNotFoundOrHang == phase = "open" => \A k \in Keys \ Written : ReadRes(k).res \in {"notfound", "hang"}
=============================================================================
