---------------------------- MODULE Gen_Rank_C35 ----------------------------
(* Behaviours for C35, enumerated by TLC while evaluating the initial predicate: *)
(*  "rank": every pair of insertion orders of the same k miners (k = 1..4), for  *)
(*          each of the seeds, plus orders that re-add their first miner at the  *)
(*          end (AddNode of an existing key replaces the node object);           *)
(*  "nb":   every sequence of exactly L (= -depth) AddNotarizedBlock /           *)
(*          UpdateNotarizedBlock calls over the 8 block objects of MC_RoundNB    *)
(*          (4 hashes x 2 objects; h1,h2 share rank 0).                           *)
EXTENDS Integers, Sequences, FiniteSets, TLC, Json
VARIABLE g
L == TLCGet("config").depth
Names == <<"n1", "n2", "n3", "n4">>
Orders(k) == {f \in [1..k -> {Names[i] : i \in 1..k}] : \A i, j \in 1..k : i # j => f[i] # f[j]}
SeedIds == {1, 2, 3}
B(id, h, r) == [id |-> id, hash |-> h, rank |-> r]
BlockObjs == <<B(1, "h1", 0), B(2, "h1", 0), B(3, "h2", 0), B(4, "h2", 0),
               B(5, "h3", 1), B(6, "h3", 1), B(7, "h4", 2), B(8, "h4", 2)>>
NbOps == {[op |-> o, b |-> BlockObjs[i]] : o \in {"add", "update"}, i \in 1..Len(BlockObjs)}
P(x) == PrintT(<<"BEHAVIOUR", ToJson(x)>>)
Printed ==
  /\ \A k \in 1..4 : \A s \in SeedIds : \A o1 \in Orders(k) : \A o2 \in Orders(k) :
        P([k |-> "rank", seed |-> s, o1 |-> o1, o2 |-> o2])
  /\ \A k \in 2..4 : \A s \in SeedIds : \A o1 \in Orders(k) : \A o2 \in Orders(k) :
        (o1[1] = Names[1]) => P([k |-> "rank", seed |-> s, o1 |-> o1, o2 |-> Append(o2, o2[1])])
  /\ \A ops \in [1..L -> NbOps] : P([k |-> "nb", ops |-> ops])
GInit == g = IF Printed THEN 0 ELSE 1
GNext == UNCHANGED g
GSpec == GInit /\ [][GNext]_g
=============================================================================
