--------------------------- MODULE MC_StateCache ---------------------------
(* exhaustive configurations of StateCache.tla; the constants are set by the .cfg files *)
EXTENDS StateCache
\* shallow-clone demonstrations need a bound on the object identities
IdBound == nextId <= 6
=============================================================================
