------------------------------- MODULE Storage -------------------------------
(***************************************************************************)
(* The token bookkeeping of the storage contract (smartcontract/storagesc) *)
(* as a state machine: allocations with a write pool and a challenge pool, *)
(* per-blobber outstanding challenge values, blobber capacity and offer    *)
(* counters, unpaid stake-pool rewards, read pools with read-marker         *)
(* counters, free-storage assigners, and the contract wallet.              *)
(*                                                                         *)
(* Amounts that the code derives from price x size x time (how much an     *)
(* upload locks, what a passed challenge pays, the cancellation charge)    *)
(* are EXISTENTIAL here (\E m \in 1..M); what is exact is where the same   *)
(* amount is added and where it is removed.  One unit of size costs one    *)
(* token of offer (write price 1).                                         *)
(*                                                                         *)
(* Two places where the code as written deviates from this design are      *)
(* named constants, so that TLC can be run in both configurations:         *)
(*   SavePoolOnKilledReplace  FALSE = models.go replaceBlobber, killed or  *)
(*        shut-down branch: moves the value to the write pool of the       *)
(*        allocation object but neither saves the challenge pool nor       *)
(*        touches the removed blobber's allocated/offer counters;          *)
(*   RefreshZeroesOffers      TRUE  = kill.go: a repeated kill_blobber     *)
(*        sets TotalOffers to 0 although allocations still hold offers.    *)
(* The free-storage assigner's limits are STATE: the contract owner may    *)
(* register the assigner again with other limits (Reassign), also with a   *)
(* total limit below what is already redeemed; IndLimit / TotLimit are the *)
(* limits of the first registration and the configured maxima.  A penalty  *)
(* (failed challenge, settled with the next passed one) may slash the      *)
(* blobber's stake by any amount INCLUDING ZERO (blobber_slash 0, or a     *)
(* slash that rounds down to zero); slashing is explored only when         *)
(* "slash" \in Groups.                                                     *)
(* The properties C09 C12 C13 C14 C15 C24 are stated at the end.           *)
(***************************************************************************)
EXTENDS Integers, FiniteSets, TLC

CONSTANTS Alloc, Blob, Client,     \* allocations, blobbers, clients
          M,                       \* bound of every existential amount
          Cap,                     \* capacity of every blobber (size units)
          ChargeCap,               \* configured cancellation charge bound
          NBlob,                   \* blobbers per new allocation
          Price, MaxCtr,           \* read price per read, bound of read counters
          IndLimit, TotLimit, Nonce, \* free-storage assigner limits, marker nonces
          Groups,                  \* subset of {"alloc","read","free","slash"}: which actions are explored
          SavePoolOnKilledReplace, RefreshZeroesOffers

NoPool == -1
VARIABLES st,        \* [Alloc -> {"none","open","closed"}]
          owner,     \* [Alloc -> Client]
          expired,   \* [Alloc -> BOOLEAN]   now >= expiration
          wp,        \* [Alloc -> Nat]       write pool
          cp,        \* [Alloc -> Int]       challenge pool balance, NoPool when there is no pool node
          in,        \* [Alloc -> SUBSET Blob]
          size,      \* [Alloc -> [Blob -> Nat]]   per-blobber size (= offer)
          iv,        \* [Alloc -> [Blob -> Nat]]   outstanding challenge value (ChallengePoolIntegralValue)
          allocated, \* [Blob -> Nat]
          offers,    \* [Blob -> Nat]        stake pool TotalOffers
          killed,    \* [Blob -> BOOLEAN]
          rew,       \* [Blob -> Nat]        unpaid rewards recorded in the blobber's stake pool
          bal,       \* [Client -> Nat]
          W,         \* contract wallet
          rp, ctr,   \* [Client -> Nat] read pool; [Client -> Nat] last redeemed counter (one blobber, one allocation)
          charged,   \* [Client -> Nat] history: tokens ever taken from the client's read pool by reads
          red, used, \* assigner: redeemed amount, redeemed nonces
          indLim, totLim, \* assigner: individual and total limit as last registered by the owner
          redAtReg,  \* history: the redeemed amount at the moment of the last (re-)registration
          stake,     \* [Blob -> 0..1] stake units that a penalty can still slash (not a liability of the pools modelled here)
          closes     \* [Alloc -> Nat] history: successful finalize/cancel

vars == <<st, owner, expired, wp, cp, in, size, iv, allocated, offers, killed, rew, bal, W, rp, ctr, charged, red, used,
          indLim, totLim, redAtReg, stake, closes>>
allocVars == <<st, owner, expired, wp, cp, in, size, iv, allocated, offers, killed, stake, closes>>
readVars == <<rp, ctr, charged>>
freeVars == <<red, used, indLim, totLim, redAtReg>>

RECURSIVE SumOver(_, _)
SumOver(f, S) == IF S = {} THEN 0 ELSE LET x == CHOOSE y \in S : TRUE IN f[x] + SumOver(f, S \ {x})
Open == {a \in Alloc : st[a] = "open"}
SumIV(a) == SumOver(iv[a], in[a])
\* what the contract records as owed: write pools + challenge pools + read pools + unpaid rewards
Liab == SumOver(wp, Alloc) + SumOver([a \in Alloc |-> IF cp[a] = NoPool THEN 0 ELSE cp[a]], Alloc)
        + SumOver(rp, Client) + SumOver(rew, Blob)

Init ==
  /\ st = [a \in Alloc |-> "none"] /\ owner = [a \in Alloc |-> CHOOSE c \in Client : TRUE]
  /\ expired = [a \in Alloc |-> FALSE] /\ wp = [a \in Alloc |-> 0] /\ cp = [a \in Alloc |-> NoPool]
  /\ in = [a \in Alloc |-> {}] /\ size = [a \in Alloc |-> [b \in Blob |-> 0]] /\ iv = [a \in Alloc |-> [b \in Blob |-> 0]]
  /\ allocated = [b \in Blob |-> 0] /\ offers = [b \in Blob |-> 0] /\ killed = [b \in Blob |-> FALSE]
  /\ rew = [b \in Blob |-> 0] /\ bal = [c \in Client |-> M] /\ W = 0
  /\ rp = [c \in Client |-> 0] /\ ctr = [c \in Client |-> 0] /\ charged = [c \in Client |-> 0]
  /\ red = 0 /\ used = {} /\ closes = [a \in Alloc |-> 0]
  /\ indLim = IndLimit /\ totLim = TotLimit /\ redAtReg = 0 /\ stake = [b \in Blob |-> 1]

-----------------------------------------------------------------------------
(* allocation.go newAllocationRequestInternal / setupNewAllocation *)
NewAlloc(a, c, B, v) ==
  /\ "alloc" \in Groups /\ st[a] = "none" /\ Cardinality(B) = NBlob
  /\ \A b \in B : ~killed[b] /\ allocated[b] + 1 <= Cap           \* isActive capacity filter
  /\ v <= bal[c] /\ v >= 1                                         \* checkFunding, amount existential
  /\ st' = [st EXCEPT ![a] = "open"] /\ owner' = [owner EXCEPT ![a] = c] /\ expired' = [expired EXCEPT ![a] = FALSE]
  /\ wp' = [wp EXCEPT ![a] = v] /\ cp' = [cp EXCEPT ![a] = 0] /\ in' = [in EXCEPT ![a] = B]
  /\ size' = [size EXCEPT ![a] = [b \in Blob |-> IF b \in B THEN 1 ELSE 0]]
  /\ iv' = [iv EXCEPT ![a] = [b \in Blob |-> 0]]
  /\ allocated' = [b \in Blob |-> IF b \in B THEN allocated[b] + 1 ELSE allocated[b]]
  /\ offers' = [b \in Blob |-> IF b \in B THEN offers[b] + 1 ELSE offers[b]]
  /\ bal' = [bal EXCEPT ![c] = @ - v] /\ W' = W + v
  /\ UNCHANGED <<killed, rew, closes, stake>> /\ UNCHANGED readVars /\ UNCHANGED freeVars

(* writepool.go writePoolLock: only on an existing (open) allocation *)
WritePoolLock(a, c, v) ==
  /\ "alloc" \in Groups /\ st[a] = "open" /\ v >= 1 /\ v <= bal[c]
  /\ wp' = [wp EXCEPT ![a] = @ + v] /\ bal' = [bal EXCEPT ![c] = @ - v] /\ W' = W + v
  /\ UNCHANGED <<st, owner, expired, cp, in, size, iv, allocated, offers, killed, rew, closes, stake>> /\ UNCHANGED readVars /\ UNCHANGED freeVars

(* blobber.go commitMoveTokens, size > 0: write pool -> challenge pool, same amount on the blobber's value *)
Upload(a, b, m) ==
  /\ "alloc" \in Groups /\ st[a] = "open" /\ ~expired[a] /\ b \in in[a] /\ ~killed[b] /\ m <= wp[a]
  /\ wp' = [wp EXCEPT ![a] = @ - m] /\ cp' = [cp EXCEPT ![a] = @ + m] /\ iv' = [iv EXCEPT ![a][b] = @ + m]
  /\ UNCHANGED <<st, owner, expired, in, size, allocated, offers, killed, rew, bal, W, closes, stake>> /\ UNCHANGED readVars /\ UNCHANGED freeVars

(* commitMoveTokens, size < 0 *)
Delete(a, b, m) ==
  /\ "alloc" \in Groups /\ st[a] = "open" /\ ~expired[a] /\ b \in in[a] /\ ~killed[b] /\ m <= iv[a][b]
  /\ wp' = [wp EXCEPT ![a] = @ + m] /\ cp' = [cp EXCEPT ![a] = @ - m] /\ iv' = [iv EXCEPT ![a][b] = @ - m]
  /\ UNCHANGED <<st, owner, expired, in, size, allocated, offers, killed, rew, bal, W, closes, stake>> /\ UNCHANGED readVars /\ UNCHANGED freeVars

(* challenge.go blobberReward: part m of the value leaves the pool for the blobber's (and validators') rewards *)
ChallengePass(a, b, m) ==
  /\ "alloc" \in Groups /\ st[a] = "open" /\ ~expired[a] /\ b \in in[a] /\ m <= iv[a][b]
  /\ cp' = [cp EXCEPT ![a] = @ - m] /\ iv' = [iv EXCEPT ![a][b] = @ - m] /\ rew' = [rew EXCEPT ![b] = @ + m]
  /\ UNCHANGED <<st, owner, expired, wp, in, size, allocated, offers, killed, bal, W, closes, stake>> /\ UNCHANGED readVars /\ UNCHANGED freeVars

(* challenge.go blobberPenalty (applied with the next passed challenge): value goes back to the write pool; the   *)
(* blobber's stake is slashed by s, which may be ZERO (blobber_slash = 0, or move * blobber_slash rounds to 0):    *)
(* the pool bookkeeping is the same whatever the slash.                                                           *)
ChallengePenalty(a, b, m, s) ==
  /\ "alloc" \in Groups /\ st[a] = "open" /\ ~expired[a] /\ b \in in[a] /\ m <= iv[a][b]
  /\ s \in 0..stake[b] /\ (s > 0 => "slash" \in Groups)
  /\ cp' = [cp EXCEPT ![a] = @ - m] /\ iv' = [iv EXCEPT ![a][b] = @ - m] /\ wp' = [wp EXCEPT ![a] = @ + m]
  /\ stake' = [stake EXCEPT ![b] = @ - s]
  /\ UNCHANGED <<st, owner, expired, in, size, allocated, offers, killed, rew, bal, W, closes>> /\ UNCHANGED readVars /\ UNCHANGED freeVars

\* the same with a non-zero slash, under its own name (coverage of the "slash" group)
ChallengePenaltySlashed(a, b, m, s) == s >= 1 /\ ChallengePenalty(a, b, m, s)

(* challenge.go processChallengePassed for a blobber whose previous challenge failed or expired: ONE transaction   *)
(* settles the penalty (mp back to the write pool, stake slashed by s >= 0) and then pays the pass reward mr, both  *)
(* out of the same challenge pool.                                                                                 *)
ChallengePassAfterFail(a, b, mp, s, mr) ==
  /\ "alloc" \in Groups /\ st[a] = "open" /\ ~expired[a] /\ b \in in[a] /\ mp + mr <= iv[a][b]
  /\ s \in 0..stake[b] /\ (s > 0 => "slash" \in Groups)
  /\ cp' = [cp EXCEPT ![a] = @ - mp - mr] /\ iv' = [iv EXCEPT ![a][b] = @ - mp - mr]
  /\ wp' = [wp EXCEPT ![a] = @ + mp] /\ rew' = [rew EXCEPT ![b] = @ + mr]
  /\ stake' = [stake EXCEPT ![b] = @ - s]
  /\ UNCHANGED <<st, owner, expired, in, size, allocated, offers, killed, bal, W, closes>> /\ UNCHANGED readVars /\ UNCHANGED freeVars

(* allocation.go extendAllocation + adjustChallengePool: new expiration, optional growth, value adjusted both ways *)
Extend(a, b, d, up, grow) ==
  /\ "alloc" \in Groups /\ st[a] = "open" /\ ~expired[a] /\ b \in in[a] /\ d \in 0..M
  /\ IF up THEN d <= wp[a] ELSE d <= iv[a][b]
  /\ grow => \A x \in in[a] : ~killed[x] /\ allocated[x] + 1 <= Cap
  /\ wp' = [wp EXCEPT ![a] = IF up THEN @ - d ELSE @ + d]
  /\ cp' = [cp EXCEPT ![a] = IF up THEN @ + d ELSE @ - d]
  /\ iv' = [iv EXCEPT ![a][b] = IF up THEN @ + d ELSE @ - d]
  /\ size' = IF grow THEN [size EXCEPT ![a] = [x \in Blob |-> IF x \in in[a] THEN @[x] + 1 ELSE @[x]]] ELSE size
  /\ allocated' = IF grow THEN [x \in Blob |-> IF x \in in[a] THEN allocated[x] + 1 ELSE allocated[x]] ELSE allocated
  /\ offers' = IF grow THEN [x \in Blob |-> IF x \in in[a] THEN offers[x] + 1 ELSE offers[x]] ELSE offers
  /\ UNCHANGED <<st, owner, expired, in, killed, rew, bal, W, closes, stake>> /\ UNCHANGED readVars /\ UNCHANGED freeVars

(* models.go changeBlobbers without removal *)
AddBlobber(a, nb) ==
  /\ "alloc" \in Groups /\ st[a] = "open" /\ ~expired[a] /\ nb \notin in[a] /\ ~killed[nb]
  /\ LET s == size[a][CHOOSE x \in in[a] : TRUE] IN
       /\ allocated[nb] + s <= Cap
       /\ in' = [in EXCEPT ![a] = @ \cup {nb}] /\ size' = [size EXCEPT ![a][nb] = s]
       /\ allocated' = [allocated EXCEPT ![nb] = @ + s] /\ offers' = [offers EXCEPT ![nb] = @ + s]
  /\ UNCHANGED <<st, owner, expired, wp, cp, iv, killed, rew, bal, W, closes, stake>> /\ UNCHANGED readVars /\ UNCHANGED freeVars

(* models.go replaceBlobber, blobber alive: pass payment m1 and charge ch to the removed blobber, rest back *)
ReplaceAlive(a, ob, nb, m1, ch) ==
  /\ "alloc" \in Groups /\ st[a] = "open" /\ ~expired[a] /\ ob \in in[a] /\ nb \notin in[a] /\ ~killed[nb] /\ ~killed[ob]
  /\ m1 \in 0..iv[a][ob] /\ ch \in 0..ChargeCap /\ ch <= wp[a] + (iv[a][ob] - m1)
  /\ offers[ob] >= size[a][ob]                                     \* reduceOffer must not underflow
  /\ LET s == size[a][ob] IN
       /\ allocated[nb] + s <= Cap
       /\ in' = [in EXCEPT ![a] = (@ \ {ob}) \cup {nb}]
       /\ size' = [size EXCEPT ![a][ob] = 0, ![a][nb] = s]
       /\ allocated' = [allocated EXCEPT ![ob] = @ - s, ![nb] = @ + s]
       /\ offers' = [offers EXCEPT ![ob] = @ - s, ![nb] = @ + s]
  /\ cp' = [cp EXCEPT ![a] = @ - iv[a][ob]]
  /\ wp' = [wp EXCEPT ![a] = @ + (iv[a][ob] - m1) - ch]
  /\ iv' = [iv EXCEPT ![a][ob] = 0]
  /\ rew' = [rew EXCEPT ![ob] = @ + m1 + ch]
  /\ UNCHANGED <<st, owner, expired, killed, bal, W, closes, stake>> /\ UNCHANGED readVars /\ UNCHANGED freeVars

(* models.go replaceBlobber, removed blobber killed / shut down *)
ReplaceKilled(a, ob, nb) ==
  /\ "alloc" \in Groups /\ st[a] = "open" /\ ~expired[a] /\ ob \in in[a] /\ nb \notin in[a] /\ ~killed[nb] /\ killed[ob]
  /\ LET s == size[a][ob] IN
       /\ allocated[nb] + s <= Cap
       /\ in' = [in EXCEPT ![a] = (@ \ {ob}) \cup {nb}]
       /\ size' = [size EXCEPT ![a][ob] = 0, ![a][nb] = s]
       /\ IF SavePoolOnKilledReplace
            THEN /\ allocated' = [allocated EXCEPT ![ob] = @ - s, ![nb] = @ + s]
                 /\ offers' = [offers EXCEPT ![ob] = IF @ >= s THEN @ - s ELSE 0, ![nb] = @ + s]
                 /\ cp' = [cp EXCEPT ![a] = @ - iv[a][ob]]
            ELSE /\ allocated' = [allocated EXCEPT ![nb] = @ + s]     \* `break` before the counters are touched
                 /\ offers' = [offers EXCEPT ![nb] = @ + s]
                 /\ cp' = cp                                          \* challenge pool object never saved
  /\ wp' = [wp EXCEPT ![a] = @ + iv[a][ob]]
  /\ iv' = [iv EXCEPT ![a][ob] = 0]
  /\ UNCHANGED <<st, owner, expired, killed, rew, bal, W, closes, stake>> /\ UNCHANGED readVars /\ UNCHANGED freeVars

(* kill.go: first call kills; a repeated call "refreshes" the provider *)
Kill(b) ==
  /\ "alloc" \in Groups
  /\ IF ~killed[b] THEN killed' = [killed EXCEPT ![b] = TRUE] /\ UNCHANGED offers
     ELSE /\ UNCHANGED killed
          /\ offers' = IF RefreshZeroesOffers THEN [offers EXCEPT ![b] = 0] ELSE offers
  /\ UNCHANGED <<st, owner, expired, wp, cp, in, size, iv, allocated, rew, bal, W, closes, stake>> /\ UNCHANGED readVars /\ UNCHANGED freeVars

Tick(a) ==
  /\ "alloc" \in Groups /\ st[a] = "open" /\ ~expired[a]
  /\ expired' = [expired EXCEPT ![a] = TRUE]
  /\ UNCHANGED <<st, owner, wp, cp, in, size, iv, allocated, offers, killed, rew, bal, W, closes, stake>> /\ UNCHANGED readVars /\ UNCHANGED freeVars

(* allocation.go finishAllocation: pass payments pay[b] <= iv, rest of the pool back to the write pool,     *)
(* cancellation charge ch, every remaining write-pool token to the owner, allocation and pool removed.      *)
CanClose(a) == \A b \in in[a] : offers[b] >= size[a][b]            \* reduceOffer of every blobber succeeds
Close(a, pay, ch) ==
  /\ \A b \in in[a] : pay[b] <= iv[a][b]
  /\ LET paid == SumOver(pay, in[a])
         back == cp[a] - paid
         rest == wp[a] + back - ch
     IN /\ ch \in 0..ChargeCap /\ ch <= wp[a] + back
        /\ \E cb \in in[a] :                                        \* the charge is split by price weights: one receiver is enough here
             rew' = [b \in Blob |-> IF b \in in[a] THEN rew[b] + pay[b] + (IF b = cb THEN ch ELSE 0) ELSE rew[b]]
        /\ bal' = [bal EXCEPT ![owner[a]] = @ + rest] /\ W' = W - rest
  /\ st' = [st EXCEPT ![a] = "closed"] /\ cp' = [cp EXCEPT ![a] = NoPool] /\ wp' = [wp EXCEPT ![a] = 0]
  /\ iv' = [iv EXCEPT ![a] = [b \in Blob |-> 0]] /\ in' = [in EXCEPT ![a] = {}]
  /\ size' = [size EXCEPT ![a] = [b \in Blob |-> 0]]
  /\ allocated' = [b \in Blob |-> IF b \in in[a] THEN allocated[b] - size[a][b] ELSE allocated[b]]
  /\ offers' = [b \in Blob |-> IF b \in in[a] THEN offers[b] - size[a][b] ELSE offers[b]]
  /\ closes' = [closes EXCEPT ![a] = @ + 1]
  /\ UNCHANGED <<owner, expired, killed, stake>> /\ UNCHANGED readVars /\ UNCHANGED freeVars

Finalize(a, caller, pay, ch) ==
  /\ "alloc" \in Groups /\ st[a] = "open" /\ expired[a] /\ CanClose(a)
  /\ caller \in {owner[a]} \cup in[a]
  /\ Close(a, pay, ch)
Cancel(a, caller, pay, ch) ==
  /\ "alloc" \in Groups /\ st[a] = "open" /\ ~expired[a] /\ CanClose(a)
  /\ caller = owner[a]
  /\ Close(a, pay, ch)

(* collect_reward: unpaid rewards are paid out of the wallet *)
Collect(b) ==
  /\ "alloc" \in Groups /\ rew[b] > 0
  /\ W' = W - rew[b] /\ rew' = [rew EXCEPT ![b] = 0]
  /\ UNCHANGED allocVars /\ UNCHANGED <<bal>> /\ UNCHANGED readVars /\ UNCHANGED freeVars

-----------------------------------------------------------------------------
(* readpool.go / blobber.go commitBlobberRead, one (blobber, allocation) pair, blobber b *)
ReadPoolLock(c, v) ==
  /\ "read" \in Groups /\ v >= 1 /\ v <= bal[c]
  /\ rp' = [rp EXCEPT ![c] = @ + v] /\ bal' = [bal EXCEPT ![c] = @ - v] /\ W' = W + v
  /\ UNCHANGED allocVars /\ UNCHANGED <<rew, ctr, charged>> /\ UNCHANGED freeVars
ReadPoolUnlock(c) ==
  /\ "read" \in Groups /\ rp[c] > 0
  /\ bal' = [bal EXCEPT ![c] = @ + rp[c]] /\ W' = W - rp[c] /\ rp' = [rp EXCEPT ![c] = 0]
  /\ UNCHANGED allocVars /\ UNCHANGED <<rew, ctr, charged>> /\ UNCHANGED freeVars
ReadAccepted(c, k, sigok) == sigok /\ k >= 1 /\ k >= ctr[c] /\ Price * (k - ctr[c]) <= rp[c]
ReadMarker(c, b, k, sigok) ==
  /\ "read" \in Groups /\ k \in 0..MaxCtr
  /\ IF ReadAccepted(c, k, sigok)
       THEN /\ rp' = [rp EXCEPT ![c] = @ - Price * (k - ctr[c])]
            /\ rew' = [rew EXCEPT ![b] = @ + Price * (k - ctr[c])]
            /\ charged' = [charged EXCEPT ![c] = @ + Price * (k - ctr[c])]
            /\ ctr' = [ctr EXCEPT ![c] = k]
       ELSE UNCHANGED <<rp, rew, charged, ctr>>
  /\ UNCHANGED allocVars /\ UNCHANGED <<bal, W>> /\ UNCHANGED freeVars

-----------------------------------------------------------------------------
(* free_allocation.go freeAllocationRequest: marker = [recipient, tokens, nonce, sigok]; the contract owner pays *)
FreeAccepted(caller, mk) ==
  /\ caller = mk.recipient /\ mk.sigok /\ mk.nonce \notin used
  /\ mk.tokens <= indLim /\ red + mk.tokens <= totLim
FreeAlloc(caller, mk, a) ==
  /\ "free" \in Groups
  /\ IF FreeAccepted(caller, mk) /\ st[a] = "none"
       THEN /\ red' = red + mk.tokens /\ used' = used \cup {mk.nonce}
            /\ st' = [st EXCEPT ![a] = "open"] /\ owner' = [owner EXCEPT ![a] = mk.recipient]
            /\ wp' = [wp EXCEPT ![a] = mk.tokens] /\ cp' = [cp EXCEPT ![a] = 0] /\ W' = W + mk.tokens
       ELSE UNCHANGED <<red, used, st, owner, wp, cp, W>>
  /\ UNCHANGED <<expired, in, size, iv, allocated, offers, killed, rew, bal, closes, stake, indLim, totLim, redAtReg>>
  /\ UNCHANGED readVars

(* free_allocation.go addFreeStorageAssigner for a name that is already registered: the owner sets other limits  *)
(* (any, also a total limit below what is already redeemed); what the assigner has redeemed - amount and nonces - *)
(* stays.                                                                                                        *)
Reassign(i, t) ==
  /\ "free" \in Groups /\ i \in 1..IndLimit /\ t \in 0..TotLimit
  /\ indLim' = i /\ totLim' = t /\ redAtReg' = red
  /\ UNCHANGED <<red, used>> /\ UNCHANGED allocVars /\ UNCHANGED <<rew, bal, W>> /\ UNCHANGED readVars

Marker == [recipient : Client, tokens : 1..M, nonce : Nonce, sigok : BOOLEAN]

-----------------------------------------------------------------------------
Pay(a) == [in[a] -> 0..M]
Next ==
  \/ \E a \in Alloc, c \in Client, B \in SUBSET Blob, v \in 1..M : NewAlloc(a, c, B, v)
  \/ \E a \in Alloc, c \in Client, v \in 1..M : WritePoolLock(a, c, v)
  \/ \E a \in Alloc, b \in Blob, m \in 1..M : Upload(a, b, m) \/ Delete(a, b, m) \/ ChallengePass(a, b, m)
  \/ \E a \in Alloc, b \in Blob, m \in 1..M, s \in 0..M : ChallengePenalty(a, b, m, s)
  \/ \E a \in Alloc, b \in Blob, mp \in 1..M, s \in 0..M, mr \in 0..M : ChallengePassAfterFail(a, b, mp, s, mr)
  \/ \E a \in Alloc, b \in Blob, d \in 0..M, up \in BOOLEAN, grow \in BOOLEAN : Extend(a, b, d, up, grow)
  \/ \E a \in Alloc, nb \in Blob : AddBlobber(a, nb)
  \/ \E a \in Alloc, ob \in Blob, nb \in Blob, m1 \in 0..M, ch \in 0..ChargeCap : ReplaceAlive(a, ob, nb, m1, ch)
  \/ \E a \in Alloc, ob \in Blob, nb \in Blob : ReplaceKilled(a, ob, nb)
  \/ \E b \in Blob : Kill(b) \/ Collect(b)
  \/ \E a \in Alloc : Tick(a)
  \/ \E a \in Alloc, caller \in Client \cup Blob, ch \in 0..ChargeCap : \E pay \in Pay(a) : Finalize(a, caller, pay, ch) \/ Cancel(a, caller, pay, ch)
  \/ \E c \in Client, v \in 1..M : ReadPoolLock(c, v)
  \/ \E c \in Client : ReadPoolUnlock(c)
  \/ \E c \in Client, b \in Blob, k \in 0..MaxCtr, s \in BOOLEAN : ReadMarker(c, b, k, s)
  \/ \E caller \in Client, mk \in Marker, a \in Alloc : FreeAlloc(caller, mk, a)
  \/ \E i \in 1..IndLimit, t \in 0..TotLimit : Reassign(i, t)

Spec == Init /\ [][Next]_vars

-----------------------------------------------------------------------------
TypeOK ==
  /\ st \in [Alloc -> {"none", "open", "closed"}] /\ \A a \in Alloc : wp[a] >= 0 /\ cp[a] >= NoPool
  /\ \A a \in Alloc, b \in Blob : iv[a][b] >= 0 /\ size[a][b] >= 0
  /\ \A b \in Blob : allocated[b] >= 0 /\ offers[b] >= 0 /\ rew[b] >= 0
  /\ \A c \in Client : bal[c] >= 0 /\ rp[c] >= 0 /\ ctr[c] >= 0
  /\ \A b \in Blob : stake[b] >= 0
  /\ indLim \in 1..IndLimit /\ totLim \in 0..TotLimit /\ red >= 0

(* C12: the challenge pool of an open allocation = sum of its blobbers' outstanding values; none when closed *)
C12_ChallengePool ==
  \A a \in Alloc : IF st[a] = "open" THEN cp[a] = SumIV(a) ELSE cp[a] = NoPool

(* C13: counters track the open allocations; capacity respected; a close can always release its offers *)
SizeOn(b) == SumOver([a \in Alloc |-> IF st[a] = "open" /\ b \in in[a] THEN size[a][b] ELSE 0], Alloc)
C13_Allocated == \A b \in Blob : allocated[b] = SizeOn(b)
C13_Offers == \A b \in Blob : offers[b] = SizeOn(b)
C13_Capacity == \A b \in Blob : allocated[b] <= Cap
C13_CloseEnabled == \A a \in Open : CanClose(a)

(* C14: at most one close; a closed allocation is dead: nothing about it ever changes again *)
C14_Once == \A a \in Alloc : closes[a] <= 1
C14_Dead == [][\A a \in Alloc : st[a] = "closed" =>
                  /\ st'[a] = "closed" /\ wp'[a] = 0 /\ cp'[a] = NoPool /\ in'[a] = {} /\ closes'[a] = closes[a]]_vars
\* what a close may do: enabled only for the right caller at the right time (by construction of Finalize/Cancel);
\* the owner receives exactly what the pools held minus what the blobbers were credited
C14_Refund ==
  [][\A a \in Alloc : (st[a] = "open" /\ st'[a] = "closed") =>
        LET credited == SumOver(rew', Blob) - SumOver(rew, Blob)
            refund == bal'[owner[a]] - bal[owner[a]]
        IN /\ refund >= 0 /\ credited >= 0
           /\ refund + credited = wp[a] + cp[a]
           /\ credited <= SumIV(a) + ChargeCap]_vars

(* C09: liabilities never grow by more than the wallet; they are always backed *)
C09_Backed == [][Liab' - Liab <= W' - W]_vars
C09_Covered == Liab <= W

(* C15: counters only move forward; what reads ever took from a pool = price x counter *)
C15_Monotone == [][\A c \in Client : ctr'[c] >= ctr[c]]_vars
C15_ChargedOnce == \A c \in Client : charged[c] = Price * ctr[c]
C15_Accept == [][\A c \in Client : ctr'[c] # ctr[c] => rp[c] - rp'[c] = Price * (ctr'[c] - ctr[c])]_vars

(* C24: within limits, each nonce once.  The limits are those registered at the moment of the grant.  The redeemed *)
(* amount is above the total limit only if the owner lowered the limit below it and nothing was granted since; a   *)
(* re-registration keeps what was redeemed (amount and nonces), so "once" and "within the total" hold for the      *)
(* assigner, not just per registration.                                                                            *)
C24_Limits == red <= totLim \/ red = redAtReg
C24_Once == [][(red' # red) => /\ red' - red <= indLim /\ red' <= totLim
                               /\ Cardinality(used') = Cardinality(used) + 1 /\ used \subseteq used']_vars
C24_Rereg == [][(indLim' # indLim \/ totLim' # totLim) => (red' = red /\ used' = used)]_vars
=============================================================================
