SPECIFICATION MCSpec
CONSTANTS
  Client = {"c1", "c2"}
  Configs <- BothCD
  InitCfg <- CfgC
  InitBal = 7
  Values = {0, 1, 2, 3, 4, 5}
  Refills = {3}
  MaxBal = 11
  MaxTime = 5
  MaxStep = 2
  LimitOnPoured = FALSE
INVARIANTS TypeOK C17_Balance C17_Window CountersAreSums AsWritten_ClientBound AsWritten_GlobalBound
CHECK_DEADLOCK FALSE
