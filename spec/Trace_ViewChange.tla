--------------------------- MODULE Trace_ViewChange ---------------------------
(***************************************************************************)
(* Trace spec for C38.  Every `Txn38` event is one transaction executed by *)
(* the REAL miner contract (view change enabled) inside a real block:      *)
(*   op     payfees | mpk | keep | sos | wait                              *)
(*   by     sender (for keep: the sharder named in the input)              *)
(*   round  round of the block (relative to the base block)                *)
(*   size   number of keys of a contributed vector;  n = number of share   *)
(*          entries;  valid = every entry is acknowledged or revealed      *)
(*   result ok | chargeable | ...                                          *)
(*   st     the stored view-change state read back AFTER the transaction   *)
(*          (minersc.VerifGovSnapshot), as the record S of ViewChange.tla  *)
(* `pst` is the state read after the previous event (or at Reset).  The    *)
(* invariants require st to be the successor that ViewChange.tla allows.   *)
(* Thresholds k, t of a new DKG set, the members surviving the reduction   *)
(* (C39), the round a cancelled view change falls back to, error texts and *)
(* rewards are left free.                                                  *)
(***************************************************************************)
EXTENDS TraceLib, ViewChange

VARIABLES l, ev, st, pst, cf
vars == <<l, ev, st, pst, cf>>
Null == [ev |-> "none"]

SetOf(q) == {q[i] : i \in 1..Len(q)}
ToS(x) == [present |-> x.present, phase |-> x.phase, start |-> x.start, restarts |-> x.restarts,
           dkg |-> SetOf(x.dkg), k |-> x.k, t |-> x.t, mpks |-> SetOf(x.mpks), gsos |-> SetOf(x.gsos),
           keep |-> SetOf(x.keep), waited |-> SetOf(x.waited), mbst |-> x.mbst, mbm |-> SetOf(x.mbm),
           mbs |-> SetOf(x.mbs), vc |-> x.vc, prevM |-> SetOf(x.prev_m), prevS |-> SetOf(x.prev_s)]
ToC(e) == [pr |-> [p \in 0..4 |-> e.pr[p + 1]], minN |-> e.min_n, maxN |-> e.max_n, minS |-> e.min_s, maxS |-> e.max_s,
           all |-> SetOf(e.st.all), shs |-> SetOf(e.st.shs), generator |-> e.generator]
NoS == [none |-> TRUE]

TraceInit == l = 1 /\ ev = Null /\ st = NoS /\ pst = NoS /\ cf = NoS
TraceReset == /\ l <= Len(Trace) /\ Trace[l].ev = "Reset" /\ l' = l + 1 /\ ev' = Trace[l]
              /\ st' = ToS(Trace[l].st) /\ pst' = NoS /\ cf' = ToC(Trace[l])
TraceTxn == /\ l <= Len(Trace) /\ Trace[l].ev = "Txn38" /\ l' = l + 1 /\ ev' = Trace[l]
            /\ st' = ToS(Trace[l].st) /\ pst' = st /\ UNCHANGED cf
TraceOther == /\ l <= Len(Trace) /\ Trace[l].ev \notin {"Reset", "Txn38"} /\ l' = l + 1 /\ ev' = Trace[l]
              /\ UNCHANGED <<st, pst, cf>>
TraceNext == TraceReset \/ TraceTxn \/ TraceOther
TraceSpec == TraceInit /\ [][TraceNext]_vars

IsT(op) == ev.ev = "Txn38" /\ ev.op = op /\ ~IsKnown(ev)
PayOK == IsT("payfees") /\ ev.result = "ok"
(* the successor the model computes, with the free choices read from the real successor *)
Exp == AfterPayFees(pst, ev.round, cf, <<st.k, st.t>>, st.mbm, st.mbs, st.vc)
Core(s) == <<s.present, s.phase, s.start, s.restarts>>
Lists(s) == <<s.dkg, s.mpks, s.gsos, s.keep, s.waited>>
MB(s) == <<s.mbst, s.mbm, s.mbs>>

(* the phase advances exactly on schedule: not before its rounds have run; then to the next phase if *)
(* the move condition and phase function hold, else the DKG restarts at start; a payFees that fails  *)
(* (not the generator, wrong round) moves nothing                                                   *)
C38_PhaseSchedule ==
  /\ PayOK => Core(st) = Core(Exp)
  /\ (IsT("payfees") /\ ev.result # "ok") => st = pst
(* the lists follow the phase: set on the moves, cleared on restart and at the view change *)
C38_ListsFollow == PayOK => (Lists(st) = Lists(Exp) /\ st.prevM = Exp.prevM /\ st.prevS = Exp.prevS
                              /\ (Exp.dkg = pst.dkg => (st.k = pst.k /\ st.t = pst.t)))
(* a magic block is produced exactly by the publish -> wait move, from the miners that shared and the  *)
(* sharders that asked to stay, keeps a miner and a sharder of the previous set, and schedules the     *)
(* view change after the wait rounds                                                                   *)
C38_MagicBlock == PayOK =>
  IF MovesToWait(pst, ev.round, cf)
    THEN LET S == Stored(pst, ev.round) IN
         /\ MBMinersOK(st.mbm, S, cf) /\ MBShardersOK(st.mbs, S, cf)
         /\ HasPrev(st.mbm, pst.prevM) /\ HasPrev(st.mbs, pst.prevS)
         /\ st.mbst = ev.round + cf.pr[Wait] /\ st.vc = st.mbst
    ELSE MB(st) = MB(pst) /\ (st.vc # pst.vc => ev.round = pst.vc)
(* public keys: only in the contribute phase, by a DKG miner, once, of the expected size, under the sender *)
C38_MpkAccept == IsT("mpk") => st \in AfterMpk(pst, ev.by, ev.size)
(* sharder keep: only in the contribute phase, for a registered sharder *)
C38_KeepAccept == IsT("keep") => st \in AfterKeep(pst, ev.by, cf)
(* shares: only in the publish phase, by a DKG miner, once, with enough valid entries *)
C38_ShareAccept == IsT("sos") => st \in AfterSos(pst, ev.by, ev.n, ev.valid)
(* wait confirmations: only in the wait phase, by a DKG miner, once *)
C38_WaitAccept == IsT("wait") => st \in AfterWait(pst, ev.by)
(* in the share and publish phases every DKG miner has a stored key vector (shares are validated  *)
(* against the sender's own vector)                                                              *)
C38_ParticipantsHaveKeys == (ev.ev = "Txn38" /\ st.phase \in {Share, Publish}) => st.dkg \subseteq st.mpks
(* the generator's payFees with the right round is expected to succeed (else nothing is being driven) *)
HarnessPayFees == (ev.ev = "Txn38" /\ ev.op = "payfees" /\ ev.arg = "ok") => ev.result = "ok"
=============================================================================
