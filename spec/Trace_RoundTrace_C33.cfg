SPECIFICATION TraceSpec
CONSTANTS
  Miner = {"m1", "m2", "m3", "m4"}
  Self = "m1"
  T = 3
  NT = 3
  NGen = 2
  RestartMult = 2
  TocCap = 3
  Ahead = 5
  Confirm = 3
INVARIANTS
  C33_SeedFromThresholdShares C33_OnlyVerifiedSharesCounted
  HarnessFilter HarnessCur HarnessLFB HarnessRounds HarnessBlocks HarnessAtRest
POSTCONDITION Accepted
CHECK_DEADLOCK FALSE
