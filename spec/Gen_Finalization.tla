--------------------------- MODULE Gen_Finalization ---------------------------
(* Behaviour generator: TLC -simulate walks Finalization.tla and prints the    *)
(* operation list of each walk as JSON.  vdriver replays every list on a real  *)
(* chain.Chain: "add" = block.Block linked to its parent, put into the chain   *)
(* (and into its round's notarized list when n), "nota" = AddNotarizedBlock-   *)
(* ToRound later, "fin" = the real finalizeRound on that round.                *)
EXTENDS MC_Finalization, Json
CONSTANT GenLen
VARIABLES hist, done
GInit == Init /\ hist = <<>> /\ done = FALSE
Op(o, b, p, r, n) == [op |-> o, b |-> b, p |-> p, r |-> r, n |-> n]
G_Add == \E b \in Block, p \in Blocks, n \in BOOLEAN :
            /\ AddBlock(b, p, n)
            /\ (~n => Cardinality(Blocks \ nota) < MaxUnnotarized)
            /\ hist' = Append(hist, Op("add", b, p, RoundOf(b), n))
G_Nota == \E b \in Blocks : Notarize(b) /\ hist' = Append(hist, Op("nota", b, "", 0, TRUE))
\* finalizeRound of rounds that have (or are just above) blocks; repeated calls are allowed
G_Fin == \E r \in Confirm..MaxRound :
            /\ (InRound(r) # {} \/ InRound(r - 1) # {})
            /\ FinalizeRound(r)
            /\ hist' = Append(hist, Op("fin", "", "", r, FALSE))
\* a single closing step, so that exactly one behaviour is printed per walk
G_End == Len(hist) = GenLen /\ ~done /\ done' = TRUE /\ UNCHANGED <<vars, hist>>
GNext == (Len(hist) < GenLen /\ (G_Add \/ G_Nota \/ G_Fin) /\ UNCHANGED done) \/ G_End
GSpec == GInit /\ [][GNext]_<<vars, hist, done>>
GPrint == done => PrintT(<<"BEHAVIOUR", ToJson(hist)>>)
=============================================================================
