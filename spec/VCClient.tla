------------------------------ MODULE VCClient ------------------------------
(***************************************************************************)
(* The miner-side view-change / DKG client (miner/protocol_view_change.go,  *)
(* miner/protocol_view_chainge_main.go, miner/chain.go ViewChange,          *)
(* miner/protocol_bls.go SetDKGSFromStore, chaincore/chain/                 *)
(* protocol_view_change.go GetPhaseFromSharders / GetFromSharders /         *)
(* ConfirmTransaction) of several miners, composed with the miner           *)
(* contract's phase machine of ViewChange.tla.                              *)
(*                                                                         *)
(* Code-shaped: one action per critical section of the real code.          *)
(*   Poll(m)        chain.GetPhaseFromSharders: REST /getPhase, filter,     *)
(*                  non-blocking send into the 1-slot phase channel        *)
(*   LoopTake(m)    one iteration of miner.DKGProcess: the dispatch rules   *)
(*                  (already accepted / unexpected phase / retry share)    *)
(*                  and the phase function under viewChangeProcess.Lock:   *)
(*                  DKGProcessStart, ContributeMpk, sendSijsPrepare        *)
(*                  (+createSijs), PublishShareOrSigns, Wait               *)
(*   ShareRPC(m,j)  sendDKGShare to one peer: the peer's                   *)
(*                  SignShareRequestHandler under the PEER's lock, then    *)
(*                  setSecretShares under the sender's                     *)
(*   ShareEnd(m)    the tail of SendSijs (the failure rule) and the move   *)
(*   Confirm(m) / ConfirmFail(m)   chain.ConfirmTransaction found / gave up *)
(*   Adopt(m)       miner.Chain.ViewChange on the finalized block that     *)
(*                  carries the magic block: UpdateMagicBlock +            *)
(*                  SetDKGSFromStore + SetDKG                              *)
(* Environment: Block (the generator's payFees of the next round, with the *)
(* sharder's sharder_keep), Include (a submitted transaction is executed   *)
(* by the contract, in nonce order per sender), Drop (it never is), Sync   *)
(* (the lagging sharder catches up), message loss (a share request to or   *)
(* from a flaky miner fails), stale or missing REST answers, a poll that   *)
(* does not happen (no fairness).                                          *)
(*                                                                         *)
(* Every step is a FUNCTION After<Step>(c, ...) of the client record c of  *)
(* one miner (as in ViewChange.tla), so that the same definitions serve    *)
(* the exhaustive model (the actions below) and the validation of recorded *)
(* executions of the real code (Trace_VCClient.tla).                       *)
(*                                                                         *)
(* Features of the code as written, modelled as they are:                  *)
(*  - phase events reach the loop only through GetPhaseFromSharders        *)
(*    (chain.callViewChange, which would send the miner's own phase, is    *)
(*    never called), so every phase function runs with active = false and  *)
(*    reads the contract through the sharders' REST API;                   *)
(*  - the DKG summary is stored under the magic block NUMBER and is never  *)
(*    deleted: a cancelled view change leaves it behind and the next       *)
(*    cycle's magic block has the same number (constant StoreByNumber;     *)
(*    FALSE = the intended design: the start phase forgets the stored      *)
(*    summary of a cancelled cycle);                                       *)
(*  - SetDKGSFromStore prefers a stored share over a share revealed in the *)
(*    magic block and only requires T shares;                              *)
(*  - a share request to a peer that has not yet run its own share phase   *)
(*    fails ("don't have enough mpks yet") and is not retried unless more  *)
(*    than K requests were sent: the sender reveals that share in the      *)
(*    publish phase;                                                       *)
(*  - Wait (and SignShareRequestHandler) look the sender's key vector up   *)
(*    in the LOCAL copy without checking that it is there: a share revealed *)
(*    by a miner the local copy does not know (a stale REST answer in the  *)
(*    share phase) is a nil dereference, the DKG process panics            *)
(*    (lp = "crashed"; the handler's panic is recovered by the server);    *)
(*  - the contract accepts shares-or-signs with K-1 entries, so a magic    *)
(*    block may carry a miner for whom another member provided no share.   *)
(*                                                                         *)
(* Data abstraction.  A secret polynomial of miner j is identified by a    *)
(* number p >= 1 (the p-th MakeDKG of j); its public key vector (MPK) and  *)
(* every share derived from it carry the same number; a share validates    *)
(* against a key vector iff the numbers are equal (ThresholdSig.tla is the *)
(* algebra behind this; C34 binds it to the real library).  An entry of a  *)
(* shares-or-signs map is 0 (none), Sign (acknowledged by the receiver) or *)
(* p >= 1 (the share itself, revealed).                                    *)
(***************************************************************************)
EXTENDS VCClientDefs

VARIABLES
  S, mpkv, mpkp, sosv, mb,
  round,    \* round of the next block
  cycle,    \* number of the current DKG cycle (ghost)
  eff,      \* the magic block that came into force (carried by the block of round eff.sr), NoMB: none yet
  pool,     \* submitted, not yet executed transactions
  ntx,      \* transactions submitted so far, per miner (a transaction carries the sender's next nonce)
  lag,      \* what the lagging sharder serves: [S, mpkv, mb]
  nf,       \* environment faults so far
  cl        \* the clients: miner -> record

vars == <<S, mpkv, mpkp, sosv, mb, round, cycle, eff, pool, ntx, lag, nf, cl>>
scvars == <<S, mpkv, mpkp, sosv, mb, round, cycle, eff>>
Fault == nf < MaxFaults /\ nf' = nf + 1
NoFault == UNCHANGED nf

Init ==
  /\ S = S0 /\ mpkv = Zero /\ mpkp = FALSE /\ sosv = ZeroSos /\ mb = NoMB /\ round = 1 /\ cycle = 1 /\ eff = NoMB
  /\ pool = {} /\ ntx = Zero /\ lag = [S |-> S0, mpkv |-> Zero, mpkp |-> FALSE, mb |-> NoMB] /\ nf = 0
  /\ cl = [m \in Miner |-> C0]

(* the sharder's sharder_keep arrives in the contribute phase *)
WithKeep(s) == IF s.present /\ s.phase = Contribute THEN [s EXCEPT !.keep = Shs] ELSE s

Block ==
  /\ round <= MaxRound /\ eff = NoMB          \* one view change is followed
  /\ LET Sk == WithKeep(S)
         St == Stored(Sk, round)
         mbm == MBCandidates(St)
         S1 == PhaseStep(Sk, round, CONF, <<K0, T0>>, mbm, Shs)
         restarted == St.present /\ S1.restarts = St.restarts + 1
         toWait == MovesToWait(Sk, round, CONF)
         waitDone == St.phase = Wait /\ S1.phase = Start
         atVC == round = S1.vc
         holds == atVC /\ ViewChangeHolds(S1, CONF)
         newCycle == restarted \/ waitDone
     IN /\ (newCycle => cycle < MaxCycle)
        /\ S' = IF atVC THEN Adjust(S1, CONF, 0) ELSE S1
        /\ mpkv' = IF restarted \/ toWait THEN Zero ELSE mpkv
        /\ mpkp' = (mpkp \/ restarted \/ toWait)
        /\ sosv' = IF restarted \/ toWait THEN ZeroSos ELSE sosv
        /\ mb' = IF toWait THEN MakeMB(round, mbm, mpkv, sosv, cycle, CONF) ELSE mb
        /\ eff' = IF holds THEN mb' ELSE eff
        /\ cycle' = IF newCycle THEN cycle + 1 ELSE cycle
  /\ round' = round + 1
  /\ UNCHANGED <<pool, ntx, lag, nf, cl>>

(* transactions of one sender are executed in the order of their nonces *)
Oldest(t) == \A u \in pool : u.from = t.from => u.seq >= t.seq
Include(t) ==
  /\ t \in pool /\ Oldest(t) /\ pool' = pool \ {t}
  /\ IF TxnAccepted(S, mpkv, t)
       THEN /\ S' = CASE t.kind = "mpk" -> [S EXCEPT !.mpks = @ \cup {t.from}]
                      [] t.kind = "sos" -> [S EXCEPT !.gsos = @ \cup {t.from}]
                      [] t.kind = "wait" -> [S EXCEPT !.waited = @ \cup {t.from}]
            /\ mpkv' = IF t.kind = "mpk" THEN [mpkv EXCEPT ![t.from] = t.poly] ELSE mpkv
            /\ mpkp' = (mpkp \/ t.kind = "mpk")
            /\ sosv' = IF t.kind = "sos" THEN [sosv EXCEPT ![t.from] = t.sos] ELSE sosv
       ELSE UNCHANGED <<S, mpkv, mpkp, sosv>>
  /\ UNCHANGED <<mb, round, cycle, eff, ntx, lag, nf, cl>>
(* a transaction that never gets into a block (it is in the pool without being waited for only after a failed *)
(* confirmation, which was the fault)                                                                      *)
Drop(t) == t \in pool /\ pool' = pool \ {t} /\ NoFault /\ UNCHANGED <<scvars, ntx, lag, cl>>

Cur == [S |-> S, mpkv |-> mpkv, mpkp |-> mpkp, mb |-> mb]
Views == IF LagOn THEN {Cur, lag} ELSE {Cur}
RViews == IF RestMayFail THEN Views \cup {NoView} ELSE Views
Sync == LagOn /\ lag # Cur /\ lag' = Cur /\ UNCHANGED <<scvars, pool, ntx, nf, cl>>

PollV(m, v) ==
  /\ cl[m].inbox = NoPn /\ PollPn(cl[m], v) # NoPn
  /\ cl' = [cl EXCEPT ![m] = AfterPoll(@, v)]
  /\ IF v = Cur THEN NoFault ELSE Fault
  /\ UNCHANGED <<scvars, pool, ntx, lag>>
Poll(m) == \E v \in Views : PollV(m, v)

LoopTakeV(m, v) ==
  /\ cl[m].lp = "idle" /\ cl[m].inbox # NoPn
  /\ LET c == AfterTake(cl[m], m, v, ntx[m] + 1)
         sent == c.lp = "confirm"
     IN /\ (TakeKind(cl[m]) # "run" \/ cl[m].inbox.phase = Start) => v = Cur      \* no REST call is made
        /\ IF v = Cur THEN NoFault ELSE Fault
        /\ cl' = [cl EXCEPT ![m] = c]
        /\ pool' = IF sent THEN pool \cup {c.ltx} ELSE pool
        /\ ntx' = IF sent THEN [ntx EXCEPT ![m] = @ + 1] ELSE ntx
  /\ UNCHANGED <<scvars, lag>>
LoopTake(m) == \E v \in RViews : LoopTakeV(m, v)

ShareRPCV(m, j, ok) ==
  /\ cl[m].lp = "sharing" /\ j \in cl[m].todo
  /\ ok => PeerAccepts(cl[m], cl[j], m, j)
  /\ IF ~ok /\ PeerAccepts(cl[m], cl[j], m, j) THEN (m \in Flaky \/ j \in Flaky) /\ Fault ELSE NoFault
  /\ cl' = [cl EXCEPT ![m] = AfterRPCSender(@, j, ok), ![j] = AfterRPCPeer(@, m, cl[m].vdkg, ok)]
  /\ UNCHANGED <<scvars, pool, ntx, lag>>
ShareRPC(m, j) == \E ok \in BOOLEAN : ShareRPCV(m, j, ok)

ShareEnd(m) == /\ cl[m].lp = "sharing" /\ cl[m].todo = {}
               /\ cl' = [cl EXCEPT ![m] = AfterShareEnd(@)] /\ UNCHANGED <<scvars, pool, ntx, lag, nf>>
(* found on a sharder: the transaction was executed, whatever its result *)
Confirm(m) == /\ cl[m].lp = "confirm" /\ cl[m].ltx \notin pool
              /\ cl' = [cl EXCEPT ![m] = AfterConfirm(@)] /\ UNCHANGED <<scvars, pool, ntx, lag, nf>>
ConfirmFail(m) == /\ cl[m].lp = "confirm" /\ Fault
                  /\ cl' = [cl EXCEPT ![m] = AfterConfirmFail(@)] /\ UNCHANGED <<scvars, pool, ntx, lag>>
Adopt(m) == /\ eff # NoMB /\ ~cl[m].adopted
            /\ cl' = [cl EXCEPT ![m] = AfterAdopt(@, m, eff)] /\ UNCHANGED <<scvars, pool, ntx, lag, nf>>

Next ==
  \/ Block \/ Sync \/ (\E t \in pool : Include(t) \/ Drop(t))
  \/ \E m \in Miner : Poll(m) \/ LoopTake(m) \/ ShareEnd(m) \/ Confirm(m) \/ ConfirmFail(m) \/ Adopt(m)
  \/ \E m \in Miner, j \in Miner : ShareRPC(m, j)
Spec == Init /\ [][Next]_vars

-----------------------------------------------------------------------------
(* Design properties                                                       *)

TypeOK ==
  /\ \A m \in Miner : LET c == cl[m] IN
       /\ c.cph \in -1..4 /\ c.lp \in {"idle", "sharing", "confirm", "crashed"}
       /\ c.vdkg \in 0..c.npoly /\ (c.vdkg = 0 => c.vsh = Zero /\ ~c.sij)
  /\ S.mpks = Dom(mpkv) /\ S.gsos = {m \in Miner : sosv[m] # Zero}

(* ... for every miner that completed the wait phase of the cycle that produced the magic block *)
KeyShareConsistent == \A m \in Miner : (cl[m].rdkg.set /\ cl[m].store.cyc = eff.cyc) => Consistent(cl[m], eff)
(* ... for every miner at all ("no miner uses a DKG of a cancelled cycle"): refuted in the code-as-written   *)
(* configuration (a summary stored in a cancelled cycle is used), holds when the start phase forgets it     *)
NoStaleDKG == \A m \in Miner : cl[m].rdkg.set => Consistent(cl[m], eff)
(* every miner switches at the same round, to the same magic block *)
SameSwitch == \A m \in Miner : /\ (cl[m].rdkg.set => (eff # NoMB /\ cl[m].rdkg.sr = eff.sr /\ m \in eff.miners))
                               /\ (cl[m].adopted => cl[m].cmbsr = eff.sr)
(* the magic block only carries miners whose key vector it carries, with a share (or its acknowledgement) *)
(* for every other member                                                                                *)
MagicBlockComplete == mb # NoMB => \A j \in mb.miners : mb.mpk[j] # 0 /\ \A i \in mb.miners \ {j} : mb.sos[j][i] # 0
(* what the contract stored as revealed shares belongs to the sender's stored key vector *)
SosOfStoredVector == \A j \in S.gsos : \A i \in Miner : sosv[j][i] > 0 => sosv[j][i] = mpkv[j]
NoCrash == \A m \in Miner : cl[m].lp # "crashed"
(* if everybody in the magic block confirmed the wait phase of its cycle, everybody installs a consistent DKG *)
AllWaitedAllInstall ==
  (eff # NoMB /\ \A m \in eff.miners : cl[m].adopted /\ cl[m].store.set /\ cl[m].store.cyc = eff.cyc)
    => \A m \in eff.miners : cl[m].rdkg.set /\ Consistent(cl[m], eff)
(* an acknowledgement in the magic block that came into force stands for a share of the right polynomial at *)
(* the receiver, if the receiver completed the wait phase of that cycle                                    *)
AckMeansShare ==
  eff # NoMB => \A j \in eff.miners, i \in eff.miners :
     (i # j /\ eff.sos[j][i] = Sign /\ cl[i].store.set /\ cl[i].store.cyc = eff.cyc) => cl[i].store.shares[j] = eff.mpk[j]
=============================================================================
