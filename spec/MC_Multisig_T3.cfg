SPECIFICATION MCSpec
CONSTANTS
  Signer = {"s1", "s2", "s3"}
  Stranger = {"x"}
  T = 3
  Transfers <- MCTransfers
  Expiry = 2
  InitBal = 5
  MaxTime = 5
  MaxStep = 2
INVARIANTS TypeOK C21_Once C21_Threshold C21_Distinct C21_PaidOnExec C21_ExecFlag C21_BlockClock
CHECK_DEADLOCK FALSE
