---------------------------- MODULE ThresholdSig ----------------------------
(***************************************************************************)
(* C34 - threshold key generation and signing (chaincore/threshold/bls     *)
(* dkg.go; core/encryption bls0chain_threshold.go, bls0chain.go split      *)
(* keys; chaincore/block sos.go), over the toy group of ToyGroup.tla.      *)
(*                                                                         *)
(* kind = "dkg"    every party i deals a polynomial f_i of degree t-1      *)
(*                 (MakeDKG: msk = coefficients, mpk = their public keys); *)
(*                 share for j = f_i(id_j) (ComputeDKGKeyShare);           *)
(*                 ValidateShare(mpk_i, s, id_j): pk(s) = Sum_k mpk_i[k] id_j^k;   *)
(*                 S_j = Sum_i f_i(id_j) (AggregateSecretKeyShares);       *)
(*                 P_j = Sum_i Sum_k mpk_i[k] id_j^k (AggregatePublicKeyShares);   *)
(*                 group secret Sum_i f_i(0); RecoverGroupSig = Lagrange   *)
(*                 interpolation at 0 of the signature shares.             *)
(* kind = "client" BLS0GenerateThresholdKeyShares(t, n, key): ONE dealer,  *)
(*                 f(0) = key, ids 1..n; Reconstruct = the same recovery.  *)
(* kind = "split"  GenerateSplitKeys(k): k additive parts of the primary   *)
(*                 key; AggregateSignatures adds the partial signatures.   *)
(* kind = "sos"    ShareOrSigns.Validate: every entry of a dealer is a     *)
(*                 share (checked with ValidateShare) or a signature of    *)
(*                 the receiver; all must be good; returns the receivers   *)
(*                 whose SHARE was revealed.                                *)
(***************************************************************************)
EXTENDS ToyGroup, TLC

CONSTANTS P,         \* prime
          MaxN, MaxT,
          IdSeqs,    \* allowed sequences of party ids (pairwise distinct, non-zero mod P), any length >= MaxN
          CoefVals,  \* coefficient values the dealers choose from
          Msgs,      \* message scalars (non-zero)
          Kinds,     \* subset of {"dkg", "client", "split", "sos"}
          TamperBy   \* additive alterations of a share

VARIABLES kind, phase,
          t, n, nd,     \* threshold, parties, dealers (n for dkg, 1 otherwise)
          ids,          \* party ids
          polys,        \* polys[i] = coefficients of dealer i (constant term first); for "split": the parts
          h,            \* message
          tam,          \* <<>> or <<i, j, d>>: share of dealer i for party j altered by d
          seq,          \* sequence of parties whose signature shares are combined
          ent           \* "sos": ent[j] \in {"share_ok","share_bad","sign_ok","sign_bad","nil"}
vars == <<kind, phase, t, n, nd, ids, polys, h, tam, seq, ent>>

Parties == 1..n
Dealers == 1..nd
(* injective sequences over a set, of a given length *)
InjSeqs(S, k) == {s \in [1..k -> S] : \A a, b \in 1..k : a # b => s[a] # s[b]}

(* ---- the algebra --------------------------------------------------------- *)
Share(i, j) == Eval(polys[i], ids[j], P)                      \* ComputeDKGKeyShare
PubPoly(i) == polys[i]                                        \* toy: public key of scalar s is s
ValidateShare(A, s, id) == M(s, P) = Eval(A, id, P)           \* pk(s) = Sum_k A[k] id^(k-1)
SecretOf(j) == SumOver([i \in Dealers |-> Share(i, j)], Dealers, P)              \* S_j
PublicOf(j) == SumOver([i \in Dealers |-> Eval(PubPoly(i), ids[j], P)], Dealers, P)  \* gmpk[id_j]
GroupSecret == SumOver([i \in Dealers |-> polys[i][1]], Dealers, P)
GroupPublic == GroupSecret
SigShare(j) == Sig(SecretOf(j), h, P)
Recovered(sq) == Recover([k \in 1..Len(sq) |-> ids[sq[k]]], [k \in 1..Len(sq) |-> SigShare(sq[k])], P)
(* the aggregated polynomial F = Sum_i f_i, S_j = F(id_j) *)
AggPoly == [k \in 1..t |-> SumOver([i \in Dealers |-> polys[i][k]], Dealers, P)]

(* ---- scenarios ------------------------------------------------------------ *)
Init ==
  /\ kind \in Kinds /\ phase = "deal"
  /\ t \in 1..MaxT /\ n \in 1..MaxN /\ t <= n
  /\ nd = (IF kind = "dkg" THEN n ELSE 1)
  /\ ids \in (IF kind \in {"client", "split"} THEN {[j \in 1..n |-> j]} ELSE {SubSeq(s, 1, n) : s \in IdSeqs})
  /\ (kind = "split" => t = n)              \* all parts are needed
  /\ polys = <<>> /\ h \in Msgs /\ tam = <<>> /\ seq = <<>> /\ ent = <<>>

(* one dealer publishes its polynomial (GetMasterSecretKey(t)) *)
Deal(c) ==
  /\ phase = "deal" /\ kind # "split" /\ Len(polys) < nd /\ c \in [1..t -> CoefVals]
  /\ polys' = Append(polys, c)
  /\ phase' = (IF Len(polys) + 1 = nd THEN "dealt" ELSE "deal")
  /\ UNCHANGED <<kind, t, n, nd, ids, h, tam, seq, ent>>
(* GenerateSplitKeys: n-1 free parts, the last one = primary - their sum; polys[1] = the parts *)
Split(primary, free) ==
  /\ phase = "deal" /\ kind = "split" /\ primary \in CoefVals /\ free \in [1..(n - 1) -> CoefVals]
  /\ polys' = << [k \in 1..n |-> IF k < n THEN free[k] ELSE M(primary - SumSeq(free, 1, P), P)] >>
  /\ phase' = "dealt"
  /\ UNCHANGED <<kind, t, n, nd, ids, h, tam, seq, ent>>

(* receiver j checks the share of dealer i, possibly altered in transit *)
CheckShares(tm) ==
  /\ phase = "dealt" /\ kind = "dkg"
  /\ tm \in {<<>>} \cup {<<i, j, d>> : i \in Dealers, j \in Parties, d \in TamperBy}
  /\ tam' = tm /\ phase' = "checked"
  /\ UNCHANGED <<kind, t, n, nd, ids, polys, h, seq, ent>>
(* signature shares of the parties in sq, in this order, are combined *)
Combine(sq) ==
  /\ phase = "dealt" /\ kind \in {"dkg", "client", "split"}
  /\ \E k \in 1..n : sq \in InjSeqs(Parties, k)
  /\ seq' = sq /\ phase' = "combined"
  /\ UNCHANGED <<kind, t, n, nd, ids, polys, h, tam, ent>>
(* the dealer reveals, per receiver, a share or the receiver's signature *)
SosValidate(e) ==
  /\ phase = "dealt" /\ kind = "sos"
  /\ e \in [Parties -> {"share_ok", "share_bad", "sign_ok", "sign_bad", "nil"}]
  /\ ent' = e /\ phase' = "sos_checked"
  /\ UNCHANGED <<kind, t, n, nd, ids, polys, h, tam, seq>>

(* (the phase guards are repeated in front of the quantifiers so that TLC does not enumerate disabled choices) *)
AnyDeal == phase = "deal" /\ kind # "split" /\ \E c \in [1..t -> CoefVals] : Deal(c)
AnySplit == phase = "deal" /\ kind = "split" /\ \E pr \in CoefVals : \E f \in [1..(n - 1) -> CoefVals] : Split(pr, f)
AnyCheckShares == phase = "dealt" /\ kind = "dkg" /\
     \E tm \in {<<>>} \cup {<<i, j, d>> : i \in Dealers, j \in Parties, d \in TamperBy} : CheckShares(tm)
AnyCombine == phase = "dealt" /\ kind \in {"dkg", "client", "split"} /\ \E k \in 1..n : \E sq \in InjSeqs(Parties, k) : Combine(sq)
AnySosValidate == phase = "dealt" /\ kind = "sos" /\
     \E e \in [Parties -> {"share_ok", "share_bad", "sign_ok", "sign_bad", "nil"}] : SosValidate(e)
Next == AnyDeal \/ AnySplit \/ AnyCheckShares \/ AnyCombine \/ AnySosValidate
Spec == Init /\ [][Next]_vars

(* ---- what the code decides (the verdicts the real functions must return) -- *)
Dealt == phase \in {"dealt", "checked", "combined", "sos_checked"}
(* the share that travels from i to j *)
Travelling(i, j) == IF tam # <<>> /\ tam[1] = i /\ tam[2] = j THEN M(Share(i, j) + tam[3], P) ELSE Share(i, j)
ShareVerdict(i, j) == ValidateShare(PubPoly(i), Travelling(i, j), ids[j])
(* combining shares: threshold recovery (dkg, client) or plain addition (split) *)
CombinedSig == IF kind = "split" THEN SumOver([k \in 1..Len(seq) |-> Sig(polys[1][seq[k]], h, P)], 1..Len(seq), P)
               ELSE Recovered(seq)
MasterKey == IF kind = "split" THEN SumSeq(polys[1], 1, P) ELSE GroupSecret
CombineVerdict == Ver(CombinedSig, MasterKey, h, P)
(* ShareOrSigns.Validate of dealer 1: (ok, receivers whose share was revealed); the receiver's own *)
(* signing key is any non-zero scalar, here its id                                                   *)
EntryGood(j) ==
  CASE ent[j] = "share_ok"  -> ValidateShare(PubPoly(1), Share(1, j), ids[j])
    [] ent[j] = "share_bad" -> ValidateShare(PubPoly(1), Share(1, j) + 1, ids[j])
    [] ent[j] = "sign_ok"   -> Ver(Sig(ids[j], h, P), ids[j], h, P)
    [] ent[j] = "sign_bad"  -> Ver(Sig(ids[j], h, P) + 1, ids[j], h, P)
    [] OTHER                -> TRUE
SosOK == \A j \in Parties : EntryGood(j)
SosKeys == {j \in Parties : ent[j] = "share_ok"}

(* ---- C34 on the model ------------------------------------------------------ *)
TypeOK == /\ phase \in {"deal", "dealt", "checked", "combined", "sos_checked"} /\ t <= n
          /\ Distinct(ids) /\ \A j \in Parties : M(ids[j], P) # 0
HonestSharesValidate == (phase = "dealt" /\ kind # "split") =>
    \A i \in Dealers, j \in Parties : ValidateShare(PubPoly(i), Share(i, j), ids[j])
AlteredSharesFail == phase = "checked" =>
    \A i \in Dealers, j \in Parties : (ShareVerdict(i, j) <=> (tam = <<>> \/ tam[1] # i \/ tam[2] # j))
PartyKeysVerify == (phase = "dealt" /\ kind = "dkg") => \A j \in Parties : Ver(SigShare(j), PublicOf(j), h, P)
(* any t (or more) shares, in any order, give THE group signature; it verifies under the group key *)
EnoughSharesRecover == (phase = "combined" /\ Len(seq) >= t) =>
    /\ CombinedSig = Sig(MasterKey, h, P)
    /\ CombineVerdict
(* fewer than t shares do not determine the signature: another polynomial of degree < t agrees on *)
(* the revealed points and has a different constant term (information-theoretic form of "< t do not") *)
FewerSharesUndetermined == (phase = "combined" /\ kind \in {"dkg", "client"} /\ Len(seq) < t) =>
    \E F \in [1..t -> 0..(P - 1)] :
       /\ \A k \in 1..Len(seq) : Eval(F, ids[seq[k]], P) = Eval(AggPoly, ids[seq[k]], P)
       /\ F[1] # AggPoly[1]
SplitNeedsAll == (phase = "combined" /\ kind = "split" /\ Len(seq) < n
                  /\ SumOver([k \in Parties |-> IF \E m \in 1..Len(seq) : seq[m] = k THEN 0 ELSE polys[1][k]], Parties, P) # 0)
                 => ~CombineVerdict
SosExact == phase = "sos_checked" => (SosOK <=> \A j \in Parties : ent[j] \notin {"share_bad", "sign_bad"})
=============================================================================
