----------------------------- MODULE Activation -----------------------------
(***************************************************************************)
(* C43: hard-fork switch (chaincore/chain/state/activator.go).             *)
(* fork[name] is the round recorded for the fork by minersc add_hardfork   *)
(* (owner only; recording again overwrites) or NoFork.                     *)
(* WithActivation(name, r) runs `before` iff the fork is not recorded or   *)
(* r < fork[name], else `after`.  Inclusive = TRUE is the slip "r <= fork" *)
(* (kept to show the property catches it).                                 *)
(***************************************************************************)
EXTENDS Integers, FiniteSets
CONSTANTS Names, Rounds, NoFork, Inclusive, MaxOps
VARIABLES fork, last, nops
vars == <<fork, last, nops>>

Branch(f, name, r) == IF f[name] = NoFork THEN "before"
                      ELSE IF (IF Inclusive THEN r <= f[name] ELSE r < f[name]) THEN "before" ELSE "after"

Init == fork = [n \in Names |-> NoFork] /\ last = [op |-> "none"] /\ nops = 0
Record(n, r, owner) ==
  /\ nops < MaxOps /\ nops' = nops + 1
  /\ fork' = IF owner THEN [fork EXCEPT ![n] = r] ELSE fork
  /\ last' = [op |-> "record", name |-> n, round |-> r, ok |-> owner]
Probe(n, r) ==
  /\ nops < MaxOps /\ nops' = nops + 1 /\ UNCHANGED fork
  /\ last' = [op |-> "probe", name |-> n, round |-> r, branch |-> Branch(fork, n, r)]
A_Record == \E n \in Names, r \in Rounds, o \in BOOLEAN : Record(n, r, o)
A_Probe == \E n \in Names, r \in Rounds : Probe(n, r)
Next == A_Record \/ A_Probe
Spec == Init /\ [][Next]_vars

IsProbe == last.op = "probe"
C43_MissingFork == (IsProbe /\ fork[last.name] = NoFork) => last.branch = "before"
C43_BeforeFork  == (IsProbe /\ fork[last.name] # NoFork /\ last.round < fork[last.name]) => last.branch = "before"
C43_AfterFork   == (IsProbe /\ fork[last.name] # NoFork /\ last.round >= fork[last.name]) => last.branch = "after"
C43_OnlyOwnerRecords == [][\A n \in Names : fork'[n] # fork[n] => (last'.op = "record" /\ last'.ok /\ last'.name = n)]_vars
=============================================================================
