----------------------------- MODULE Activation -----------------------------
(***************************************************************************)
(* C43: hard-fork switch (chaincore/chain/state/activator.go).             *)
(* fork[name] is the round recorded for the fork by minersc add_hardfork   *)
(* (owner only; recording again overwrites) or NoFork.                     *)
(* WithActivation(name, r) runs `before` iff the fork is not recorded or   *)
(* r < fork[name], else `after`.  Inclusive = TRUE is the slip "r <= fork" *)
(* (kept to show the property catches it).                                 *)
(*                                                                         *)
(* The recorded round is read THROUGH THE NODE'S STATE CACHE: `cache` maps *)
(* the names it holds to a round; a lookup that misses reads the stored    *)
(* fork and fills the cache, add_hardfork writes both, Restart (node       *)
(* restart / cache gap) empties it while the stored forks persist.  The    *)
(* property speaks about the STORED round whatever the cache went through. *)
(* Aliased = TRUE is the slip "entries filled by a lookup share one        *)
(* recycled object": a later miss-fill overwrites the earlier filled       *)
(* entries (kept to show the property catches it: needs two forks at       *)
(* different rounds, a restart, two lookups and a third).                  *)
(***************************************************************************)
EXTENDS Integers, FiniteSets
CONSTANTS Names, Rounds, NoFork, Inclusive, MaxOps, Aliased
VARIABLES fork, cache, pooled, last, nops
vars == <<fork, cache, pooled, last, nops>>

BranchOf(v, r) == IF v = NoFork THEN "before"
                  ELSE IF (IF Inclusive THEN r <= v ELSE r < v) THEN "before" ELSE "after"
Branch(f, name, r) == BranchOf(f[name], r)
Lookup(n) == IF n \in DOMAIN cache THEN cache[n] ELSE fork[n]
With(c, n, v) == [m \in DOMAIN c \cup {n} |-> IF m = n THEN v ELSE c[m]]

Init == fork = [n \in Names |-> NoFork] /\ cache = <<>> /\ pooled = {} /\ last = [op |-> "none"] /\ nops = 0
Record(n, r, owner) ==
  /\ nops < MaxOps /\ nops' = nops + 1
  /\ fork' = IF owner THEN [fork EXCEPT ![n] = r] ELSE fork
  /\ cache' = IF owner THEN With(cache, n, r) ELSE cache          \* the insert goes through the cache
  /\ pooled' = IF owner THEN pooled \ {n} ELSE pooled
  /\ last' = [op |-> "record", name |-> n, round |-> r, ok |-> owner]
Probe(n, r) ==
  /\ nops < MaxOps /\ nops' = nops + 1 /\ UNCHANGED fork
  /\ IF n \in DOMAIN cache
       THEN UNCHANGED <<cache, pooled>>
       ELSE /\ cache' = [m \in DOMAIN cache \cup {n} |->
                          IF m = n \/ (Aliased /\ m \in pooled) THEN fork[n] ELSE cache[m]]
            /\ pooled' = pooled \cup {n}
  /\ last' = [op |-> "probe", name |-> n, round |-> r, branch |-> BranchOf(Lookup(n), r)]
Restart ==
  /\ nops < MaxOps /\ nops' = nops + 1 /\ UNCHANGED fork
  /\ cache' = <<>> /\ pooled' = {}
  /\ last' = [op |-> "restart"]
A_Record == \E n \in Names, r \in Rounds, o \in BOOLEAN : Record(n, r, o)
A_Probe == \E n \in Names, r \in Rounds : Probe(n, r)
A_Restart == Restart
Next == A_Record \/ A_Probe \/ A_Restart
Spec == Init /\ [][Next]_vars

IsProbe == last.op = "probe"
C43_MissingFork == (IsProbe /\ fork[last.name] = NoFork) => last.branch = "before"
C43_BeforeFork  == (IsProbe /\ fork[last.name] # NoFork /\ last.round < fork[last.name]) => last.branch = "before"
C43_AfterFork   == (IsProbe /\ fork[last.name] # NoFork /\ last.round >= fork[last.name]) => last.branch = "after"
C43_OnlyOwnerRecords == [][\A n \in Names : fork'[n] # fork[n] => (last'.op = "record" /\ last'.ok /\ last'.name = n)]_vars
(* what the cache holds is what is stored *)
CacheCoherent == \A n \in DOMAIN cache : cache[n] = fork[n]
=============================================================================
