SPECIFICATION GenSpec
CONSTANTS
  P = 7
  MaxN = 3
  KeyVals = {1, 2, 3, 4}
  MsgVals = {1, 2, 4, 6}
  WrongKeys = {5}
  WrongMsgs = {3}
  Deltas = {1, 5, 6}
  SameModes = {TRUE, FALSE}
  MaxTouched = 3
  GenMaxMixed = 2
  GenWithRepeat = FALSE
  MaxPasses = 1
  ReKeys = {}
  AsCoded = TRUE
INVARIANT GPrint
CHECK_DEADLOCK FALSE
