---------------------------- MODULE MC_RoundNB ----------------------------
EXTENDS RoundNB
\* hashes h1,h2 share rank 0; every hash exists as two distinct objects (a, b)
B(id, h, r) == [id |-> id, hash |-> h, rank |-> r]
MCBlocks == {B(1, "h1", 0), B(2, "h1", 0), B(3, "h2", 0), B(4, "h2", 0),
             B(5, "h3", 1), B(6, "h3", 1), B(7, "h4", 2), B(8, "h4", 2)}
=============================================================================
