SPECIFICATION MCSpec
CONSTANTS
  Dest = {"d1", "d2"}
  MaxAmt = 5
  MaxExtra = 1
  Durs = {3, 5}
  MaxDelay = 1
  MaxTime = 7
  MaxStep = 2
INVARIANTS TypeOK C16_AtMostAmount C16_Schedule C16_FullAtExpiry C16_FullAtExpiryDest C16_Backed C16_OwnerCan NothingLost
PROPERTIES C16_Monotone
CHECK_DEADLOCK FALSE
