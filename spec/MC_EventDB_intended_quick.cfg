SPECIFICATION MSpec
CONSTANTS
  Client = {"a1", "c2"}
  Eth = {"e1", "e2"}
  Auths = {"a1", "a2", "a3"}
  SignerSets <- Sets2
  MaxBurns = 3
  MaxMints = 1
  MaxBlocks = 1
  MaxOps = 99
  Merger = "append"
  TicketStore = "all"
  BurnsFirst = FALSE
  MintKey = "minter"

INVARIANTS C20_MergeKeepsAll C20_TicketPerBurn C20_BurnTotals C20_MintTotals
CHECK_DEADLOCK FALSE
