---------------------------- MODULE Gen_RoundFSM ----------------------------
(* Behaviour generator for C37.  TLC enumerates (while evaluating the initial  *)
(* predicate, once)                                                            *)
(*   - EVERY sequence of exactly L operations over SeqOps (cap = 0) and over   *)
(*     TocSeqOps (for each cap in Caps), L = the -depth given to TLC           *)
(*     (the driver logs every prefix, so this is every sequence of length <= L)*)
(*   - every unordered pair of ConcOps after each setup in PairSetups, and     *)
(*     every multiset of three ConcOpsSmall after each setup in TripleSetups,  *)
(*     to be run on goroutines (call-start / call-end histories).              *)
(* and prints each as one BEHAVIOUR line; vdriver replays them on a real       *)
(* round.Round.  AddShare tags (v) are replaced by the driver with the step    *)
(* position so that two shares of one miner are distinguishable.               *)
EXTENDS Integers, Sequences, TLC, Json
VARIABLE g

O(t, v, m) == [t |-> t, v |-> v, m |-> m]

L == TLCGet("config").depth

SeqOps == {O("SetPhase", 1, ""), O("SetPhase", 3, ""), O("SetPhase", 4, ""), O("ResetPhase", 1, ""),
           O("Restart", 0, ""), O("AddShare", 0, "m1"), O("AddShare", 0, "m2"), O("AddShare", 0, "m3"),
           O("AddNB", 0, ""), O("SetToc", 2, ""), O("IncToc", 0, ""),
           O("SetFinalizing", 0, ""), O("SetFinalized", 0, ""), O("Finalize", 0, ""),
           O("ResetIfNot", 0, ""), O("ResetFin", 0, "")}
TocSeqOps == {O("SetToc", 1, ""), O("SetToc", 2, ""), O("SetToc", 3, ""), O("IncToc", 0, ""),
              O("Vote", 3, "m2"), O("Vote", 5, "m1"), O("Vote", 2, "m3")}
Caps == {0, 1}

ConcOps == <<O("SetPhase", 1, ""), O("SetPhase", 3, ""), O("ResetPhase", 0, ""), O("GetPhase", 0, ""),
             O("Restart", 0, ""), O("AddShare", 0, "m1"), O("AddShare", 0, "m2"), O("AddShare", 0, "m3"),
             O("AddNB", 0, ""), O("SetToc", 1, ""), O("SetToc", 2, ""), O("IncToc", 0, ""), O("GetToc", 0, ""),
             O("SetFinalizing", 0, ""), O("SetFinalized", 0, ""), O("ResetIfNot", 0, ""), O("ResetFin", 0, ""),
             O("IsFinalized", 0, "")>>
PairSetups == {<<>>, <<O("SetFinalized", 0, "")>>, <<O("AddShare", 0, "m1")>>, <<O("SetPhase", 3, "")>>}
ConcOpsSmall == <<O("SetPhase", 1, ""), O("SetPhase", 3, ""), O("ResetPhase", 0, ""), O("Restart", 0, ""),
                  O("AddShare", 0, "m1"), O("AddShare", 0, "m2"), O("AddShare", 0, "m3"), O("AddNB", 0, ""),
                  O("SetFinalized", 0, ""), O("ResetIfNot", 0, "")>>
TripleSetups == {<<>>, <<O("AddShare", 0, "m3")>>}

B(x) == PrintT(<<"BEHAVIOUR", ToJson(x)>>)
\* "hot" scenarios: two embedded setPhase calls with different targets run concurrently - the
\* schedules in which the step machine (code as written, AtomicSetPhase = FALSE) lets the phase move
\* backwards; the driver repeats them more often.
Tgt(o) == CASE o.t = "SetPhase" -> o.v [] o.t = "AddNB" -> 3 [] OTHER -> 0
Hot(procs) == IF \E i, j \in 1..Len(procs) : i # j /\ Tgt(procs[i][1]) > 0 /\ Tgt(procs[j][1]) > 0
                                               /\ Tgt(procs[i][1]) # Tgt(procs[j][1]) THEN 1 ELSE 0
Beh(k, cap, setup, procs) == [k |-> k, cap |-> cap, setup |-> setup, procs |-> procs,
                              hot |-> IF k = "conc" THEN Hot(procs) ELSE 0]

Printed ==
  /\ \A s \in [1..L -> SeqOps] : B(Beh("seq", 0, s, <<>>))
  /\ \A c \in Caps : \A s \in [1..L -> TocSeqOps] : B(Beh("seq", c, s, <<>>))
  /\ \A su \in PairSetups : \A i \in 1..Len(ConcOps) : \A j \in i..Len(ConcOps) :
        B(Beh("conc", 1, su, << <<ConcOps[i]>>, <<ConcOps[j]>> >>))
  /\ \A su \in TripleSetups : \A i \in 1..Len(ConcOpsSmall) : \A j \in i..Len(ConcOpsSmall) : \A k \in j..Len(ConcOpsSmall) :
        B(Beh("conc", 1, su, << <<ConcOpsSmall[i]>>, <<ConcOpsSmall[j]>>, <<ConcOpsSmall[k]>> >>))
\* evaluated as an ordinary expression (not as conjuncts of the initial predicate)
GInit == g = IF Printed THEN 0 ELSE 1
GNext == UNCHANGED g
GSpec == GInit /\ [][GNext]_g
=============================================================================
