SPECIFICATION GSpec
CONSTANTS
  Names = {"a","b","c","d","e"}
  Stakes = {1,2}
  Limits = {1,2,3,4,5}
  Pcts = {0,25,50,100}
  Ord1 <- O_abcd
  Ord2 <- O_cadb
  HeadBug = FALSE
INVARIANT GPrint
CHECK_DEADLOCK FALSE
