SPECIFICATION TraceSpec
INVARIANTS NoPanic HarnessRange C16_AtMostAmount C16_Monotone C16_Schedule C16_PaidIsVested C16_FullAtExpiry C16_Backed C16_OwnerCan
POSTCONDITION Accepted
CHECK_DEADLOCK FALSE
