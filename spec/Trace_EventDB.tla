--------------------------- MODULE Trace_EventDB ---------------------------
(***************************************************************************)
(* Trace spec for C20.  A block's event list (built as burn.go / mint.go   *)
(* emit it, or taken from a real block in which the burns and mints were   *)
(* executed as real transactions) went through the REAL mergeEvents and    *)
(* the REAL tag handlers on the in-memory event database; the driver logs  *)
(* what happened in the block (burns, mints, reward events), what the      *)
(* merge handed to the handlers, and what the package's query functions    *)
(* read back afterwards (burn_tickets rows, authorizers.total_burn /       *)
(* total_mint).  The same payload is logged once per aspect (BlockMerge,   *)
(* BlockTickets, BlockBurnTotals, BlockMintTotals) so that a listed known  *)
(* finding suppresses exactly its aspect.  An op list may span several     *)
(* consecutive blocks stored into the SAME database (ev.blk = 1, 2 ..):    *)
(* burns / mints / merged lists are those of the block, rows / d_burn /    *)
(* d_mint are what the block ADDED (read back after it minus read back     *)
(* before it; rows_db = the whole table).  A block whose events the        *)
(* handlers refused (ev.refused: the store step failed although the        *)
(* database accepted every statement) simply added nothing - the           *)
(* property's invariants judge that.  Each invariant applies the           *)
(* predicate of EventDBDefs.tla that TLC checks on the model (EventDB.tla).*)
(***************************************************************************)
EXTENDS TraceLib, EventDBDefs

VARIABLES l, ev
vars == <<l, ev>>
Null == [ev |-> "none"]

TraceInit == l = 1 /\ ev = Null
TraceNext == l <= Len(Trace) /\ l' = l + 1 /\ ev' = Trace[l]
TraceSpec == TraceInit /\ [][TraceNext]_vars

Blk == [burns |-> ev.burns, mints |-> ev.mints, rewards |-> ev.rewards,
        mTickets |-> ev.m_tickets, mBurns |-> ev.m_burns, mMints |-> ev.m_mints, mRewards |-> ev.m_rewards,
        rows |-> ev.rows, dBurn |-> ev.d_burn, dMint |-> ev.d_mint, auths |-> Range(ev.auths)]
Is(name) == ev.ev = name

(* Merge never drops an additive / append-only event.  Known deviation (known_findings.jsonl): several   *)
(* bridge events of one tag share an index in the block (dup_index): only the last one per index         *)
(* survives; that much must still hold.                                                                   *)
C20_MergeKeepsAll == (Is("BlockMerge") /\ ~(IsKnown(ev) /\ ev.dup_index)) => MergeKeepsAll(Blk)
C20_MergeKeepsAllKnown == (Is("BlockMerge") /\ IsKnown(ev) /\ ev.dup_index) => MergeKeepsLast(Blk)
(* One burn ticket per burn.  Known consequence of the merge deviation: two burns to one address in the  *)
(* block (dup_eth); then every ticket the merge kept must be stored.                                      *)
C20_TicketPerBurn == (Is("BlockTickets") /\ ~(IsKnown(ev) /\ ev.dup_eth)) => TicketPerBurn(Blk)
C20_TicketPerBurnKnown == (Is("BlockTickets") /\ IsKnown(ev) /\ ev.dup_eth) => StoresAllMerged(Blk)
(* Totals count every burn.  Known consequence: one authorizer burns twice in the block (dup_auth_burner). *)
C20_BurnTotals == (Is("BlockBurnTotals") /\ ~(IsKnown(ev) /\ ev.dup_auth_burner)) => BurnTotals(Blk)
C20_BurnTotalsKnown == (Is("BlockBurnTotals") /\ IsKnown(ev) /\ ev.dup_auth_burner) => BurnTotalsOfMerged(Blk)
(* Totals count every mint.  Known consequence: one client mints twice in the block (dup_minter).         *)
C20_MintTotals == (Is("BlockMintTotals") /\ ~(IsKnown(ev) /\ ev.dup_minter)) => MintTotals(Blk)
C20_MintTotalsKnown == (Is("BlockMintTotals") /\ IsKnown(ev) /\ ev.dup_minter) => MintTotalsOfMerged(Blk)

(* harness guard: the store step ran on sqlite (no statement was refused by the database itself, i.e. no   *)
(* dialect failure); a store step that failed for another reason is the handlers' own refusal (ev.refused) *)
HarnessStoreRan == ev.ev \in {"BlockMerge", "BlockTickets", "BlockBurnTotals", "BlockMintTotals"} =>
                      (ev.merge_err = "" /\ ev.db_err = "" /\ (ev.work_err = "" \/ ev.refused) /\ ev.shim_translated)
=============================================================================
