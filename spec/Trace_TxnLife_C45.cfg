SPECIFICATION TraceSpec
INVARIANTS
  C45_GeneratedVerifies C45_NoDuplicate C45_ConsecutiveNonces C45_CostLimit
  HarnessEnv HarnessClock HarnessSubmit HarnessGenerated HarnessBlockTime HarnessGenBlock HarnessVerify HarnessNoExpired HarnessPool
POSTCONDITION Accepted
CHECK_DEADLOCK FALSE
