---------------------------- MODULE Gen_Rank_C42 ----------------------------
(* Behaviours for C42: every pair of insertion orders of k sharders (k = 1..4,  *)
(* the first order starting with s1 to halve the count) x every replicator      *)
(* count in -1..5.  The block hashes are chosen by the driver (seeded), half of *)
(* them searched so that the scores tie at the cut.                             *)
(* Kind "replh" (pool history, Rank.tla actions ShareOther / ReAdd2): the first  *)
(* node adds k sharders in name order; the second node adds them in the order    *)
(* o2, then adds the sharders ob - the SAME node objects - to the sharder pool   *)
(* of another magic block (every non-empty subset), then is told about one known *)
(* sharder again (re: a = sharder, d = 1 with a fresh node object, 0 the same).  *)
(* The replicator counts n10s are observed on the pools built once.              *)
(* -depth 1 (quick): o2 starts with the last name; -depth 2 (thorough): every o2 *)
(* and counts -1..5.                                                              *)
EXTENDS Integers, Sequences, FiniteSets, TLC, Json
VARIABLE g
Names == <<"s1", "s2", "s3", "s4">>
Orders(k) == {f \in [1..k -> {Names[i] : i \in 1..k}] : \A i, j \in 1..k : i # j => f[i] # f[j]}
P(x) == PrintT(<<"BEHAVIOUR", ToJson(x)>>)
\* negative numbers are printed as n + 10 (n10), the driver subtracts
L == TLCGet("config").depth
First(k) == SubSeq(Names, 1, k)
AsSeq(S, k) == SelectSeq(First(k), LAMBDA x : x \in S)
HistCounts == IF L >= 2 THEN <<9, 10, 11, 12, 13, 14, 15>> ELSE <<10, 11, 12, 13, 15>>
Printed ==
  /\ \A k \in 1..4 : \A o1 \in Orders(k) : \A o2 \in Orders(k) : \A n \in -1..5 :
        (o1[1] = Names[1]) => P([k |-> "repl", n10 |-> n + 10, o1 |-> o1, o2 |-> o2])
  /\ \A k \in 2..4 : \A o2 \in Orders(k) : \A S \in (SUBSET {Names[i] : i \in 1..k}) \ {{}} :
        \A m \in 1..k : \A f \in {0, 1} :
          (L >= 2 \/ o2[1] = Names[k]) =>
             P([k |-> "replh", n10s |-> HistCounts, o1 |-> First(k), o2 |-> o2,
                ob |-> AsSeq(S, k), re |-> << [a |-> Names[m], d |-> f] >>])
GInit == g = IF Printed THEN 0 ELSE 1
GNext == UNCHANGED g
GSpec == GInit /\ [][GNext]_g
=============================================================================
