---------------------------- MODULE Gen_Rank_C42 ----------------------------
(* Behaviours for C42: every pair of insertion orders of k sharders (k = 1..4,  *)
(* the first order starting with s1 to halve the count) x every replicator      *)
(* count in -1..5.  The block hashes are chosen by the driver (seeded), half of *)
(* them searched so that the scores tie at the cut.                             *)
EXTENDS Integers, Sequences, FiniteSets, TLC, Json
VARIABLE g
Names == <<"s1", "s2", "s3", "s4">>
Orders(k) == {f \in [1..k -> {Names[i] : i \in 1..k}] : \A i, j \in 1..k : i # j => f[i] # f[j]}
P(x) == PrintT(<<"BEHAVIOUR", ToJson(x)>>)
\* negative numbers are printed as n + 10 (n10), the driver subtracts
Printed ==
  \A k \in 1..4 : \A o1 \in Orders(k) : \A o2 \in Orders(k) : \A n \in -1..5 :
     (o1[1] = Names[1]) => P([k |-> "repl", n10 |-> n + 10, o1 |-> o1, o2 |-> o2])
GInit == g = IF Printed THEN 0 ELSE 1
GNext == UNCHANGED g
GSpec == GInit /\ [][GNext]_g
=============================================================================
