SPECIFICATION Spec
CONSTANTS
  Scheme = {"bls0chain", "ed25519"}
  Key = {"k1", "k2"}
  Hash = {"h1", "h2"}
  Mangle = {"none", "flipbit", "truncate", "empty", "othersig"}
  Way = {"set", "scheme", "copy", "decode", "assign"}
INVARIANT GPrint
CHECK_DEADLOCK FALSE
