-------------------------- MODULE Trace_SharderFin --------------------------
(***************************************************************************)
(* Trace specification of the growth family "sharderfin" (the sharder side *)
(* of finalization and block serving, spec/SharderFin.tla).  Lines:        *)
(*   Reset     new sharder: rounds, replicators, batch, digests of genesis *)
(*   Boot      what SetupGenesisBlock stores (round 0, block, MB map)      *)
(*   Produce   the miners produced a block on the REAL chain (real txns,   *)
(*             hash, signature, tickets): name, round, parent, txns,       *)
(*             resp = Chain.IsBlockSharder(self), resp_hash =              *)
(*             IsBlockSharderFromHash(self), others = other replicators,   *)
(*             digests of block / header / transactions / outputs / MB     *)
(*   Deliver   the block reached the sharder's memory                      *)
(*   FinRound  the REAL finalizeRound ran; ufb = the calls of the REAL     *)
(*             sharder UpdateFinalizedBlock it caused (block, result)      *)
(*   UFB       UpdateFinalizedBlock called and the process stopped after it *)
(*   Partial   a crash inside UpdateFinalizedBlock: the listed stores ran  *)
(*   Restart   process restart (stores reopened, LFB reloaded)             *)
(*   LoseFile  a block file was removed from the block store               *)
(*   Peers / HCCycle   environment / bookkeeping                           *)
(*   HC        the REAL healthCheck(r) ran: counters of that call          *)
(*   Proj      projection of the REAL stores read back through the         *)
(*             sharder's own read functions after every step               *)
(*   Read      one request to a REAL read handler and what it served       *)
(*                                                                         *)
(* The actions apply the big-step semantics of SharderFinDefs to the       *)
(* tracked stores; which block gets finalized when, and whether a read is  *)
(* answered, is left free.  Cxx_* = instances of listed properties,        *)
(* Harness* = the model and the code disagree (not a verdict).             *)
(***************************************************************************)
EXTENDS TraceLib, SharderFinDefs

VARIABLES l, ev, cfg, info, txns, canon, st, lfb, seen, clash, just, hcp
vars == <<l, ev, cfg, info, txns, canon, st, lfb, seen, clash, just, hcp>>
Null == [ev |-> "none"]

ToSet(s) == {s[i] : i \in 1..Len(s)}
GInfo == [r |-> 0, p |-> "none", ntx |-> 0, hasmb |-> TRUE, resp |-> TRUE, others |-> 1, fork |-> FALSE,
          all |-> 0, hdr |-> 0, txn |-> 0, out |-> 0, mb |-> 0]
NoHCP == [ok |-> TRUE, rm |-> 0, rr |-> 0, sm |-> 0, sr |-> 0, bm |-> 0, br |-> 0, tm |-> 0, tr |-> 0]
Stores0(n) == [rdb |-> [r \in 0..n |-> None], sums |-> {}, txb |-> {}, cnt |-> [r \in 0..n |-> 0], blks |-> {}, mbm |-> {}]

TraceInit ==
  /\ l = 1 /\ ev = Null /\ cfg = [rounds |-> 0, replicators |-> 0, batch |-> 1]
  /\ info = ("g" :> GInfo) /\ txns = <<>> /\ canon = (0 :> "g") /\ st = Stores0(0) /\ lfb = "g"
  /\ seen = <<>> /\ clash = FALSE /\ just = {} /\ hcp = NoHCP

IsEvent(e) == l <= Len(Trace) /\ Trace[l].ev = e /\ l' = l + 1 /\ ev' = Trace[l]

(* round r is associated with block b by the current event: remember the first association, flag any other *)
Assoc(sn, r, b) == IF r \in DOMAIN sn THEN sn ELSE sn @@ (r :> b)
Clash(sn, r, b) == r \in DOMAIN sn /\ sn[r] # b

TraceReset ==
  /\ IsEvent("Reset")
  /\ LET e == Trace[l] IN
       /\ cfg' = [rounds |-> e.rounds, replicators |-> e.replicators, batch |-> e.batch]
       /\ info' = ("g" :> [GInfo EXCEPT !.all = e.g_all, !.hdr = e.g_hdr, !.txn = e.g_txn, !.out = e.g_out, !.mb = e.g_mb,
                                        !.others = e.sharders - 1])
       /\ st' = Stores0(e.rounds)
  /\ txns' = <<>> /\ canon' = (0 :> "g") /\ lfb' = "g" /\ seen' = <<>> /\ clash' = FALSE /\ just' = {} /\ hcp' = NoHCP

TraceBoot ==
  /\ IsEvent("Boot")
  /\ st' = RepairStoreBlock([st EXCEPT !.rdb[0] = "g"], "g", info)
  /\ just' = {}
  /\ UNCHANGED <<hcp, cfg, info, txns, canon, lfb, seen, clash>>

TraceProduce ==
  /\ IsEvent("Produce")
  /\ LET e == Trace[l] IN
       /\ info' = Put(info, e.b, [r |-> e.r, p |-> e.p, ntx |-> e.ntx, hasmb |-> e.hasmb, resp |-> e.resp, others |-> e.others,
                                  fork |-> e.fork, all |-> e.d_all, hdr |-> e.d_hdr, txn |-> e.d_txn, out |-> e.d_out, mb |-> e.d_mb])
       /\ txns' = Put(txns, e.b, ToSet(e.txns))
       /\ canon' = IF e.fork THEN canon ELSE Put(canon, e.r, e.b)
  /\ just' = {}
  /\ UNCHANGED <<hcp, cfg, st, lfb, seen, clash>>

(* UpdateFinalizedBlock returned ok for these blocks, in this order *)
RECURSIVE ApplyUFB(_, _, _)
ApplyUFB(s, calls, i) ==
  IF i > Len(calls) THEN s
  ELSE ApplyUFB(IF calls[i].res = "ok" /\ calls[i].b \in DOMAIN info THEN UFBAll(s, calls[i].b, info, TRUE) ELSE s, calls, i + 1)
RECURSIVE AssocAll(_, _, _)
AssocAll(sn, calls, i) ==
  IF i > Len(calls) THEN sn
  ELSE AssocAll(IF calls[i].res = "ok" /\ calls[i].b \in DOMAIN info THEN Assoc(sn, info[calls[i].b].r, calls[i].b) ELSE sn, calls, i + 1)
OkBlocks(calls) == {calls[i].b : i \in {j \in 1..Len(calls) : calls[j].res = "ok" /\ calls[j].b \in DOMAIN info}}

TraceFinRound ==
  /\ IsEvent("FinRound")
  /\ LET e == Trace[l] IN
       /\ st' = ApplyUFB(st, e.ufb, 1)
       /\ lfb' = e.after
       /\ seen' = AssocAll(seen, e.ufb, 1)
       /\ clash' = (clash \/ \E b \in OkBlocks(e.ufb) : Clash(seen, info[b].r, b))
       /\ just' = OkBlocks(e.ufb)
  /\ UNCHANGED <<hcp, cfg, info, txns, canon>>

TraceUFB ==
  /\ IsEvent("UFB")
  /\ LET e == Trace[l]
         c == <<[b |-> e.b, res |-> e.res]>> IN
       /\ st' = ApplyUFB(st, c, 1)
       /\ seen' = AssocAll(seen, c, 1)
       /\ clash' = (clash \/ \E b \in OkBlocks(c) : Clash(seen, info[b].r, b))
       /\ just' = OkBlocks(c)
  /\ UNCHANGED <<hcp, cfg, info, txns, canon, lfb>>

TracePartial ==
  /\ IsEvent("Partial")
  /\ st' = ApplySteps(st, Trace[l].b, info, TRUE, Trace[l].steps, 1)
  /\ just' = {}
  /\ UNCHANGED <<hcp, cfg, info, txns, canon, lfb, seen, clash>>

TraceRestart ==
  /\ IsEvent("Restart")
  /\ lfb' = Trace[l].lfb /\ just' = {}
  /\ UNCHANGED <<hcp, cfg, info, txns, canon, st, seen, clash>>

TraceLoseFile ==
  /\ IsEvent("LoseFile")
  /\ st' = [st EXCEPT !.blks = @ \ {Trace[l].b}] /\ just' = {}
  /\ UNCHANGED <<hcp, cfg, info, txns, canon, lfb, seen, clash>>

HCOf(e) == HCAll(st, e.r, e.peers_up, e.peer_lfb, canon, info, cfg.batch, TRUE)
TraceHC ==
  /\ IsEvent("HC")
  /\ st' = IF Trace[l].r \in DOMAIN st.rdb THEN HCOf(Trace[l]).st ELSE st
  /\ hcp' = IF Trace[l].r \in DOMAIN st.rdb THEN [x \in DOMAIN NoHCP |-> HCOf(Trace[l])[x]] ELSE NoHCP
  /\ just' = {}
  /\ UNCHANGED <<cfg, info, txns, canon, lfb, seen, clash>>

(* the projection: remember / compare the round -> block associations it shows *)
RECURSIVE AssocRdb(_, _, _)
AssocRdb(sn, rdb, i) ==
  IF i > Len(rdb) THEN sn ELSE AssocRdb(IF IsBlockName(rdb[i].b) THEN Assoc(sn, rdb[i].r, rdb[i].b) ELSE sn, rdb, i + 1)
TraceProj ==
  /\ IsEvent("Proj")
  /\ LET e == Trace[l] IN
       /\ seen' = AssocRdb(seen, e.rdb, 1)
       /\ clash' = (clash \/ \E i \in 1..Len(e.rdb) : IsBlockName(e.rdb[i].b) /\ Clash(seen, e.rdb[i].r, e.rdb[i].b))
  /\ UNCHANGED <<hcp, cfg, info, txns, canon, st, lfb, just>>

ByRound == {"block_round", "header_round", "s2s_round", "s2s_block", "s2s_block_round"}
TraceRead ==
  /\ IsEvent("Read")
  /\ LET e == Trace[l]
         r == e.argn
         hit == e.kind \in ByRound /\ e.res = "ok" /\ IsBlockName(e.b_hdr) /\ e.b_hdr # "unknown" IN
       /\ seen' = IF hit THEN Assoc(seen, r, e.b_hdr) ELSE seen
       /\ clash' = (clash \/ (hit /\ Clash(seen, r, e.b_hdr)))
  /\ just' = {}
  /\ UNCHANGED <<hcp, cfg, info, txns, canon, st, lfb>>

Other == {"Deliver", "Peers", "HCCycle"}
TraceOther ==
  /\ l <= Len(Trace) /\ Trace[l].ev \in Other /\ l' = l + 1 /\ ev' = Trace[l]
  /\ just' = {}
  /\ UNCHANGED <<hcp, cfg, info, txns, canon, st, lfb, seen, clash>>

TraceSkip ==
  /\ l <= Len(Trace)
  /\ Trace[l].ev \notin (Other \cup {"Reset", "Boot", "Produce", "FinRound", "UFB", "Partial", "Restart", "LoseFile", "HC", "Proj", "Read"})
  /\ l' = l + 1 /\ ev' = Null
  /\ UNCHANGED <<hcp, cfg, info, txns, canon, st, lfb, seen, clash, just>>

TraceNext == TraceReset \/ TraceBoot \/ TraceProduce \/ TraceFinRound \/ TraceUFB \/ TracePartial \/ TraceRestart
             \/ TraceLoseFile \/ TraceHC \/ TraceProj \/ TraceRead \/ TraceOther \/ TraceSkip
TraceSpec == TraceInit /\ [][TraceNext]_vars

-----------------------------------------------------------------------------
Is(e) == ev.ev = e
Judged == ~IsKnown(ev)

(* ---------------- Harness: the model and the real code disagree ---------------- *)
(* the calls of the harness itself work (a panic or an error of the real code here must be looked at) *)
HarnessCalls ==
  /\ (Is("Boot") \/ Is("UFB") \/ Is("Partial") \/ Is("Restart") \/ Is("HC") \/ Is("FinRound")) => ev.res = "ok"
  /\ Is("FinRound") => \A i \in 1..Len(ev.ufb) : ev.ufb[i].res = "ok" /\ ev.ufb[i].b \in DOMAIN info
  /\ Is("Read") => ev.res \in {"ok", "error", "nil"}
  /\ Is("Restart") => ev.stored = ev.lfb

(* the stores read back from the real sharder are the stores of the model *)
ProjRdb   == [r \in DOMAIN st.rdb |-> IF \E i \in 1..Len(ev.rdb) : ev.rdb[i].r = r
                                       THEN (LET i == CHOOSE j \in 1..Len(ev.rdb) : ev.rdb[j].r = r IN ev.rdb[i].b) ELSE None]
ProjCnt   == [r \in DOMAIN st.cnt |-> IF \E i \in 1..Len(ev.cnt) : ev.cnt[i].r = r
                                       THEN (LET i == CHOOSE j \in 1..Len(ev.cnt) : ev.cnt[j].r = r IN ev.cnt[i].n) ELSE 0]
ModelTxs  == UNION {{<<t, info[b].r>> : t \in txns[b]} : b \in st.txb \cap DOMAIN txns}
ProjTxs   == {<<ev.txs[i].t, ev.txs[i].r>> : i \in 1..Len(ev.txs)}
HarnessRounds  == Is("Proj") => ProjRdb = st.rdb
HarnessSums    == Is("Proj") => ToSet(ev.sums) = st.sums
HarnessBlocks  == Is("Proj") => ToSet(ev.blks) = st.blks
HarnessTxns    == Is("Proj") => ProjTxs = ModelTxs
HarnessCount   == Is("Proj") => ProjCnt = st.cnt
HarnessMBMap   == Is("Proj") => {ev.mbm[i].b : i \in 1..Len(ev.mbm)} = st.mbm
HarnessLFB     == Is("Proj") => ev.lfb = lfb

(* the counters of the health check call are the ones of the model's healthCheck *)
HarnessHC ==
  (Is("HC") /\ ev.r \in 0..cfg.rounds) =>
     /\ (ev.ok = 1) = hcp.ok /\ (ev.fail = 1) = ~hcp.ok
     /\ ev.round_missing = hcp.rm /\ ev.round_repaired = hcp.rr
     /\ ev.sum_missing = hcp.sm /\ ev.sum_repaired = hcp.sr
     /\ ev.block_missing = hcp.bm /\ ev.block_repaired = hcp.br
     /\ ev.txn_missing = hcp.tm /\ ev.txn_repaired = hcp.tr

(* a transaction confirmation is served only for a transaction of a finalized block and names that block; *)
(* the latest finalized block served is the LFB; a magic block served is one recorded in the map          *)
TxnBlock(t) == IF \E b \in DOMAIN txns : t \in txns[b] THEN CHOOSE b \in DOMAIN txns : t \in txns[b] ELSE "none"
HarnessConfirmation ==
  (Is("Read") /\ ev.kind = "confirm" /\ ev.res = "ok") =>
     /\ ev.b_hdr = TxnBlock(ev.arg)
     /\ ev.b_hdr \in DOMAIN info /\ st.rdb[info[ev.b_hdr].r] = ev.b_hdr
     /\ ev.round = info[ev.b_hdr].r
     /\ ev.has_txn => ev.txn_in_block
HarnessReads ==
  /\ (Is("Read") /\ ev.kind = "lfb" /\ ev.res = "ok") => ev.b = lfb
  /\ (Is("Read") /\ ev.kind = "mb" /\ ev.res = "ok") => ev.b \in st.mbm
  /\ (Is("Read") /\ ev.kind \in {"block_hash", "s2s_summary"} /\ ev.res = "ok") => ev.b_hdr = ev.arg
  /\ (Is("Read") /\ ev.kind = "s2s_summary" /\ ev.res = "ok") => ev.arg \in st.sums

(* ---------------- C26 ---------------- *)
(* "A block saved to the sharder block store reads back with the same hash, header, transactions, outputs  *)
(*  and magic block."  Every block found in the block store by the projection, every block served by a     *)
(* read handler and every transaction served in a confirmation equals what the chain produced.             *)
C26_StoreReadBack == (Is("Proj") /\ Judged) => Len(ev.blks_bad) = 0
C26_ServedBlockExact ==
  (Is("Read") /\ Judged /\ ev.res = "ok" /\ ev.b # "none") =>
     /\ ev.b \in DOMAIN info
     /\ ev.same_all /\ ev.same_hdr /\ ev.same_txn /\ ev.same_out /\ ev.same_mb
     /\ ev.ntx = info[ev.b].ntx /\ ev.round = info[ev.b].r
C26_ConfirmationTxnExact ==
  (Is("Read") /\ Judged /\ ev.kind = "confirm" /\ ev.res = "ok" /\ ev.has_txn) => ev.txn_same

(* ---------------- C36 ---------------- *)
(* "Each newly finalized block descends from the previous finalized block, so finalized blocks form one     *)
(*  chain."  On the sharder: every block handed to UpdateFinalizedBlock is the child of the previous        *)
(* finalized block, the LFB ends on the last of them ...                                                     *)
RECURSIVE Descends(_, _, _)
Descends(prev, calls, i) ==
  IF i > Len(calls) THEN TRUE
  ELSE /\ calls[i].b \in DOMAIN info
       /\ info[calls[i].b].p = prev /\ info[calls[i].b].r = info[prev].r + 1
       /\ Descends(calls[i].b, calls, i + 1)
C36_FinalizedDescend ==
  (Is("FinRound") /\ Judged /\ ev.before \in DOMAIN info) =>
     /\ Descends(ev.before, ev.ufb, 1)
     /\ ev.after = IF Len(ev.ufb) = 0 THEN ev.before ELSE ev.ufb[Len(ev.ufb)].b
(* ... and, finalized blocks forming ONE chain, a round is never associated with two different blocks: not   *)
(* by finalization, not in the round store, not by a block or round served for that round number.            *)
C36_RoundSingleValued == Judged => ~clash
C36_ServedRoundIsOfRound ==
  (Is("Read") /\ Judged /\ ev.kind \in ByRound /\ ev.res = "ok" /\ ev.b_hdr \in DOMAIN info) =>
     info[ev.b_hdr].r = ev.argn
(* only blocks of the one chain are ever stored: never a fork block *)
C36_NoForkStored ==
  (Is("Proj") /\ Judged) => \A b \in ToSet(ev.sums) \cup ToSet(ev.blks) : b \in DOMAIN info /\ ~info[b].fork

(* ---------------- C42 ---------------- *)
(* "For a block hash and a sharder set, every node computes the same set of sharders responsible for        *)
(*  storing the block ... and every sharder stores every block when replication is disabled."               *)
C42_SameDecision == (Is("Produce") /\ Judged) => (ev.resp = ev.resp_hash /\ (cfg.replicators = 0 => ev.resp))
C42_AllStoreWhenDisabled == (Is("Proj") /\ Judged /\ cfg.replicators = 0) => just \subseteq ToSet(ev.blks)
=============================================================================
