SPECIFICATION MSpec
CONSTANTS
  Fields = {"parent","round","seed","txns","outputs","state","magicblock"}
  MustBind = {"sender","parent","round","seed","txns","outputs","state","magicblock"}
  HashInput = {"sender","parent","round","seed","txns","outputs","state","magicblock"}
  KeyInObject = FALSE
  DupShapes <- ShapesTo3And5
  MaxSteps = 4

INVARIANT GPrint
CHECK_DEADLOCK FALSE
