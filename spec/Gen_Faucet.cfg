SPECIFICATION GSpec
CONSTANTS
  Client = {"c1", "c2"}
  Configs <- BothAB
  InitCfg <- CfgA
  InitBal = 7
  Values = {0, 1, 2, 3, 4, 5}
  Refills = {3}
  MaxBal = 20
  MaxTime = 12
  MaxStep = 2
  LimitOnPoured = FALSE
  GenLen = 12
INVARIANT GPrint
CHECK_DEADLOCK FALSE
