---------------------------- MODULE Gen_VCClient ----------------------------
(* Generator of abstract histories for the view-change client driver (TLC -simulate, Gen_VCClient.cfg). *)
EXTENDS MC_VCClient

(* Run-to-completion scheduling (MC_VCClient.tla); every step                                                 *)
(* that the driver has to be told about is logged; the driver folds the steps of one loop iteration into one    *)
(* poll step (harness/drivers/vcclient/scenarios.go)                                                           *)
VARIABLES hist, ginc, gdone
gvars == <<vars, hist, ginc, gdone>>
VName(v) == IF v = NoView THEN "none" ELSE IF v = Cur THEN "cur" ELSE "lag"
Log(op, m, j, view) == hist' = Append(hist, [op |-> op, m |-> m, j |-> j, view |-> view])
Quiet == UNCHANGED <<hist, ginc, gdone>>
(* the start phase has begun in the base block of the driver (relative round 0) *)
GInit == /\ Init /\ hist = <<>> /\ ginc = FALSE /\ gdone = FALSE
G_Block == Busy = {} /\ Block /\ Log("block", "", "", "") /\ UNCHANGED <<ginc, gdone>>
G_Sync == Busy = {} /\ Sync /\ Log("sync", "", "", "") /\ UNCHANGED <<ginc, gdone>>
(* a poll that brings nothing new is not generated *)
News(c, m, v) == PollPn(c, v) # NoPn /\ AfterTake(AfterPoll(c, v), m, v, 0) # c
G_Poll == Busy = {} /\ \E m \in Miner, v \in Views : News(cl[m], m, v) /\ PollV(m, v) /\ Log("poll", m, "", VName(v))
                                                    /\ ginc' = FALSE /\ UNCHANGED gdone
G_Take == \E m \in Busy, v \in RViews : LoopTakeV(m, v) /\ Log("take", m, "", VName(v)) /\ UNCHANGED <<ginc, gdone>>
G_RPC == \E m \in Busy, j \in Miner, ok \in BOOLEAN :
           /\ ShareRPCV(m, j, ok)
           /\ IF ~ok /\ PeerAccepts(cl[m], cl[j], m, j) THEN Log("lost", m, j, "") ELSE UNCHANGED hist
           /\ UNCHANGED <<ginc, gdone>>
G_ShareEnd == R_ShareEnd /\ Quiet
G_Confirm == R_Confirm /\ Quiet
G_IncludeRun == \E m \in Busy : /\ cl[m].lp = "confirm" /\ \E t \in pool : t.from = m /\ Include(t)
                                 /\ Log("include", m, "", "") /\ ginc' = TRUE /\ UNCHANGED gdone
(* the driver executes either all or none of the miner's pending transactions before the confirmation fails *)
G_ConfirmFail == \E m \in Busy : /\ ConfirmFail(m) /\ (~ginc \/ \A t \in pool : t.from # m)
                                  /\ Log("unconfirmed", m, "", "") /\ UNCHANGED <<ginc, gdone>>
G_Include == Busy = {} /\ \E t \in pool : Include(t) /\ Log("include", t.from, "", "") /\ UNCHANGED <<ginc, gdone>>
G_Drop == Busy = {} /\ \E t \in pool : Oldest(t) /\ Drop(t) /\ Log("droptxn", t.from, "", "") /\ UNCHANGED <<ginc, gdone>>
G_Adopt == Busy = {} /\ \E m \in Miner : Adopt(m) /\ Log("adopt", m, "", "") /\ UNCHANGED <<ginc, gdone>>
G_Done == /\ ~gdone /\ Busy = {} /\ ((eff = NoMB /\ ~ENABLED Block) \/ (eff # NoMB /\ \A m \in Miner : cl[m].adopted))
          /\ gdone' = TRUE /\ UNCHANGED <<vars, hist, ginc>>
GNext == ~gdone /\ (G_Block \/ G_Sync \/ G_Poll \/ G_Take \/ G_RPC \/ G_ShareEnd \/ G_Confirm \/ G_IncludeRun
                    \/ G_ConfirmFail \/ G_Include \/ G_Drop \/ G_Adopt \/ G_Done)
GSpec == GInit /\ [][GNext]_gvars
GPrint == gdone => PrintT(<<"BEHAVIOUR", ToJson(hist)>>)
=============================================================================
