SPECIFICATION TraceSpec
INVARIANTS NoPanic C46_Sorted C46_Capacity C46_LowestFirst C46_AddDropsOnlyHighest C46_RepeatIgnored C46_Linearizable
POSTCONDITION Accepted
CHECK_DEADLOCK FALSE
