------------------------------ MODULE LFBTicket ------------------------------
(***************************************************************************)
(* C41  LFB tickets are authentic and never move backwards.                *)
(*                                                                         *)
(* chaincore/chain/protocol_lfb_ticket.go: a node keeps the latest         *)
(* finalized-block ticket it knows (`latest`, local to the goroutine       *)
(* StartLFBTicketWorker).  Inputs:                                         *)
(*   Handle(t)     LFBTicketHandler: a ticket received from the network is *)
(*                 verified (verifyLFBTicket) and queued (updateLFBTicket) *)
(*   Kick(r)       AddReceivedLFBTicket with an unsigned ticket: the       *)
(*                 node's own "bump" after it fetched an LFB (miner)       *)
(*   Broadcast(r)  BroadcastLFBTicket: the node finalized round r itself   *)
(* The worker drains a queue, keeps the entry with the highest round       *)
(* (first one among equals) and adopts it iff its round is above latest's. *)
(*                                                                         *)
(* verifyLFBTicket AS WRITTEN looks the signer up among all registered     *)
(* nodes (node.GetNode), not among the sharders of the magic block:        *)
(* VerifyRegistered = TRUE is the code, FALSE the intended design.         *)
(***************************************************************************)
EXTENDS Integers, Sequences, FiniteSets

CONSTANTS MaxRound,          \* ticket rounds 1..MaxRound
          MaxInputs,         \* bound on the number of inputs of a behaviour
          VerifyRegistered   \* TRUE: any registered node's valid signature passes (as written)

Signer == {"sharder", "miner", "unknown"}   \* sharder of the magic block / other registered node / not registered
Registered == {"sharder", "miner"}

VARIABLES latest,   \* [round, signer, ok]; signer "self" = own ticket, "kick" = unsigned bump
          recvq,    \* verified received tickets and kicks waiting for the worker (updateLFBTicket)
          bcastq,   \* rounds waiting to be broadcast (broadcastLFBTicket)
          inputs    \* number of inputs so far
vars == <<latest, recvq, bcastq, inputs>>

Received == [round : 1..MaxRound, signer : Signer, ok : BOOLEAN]

Init == /\ latest = [round |-> 0, signer |-> "self", ok |-> TRUE]
        /\ recvq = <<>> /\ bcastq = <<>> /\ inputs = 0

Verified(t) == IF VerifyRegistered THEN t.signer \in Registered /\ t.ok
                                   ELSE t.signer = "sharder" /\ t.ok

HandleAccept(t) == /\ inputs < MaxInputs /\ Verified(t)
                   /\ recvq' = Append(recvq, t) /\ inputs' = inputs + 1
                   /\ UNCHANGED <<latest, bcastq>>
HandleReject(t) == /\ inputs < MaxInputs /\ ~Verified(t)
                   /\ inputs' = inputs + 1 /\ UNCHANGED <<latest, recvq, bcastq>>
Kick(r) == /\ inputs < MaxInputs
           /\ recvq' = Append(recvq, [round |-> r, signer |-> "kick", ok |-> FALSE])
           /\ inputs' = inputs + 1 /\ UNCHANGED <<latest, bcastq>>
Broadcast(r) == /\ inputs < MaxInputs
                /\ bcastq' = Append(bcastq, r) /\ inputs' = inputs + 1
                /\ UNCHANGED <<latest, recvq>>

(* first entry of s with the highest value of f *)
RECURSIVE FirstMax(_, _, _, _)
FirstMax(s, R(_), i, best) ==
  IF i > Len(s) THEN best
  ELSE FirstMax(s, R, i + 1, IF R(s[i]) > R(s[best]) THEN i ELSE best)

(* the worker takes what is in the channel at that moment: any non-empty prefix *)
TicketRound(t) == t.round
WorkerUpdate ==
  \E n \in 1..Len(recvq) :
    LET batch == SubSeq(recvq, 1, n)
        pick == batch[FirstMax(batch, TicketRound, 1, 1)]
    IN /\ recvq' = SubSeq(recvq, n + 1, Len(recvq))
       /\ latest' = IF pick.round > latest.round THEN pick ELSE latest
       /\ UNCHANGED <<bcastq, inputs>>

Ident(r) == r
WorkerBroadcast ==
  \E n \in 1..Len(bcastq) :
    LET batch == SubSeq(bcastq, 1, n)
        r == batch[FirstMax(batch, Ident, 1, 1)]
    IN /\ bcastq' = SubSeq(bcastq, n + 1, Len(bcastq))
       /\ latest' = IF r > latest.round THEN [round |-> r, signer |-> "self", ok |-> TRUE] ELSE latest
       /\ UNCHANGED <<recvq, inputs>>

Next == \/ \E t \in Received : HandleAccept(t) \/ HandleReject(t)
        \/ \E r \in 1..MaxRound : Kick(r) \/ Broadcast(r)
        \/ WorkerUpdate \/ WorkerBroadcast
Spec == Init /\ [][Next]_vars

-----------------------------------------------------------------------------
(* C41: the reported ticket never moves to a lower round *)
C41_Monotone == [][latest'.round >= latest.round]_vars

(* C41: an adopted RECEIVED ticket is signed by a sharder of the magic block *)
IsReceived(t) == t.signer \in Signer
C41_Authentic == IsReceived(latest) => (latest.signer = "sharder" /\ latest.ok)

(* what the code as written guarantees instead: some registered node's valid signature *)
AuthenticRegistered == IsReceived(latest) => (latest.signer \in Registered /\ latest.ok)
=============================================================================
