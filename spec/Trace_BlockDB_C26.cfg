SPECIFICATION TraceSpec
INVARIANTS HarnessIO C26_ReadBackExact C26_AbsentNotFound C26_CrashSafe C26_BlockReadBack
POSTCONDITION Accepted
CHECK_DEADLOCK FALSE
