SPECIFICATION TraceSpec
INVARIANTS HarnessGenuineAccepted HarnessAltAgrees HarnessDupShape C29_BlockBinding C29_HashSensitive
POSTCONDITION Accepted
CHECK_DEADLOCK FALSE
