SPECIFICATION TraceSpec
INVARIANTS HarnessGenuineAccepted HarnessAltAgrees C29_BlockBinding C29_HashSensitive
POSTCONDITION Accepted
CHECK_DEADLOCK FALSE
