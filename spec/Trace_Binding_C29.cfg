SPECIFICATION TraceSpec
INVARIANTS HarnessGenuineAccepted HarnessAltAgrees HarnessDupShape C29_BlockBinding C29_HashSensitive C29_RepeatChangesHash
POSTCONDITION Accepted
CHECK_DEADLOCK FALSE
