------------------------------ MODULE Trace_Rank ------------------------------
(***************************************************************************)
(* Trace specification for C35 (ranking, notarized-block list) and C42     *)
(* (replicating sharders).  Every event is one observation of REAL objects *)
(* (node.Pool, round.Round, HashPoolScorer, Chain); the events are         *)
(* independent of each other, the invariants are the properties.           *)
(*  Rank  two pools built by adding the same miners in the orders o1, o2,  *)
(*        two rounds with the same seed: r1,r2 = GetMinerRank per miner,   *)
(*        by1,by2 = GetMinersByRank                                        *)
(*  Nb    one AddNotarizedBlock / UpdateNotarizedBlock on a real round with *)
(*        the list read back: list = (hash, object id) pairs, ranks        *)
(*  Repl  two sharder pools (orders o1,o2), one block hash, n replicators:  *)
(*        set1,set2 = nodes of CanShardBlockWithReplicators, in1,in2 =      *)
(*        IsBlockSharder per sharder, ok1,ok2 = its boolean per sharder     *)
(*        (-1 = the pool map does not know the sharder); ob, re = the pool  *)
(*        history of node 2 (Rank.tla ShareOther / ReAdd2): after o2 the    *)
(*        same node objects ob were added to another magic block's pool and *)
(*        the sharders re (a = name, d = 1 fresh object) were added again;  *)
(*        both empty for plain insertion.  The history is free: whatever it *)
(*        is, the two nodes know the same sharders and must agree.          *)
(***************************************************************************)
EXTENDS TraceLib
VARIABLES l, ev
vars == <<l, ev>>
Null == [ev |-> "none"]
TraceInit == l = 1 /\ ev = Null
TraceStep == l <= Len(Trace) /\ l' = l + 1
             /\ ev' = IF Trace[l].ev \in {"Rank", "Nb", "Repl"} THEN Trace[l] ELSE Null
TraceNext == TraceStep
TraceSpec == TraceInit /\ [][TraceNext]_vars

SeqSet(s) == {s[i] : i \in 1..Len(s)}
Names(ps) == {ps[i].a : i \in 1..Len(ps)}
AsFun(ps) == PutPairs(<<>>, ps, 1)
NoDup(ps) == \A i, j \in 1..Len(ps) : i # j => ps[i].a # ps[j].a

-----------------------------------------------------------------------------
IsRank == ev.ev = "Rank"
(* same seed + same miner set => same rank per miner, whatever the insertion order *)
C35_RankSame == IsRank => /\ AsFun(ev.r1) = AsFun(ev.r2)
                          /\ ev.by1 = ev.by2
(* ... and the ranks are a permutation of 0..n-1 over exactly the miners of the pool *)
C35_RankPermutation ==
  IsRank => /\ Names(ev.r1) = SeqSet(ev.o1) /\ NoDup(ev.r1) /\ Len(ev.r1) = ev.n
            /\ {ev.r1[i].d : i \in 1..Len(ev.r1)} = 0..(ev.n - 1)
            /\ Names(ev.r2) = SeqSet(ev.o2) /\ NoDup(ev.r2) /\ Len(ev.r2) = ev.n
            /\ {ev.r2[i].d : i \in 1..Len(ev.r2)} = 0..(ev.n - 1)
            /\ SeqSet(ev.by1) = SeqSet(ev.o1) /\ Len(ev.by1) = ev.n
\* observation only (not part of the property, in no cfg): GetMinersByRank lists rank 0 first
Obs_ByRankAscending == IsRank => \A i \in 1..Len(ev.by1) : AsFun(ev.r1)[ev.by1[i]] = i - 1

IsNb == ev.ev = "Nb"
C35_OnePerRank == IsNb => \A i, j \in 1..Len(ev.ranks) : i # j => ev.ranks[i] # ev.ranks[j]
C35_HeaviestFirst == IsNb => \A i \in 1..Len(ev.ranks) - 1 : ev.ranks[i] <= ev.ranks[i + 1]
C35_AddStores == (IsNb /\ ev.op = "add") => \E i \in 1..Len(ev.list) : ev.list[i].a = ev.hash
C35_UpdateReplaces ==
  (IsNb /\ ev.op = "update") => \A i \in 1..Len(ev.list) : ev.list[i].a = ev.hash => ev.list[i].d = ev.id

-----------------------------------------------------------------------------
IsRepl == ev.ev = "Repl"
(* the same replicator set on both nodes, whatever the insertion order *)
C42_SameSet ==
  IsRepl => /\ SeqSet(ev.set1) = SeqSet(ev.set2)
            /\ AsFun(ev.in1) = AsFun(ev.in2) /\ AsFun(ev.ok1) = AsFun(ev.ok2)
(* IsBlockSharder / IsBlockSharderFromHash / CanShardBlockWithReplicators describe ONE set *)
C42_EntryPointsAgree ==
  IsRepl => /\ \A i \in 1..Len(ev.in1) : (ev.in1[i].d = 1) <=> (ev.in1[i].a \in SeqSet(ev.set1))
            /\ \A i \in 1..Len(ev.ok1) : ev.ok1[i].d = ev.in1[i].d /\ ev.ok1[i].a = ev.in1[i].a
            /\ Names(ev.in1) = SeqSet(ev.o1)
(* enough sharders => at least the configured number of replicators *)
C42_AtLeastN == (IsRepl /\ ev.n > 0 /\ ev.size >= ev.n) => Cardinality(SeqSet(ev.set1)) >= ev.n
(* replication disabled => every sharder stores every block *)
C42_AllWhenDisabled ==
  (IsRepl /\ ev.n <= 0) => /\ SeqSet(ev.set1) = SeqSet(ev.o1)
                           /\ \A i \in 1..Len(ev.in1) : ev.in1[i].d = 1
=============================================================================
