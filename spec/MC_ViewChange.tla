---------------------------- MODULE MC_ViewChange ----------------------------
(* Exhaustive model of the view-change phase machine (ViewChange.tla) for a small  *)
(* network, and generator of abstract histories (blocks of miner transactions, each *)
(* closed by the generator's payFees) that are replayed on the real contract.       *)
EXTENDS ViewChange, TLC, Json

CONSTANTS Miners, Sharders, Stranger,   \* registered miners / sharders (= previous magic block), an outsider
          PRs,                          \* rounds per phase, <<start, contribute, share, publish, wait>>
          MinN, MaxN, MinS, MaxS, K0, T0,
          MaxRound, MaxTx,              \* bounds: rounds explored, miner transactions per block
          Focus                         \* generator only: out-of-phase transactions are tried by this miner only

VARIABLES S, round, ntx, hist
vars == <<S, round, ntx>>

C == [pr |-> [p \in 0..4 |-> PRs[p + 1]], minN |-> MinN, maxN |-> MaxN, minS |-> MinS, maxS |-> MaxS,
      all |-> Miners, shs |-> Sharders]
S0 == [present |-> FALSE, phase |-> 0, start |-> 0, restarts |-> 0, dkg |-> {}, k |-> 0, t |-> 0, mpks |-> {},
       gsos |-> {}, keep |-> {}, waited |-> {}, mbst |-> -1, mbm |-> {}, mbs |-> {}, vc |-> -1,
       prevM |-> Miners, prevS |-> Sharders]
PR_ones == <<1, 1, 1, 1, 1>>
PR_real == <<1, 2, 1, 2, 2>>
MInit == S = S0 /\ round = 1 /\ ntx = 0 /\ hist = <<>>

Log(op, by, arg) == hist' = Append(hist, [op |-> op, by |-> by, arg |-> arg])
Tx == ntx < MaxTx /\ ntx' = ntx + 1 /\ UNCHANGED round
(* the code decides deterministically: a well-formed transaction is accepted *)
Pick(set) == IF Cardinality(set) = 1 THEN CHOOSE x \in set : TRUE ELSE CHOOSE x \in set : x # S

(* the reduction keeps everybody in these small networks (MaxN, MaxS are not binding) *)
A_PayFees == /\ round <= MaxRound
             /\ LET St == Stored(S, round)
                    mbm == MBCandidates(St)
                    mbs == IF St.keep = {} THEN Sharders ELSE St.keep
                IN S' = AfterPayFees(S, round, C, <<K0, T0>>, mbm, mbs, -1)
             /\ round' = round + 1 /\ ntx' = 0 /\ Log("payfees", "m1", "ok")
A_PayFeesBad == /\ Tx /\ UNCHANGED S /\ \E a \in {"stranger", "badround"} : Log("payfees", Stranger, a)
A_Mpk == /\ Tx /\ \E m \in Miners \cup {Stranger}, a \in {"ok", "short", "spoof"} :
               /\ S' = Pick(AfterMpk(S, m, IF a = "short" THEN S.t - 1 ELSE S.t))
               /\ Log("mpk", m, a)
A_Keep == /\ Tx /\ \E s \in Sharders \cup {CHOOSE m \in Miners : TRUE} :
               /\ S' = Pick(AfterKeep(S, s, C)) /\ Log("keep", s, "ok")
A_Sos == /\ Tx /\ \E m \in Miners \cup {Stranger}, a \in {"ok", "few", "badsig", "reveal", "replay"} :
               /\ S' = Pick(AfterSos(S, m, IF a = "few" THEN S.k - 2 ELSE Cardinality(S.dkg) - 1, a # "badsig"))
               /\ Log("sos", m, a)
A_Wait == /\ Tx /\ \E m \in Miners \cup {Stranger} : S' = Pick(AfterWait(S, m)) /\ Log("wait", m, "ok")
MNext == A_PayFees \/ A_PayFeesBad \/ A_Mpk \/ A_Keep \/ A_Sos \/ A_Wait
MSpec == MInit /\ [][MNext]_<<vars, hist>>
MView == vars

(* ---- what the model guarantees ---- *)
M_Type == /\ S.phase \in 0..4 /\ S.mpks \subseteq Miners /\ S.gsos \subseteq Miners /\ S.waited \subseteq Miners
          /\ S.keep \subseteq Sharders /\ S.dkg \subseteq Miners
M_OnlyParticipants == /\ (S.phase = Contribute => S.mpks \subseteq S.dkg)
                      /\ (S.phase \in {Share, Publish} => S.dkg \subseteq S.mpks)
                      /\ S.gsos \subseteq S.dkg /\ S.waited \subseteq S.dkg
M_ListsWithPhase == /\ (S.phase = Start => (S.mpks = {} \/ S.restarts = 0) /\ S.gsos = {} /\ S.keep = {})
                    /\ (S.gsos # {} => S.phase = Publish) /\ (S.waited # {} => S.phase \in {Wait, Start})
M_MagicBlock == S.mbst >= 0 => /\ HasPrev(S.mbm, Miners) /\ HasPrev(S.mbs, Sharders)
                               /\ Cardinality(S.mbm) >= K0 /\ Cardinality(S.mbm) >= MinN /\ Cardinality(S.mbs) >= MinS
M_PhaseOrder == [][PhaseStepOK(S, S', round, C)]_vars

(* ---- generator (-simulate): biased towards transactions that fit the phase ---- *)
Fits(op) == CASE op = "mpk" -> S.phase = Contribute [] op = "keep" -> S.phase = Contribute
              [] op = "sos" -> S.phase = Publish [] op = "wait" -> S.phase = Wait [] OTHER -> TRUE
Last == hist'[Len(hist')]
G_Step == /\ MNext
          /\ (Last.op # "payfees" => (Fits(Last.op) \/ Last.by = Focus))
          /\ (Last.arg \notin {"ok"} => Last.by \in {Focus, Stranger})
G_Done == round > MaxRound /\ ntx' = MaxTx + 1 /\ ntx <= MaxTx /\ UNCHANGED <<S, round, hist>>
GSpec == MInit /\ [][G_Step \/ G_Done]_<<vars, hist>>
GPrint == ntx = MaxTx + 1 => PrintT(<<"BEHAVIOUR", ToJson(hist)>>)
=============================================================================
