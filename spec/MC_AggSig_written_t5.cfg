SPECIFICATION Spec
CONSTANTS
  P = 5
  MaxN = 3
  KeyVals = {1, 2}
  MsgVals = {1, 3}
  WrongKeys = {1, 2, 4}
  WrongMsgs = {1, 3, 2}
  Deltas = {1, 2, 3, 4}
  SameModes = {TRUE, FALSE}
  MaxTouched = 3
  GenMaxMixed = 2
  GenWithRepeat = FALSE
  MaxPasses = 1
  ReKeys = {}
  AsCoded = TRUE
INVARIANTS TypeOK ObjectsCurrent Completeness SoundNonCancelling SingleFaultDetected BatchSplitIndependent OnlyGapIsCancelling
CHECK_DEADLOCK FALSE
