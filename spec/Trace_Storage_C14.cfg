SPECIFICATION TraceSpec
INVARIANTS NoPanic HarnessRange HarnessExact C14_Close C14_RefundExact C14_Once C14_Dead C14_OnlyClose
POSTCONDITION Accepted
CHECK_DEADLOCK FALSE
