SPECIFICATION Spec
CONSTANTS
  Node = {"n1", "n2", "n3", "n4"}
  IdOrder <- MCIdOrder
  Seeds = {1}
  PermOf <- MCPerm
  Scores = {1, 2}
  NReps <- MCNRepsPos
  IndexBySortedId = FALSE
  CutAtN = TRUE
  Sharing = FALSE
  ReplaceByKey = TRUE
  MaxReAdd = 0
  CanonicalFirst = TRUE
INVARIANTS TypeOK C42_SameSet
CHECK_DEADLOCK FALSE
