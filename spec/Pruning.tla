------------------------------- MODULE Pruning -------------------------------
(***************************************************************************)
(* C27  Pruning never deletes state that a retained block still needs.     *)
(*                                                                         *)
(* Content-addressed node store (PNodeDB) under a chain of finalized       *)
(* blocks.  A block is a list of transactions, each an insert or a delete  *)
(* of one key; every transaction's node changes are merged into the        *)
(* block's ChangeCollector with the collector's own rules (AddChange /     *)
(* DeleteChange of core/util/mpt_node_change.go, merge order of            *)
(* MerklePatriciaTrie.mergeChanges: changes first, then deletes).          *)
(* Finalizing a block (chain.finalizeBlock) saves the collector's new      *)
(* nodes (SaveChanges) and records its deletes as dead AT THE BLOCK'S      *)
(* ROUND (RecordDeadNodes(GetDeletes(), round)); the record of a round is  *)
(* overwritten by a later record of the same round.  Prune(v)              *)
(* (PNodeDB.PruneBelowVersion) deletes every node recorded dead at a round *)
(* < v.                                                                    *)
(*                                                                         *)
(* Abstraction: the trie has a root node listing its leaves and one leaf   *)
(* per present key.  A node's identity ("hash") is its content; AS IN THE  *)
(* CODE the content includes the ORIGIN = round of the block that created  *)
(* the node (insertNode: newNode.SetOrigin(mpt.Version)), so an identical  *)
(* value re-created in a later block is a different node, and only a       *)
(* re-creation inside the same block yields the same node again.           *)
(* OriginInHash = FALSE describes a design without that, for which TLC     *)
(* finds the delete/re-create counterexample.                              *)
(***************************************************************************)
EXTENDS Integers, FiniteSets, Sequences

CONSTANTS Key, Val,        \* keys and (present) values
          MaxBlocks,       \* blocks 1..MaxBlocks
          MaxOps,          \* transactions per block
          OriginInHash,    \* TRUE: as in the code
          RecordOffset,    \* dead nodes of block r are recorded at round r - RecordOffset (0 in the code)
          MaxRollbacks,    \* bound on the number of rollbacks in a history
          EmptyRecordWritten, \* TRUE: as in the code, an empty dead-node list is recorded too
          CrashOnStale     \* may a crash before the record hit a round that carries an abandoned block's record?

None == [t |-> "none"]
Org(r) == IF OriginInHash THEN r ELSE 0
Leaf(k, v, r) == [t |-> "leaf", k |-> k, v |-> v, o |-> Org(r), kids |-> {}]
Root(kids, r) == [t |-> "root", k |-> "", v |-> 0, o |-> Org(r), kids |-> kids]

VARIABLES tree,     \* Key -> leaf node or None: the trie of the block being built
          root,     \* its root node
          round,    \* round of the block being built
          nops,     \* transactions executed in it
          changes,  \* ChangeCollector.Changes: new node -> old node (None for a fresh one)
          deletes,  \* ChangeCollector.Deletes
          store,    \* nodes in the persistent store
          dead,     \* round -> set of nodes recorded dead at that round
          final,    \* sequence of finalized blocks [round, root]
          pruned,   \* highest version pruned so far
          nroll     \* rollbacks so far

vars == <<tree, root, round, nops, changes, deletes, store, dead, final, pruned, nroll>>

Kids(tr) == {tr[k] : k \in {x \in Key : tr[x] # None}}

Init ==
  /\ tree = [k \in Key |-> None] /\ root = Root({}, 0)
  /\ round = 1 /\ nops = 0
  /\ changes = <<>> /\ deletes = {}
  /\ store = {Root({}, 0)} /\ dead = <<>>
  /\ final = <<[round |-> 0, root |-> Root({}, 0)]>> /\ pruned = 0
  /\ nroll = 0

-----------------------------------------------------------------------------
(* ChangeCollector, as functions on <<changes, deletes>> *)
Dom(f) == DOMAIN f
Without(f, x) == [y \in Dom(f) \ {x} |-> f[y]]
With(f, x, v) == [y \in Dom(f) \cup {x} |-> IF y = x THEN v ELSE f[y]]

AddChange(cc, old, new) ==
  LET ch == cc[1] del == cc[2] \ {new} IN        \* delete(cc.Deletes, nhash)
  IF old = None THEN <<With(ch, new, None), del>>
  ELSE IF old \in Dom(ch)
         THEN IF ch[old] # None /\ ch[old] = new
                THEN <<Without(ch, old), del>>                     \* back to the node before the block
                ELSE <<With(Without(ch, old), new, ch[old]), del>>
         ELSE <<With(ch, new, old), del \cup {old}>>

DeleteChange(cc, old) ==
  IF old \in Dom(cc[1]) THEN <<Without(cc[1], old), cc[2]>>
                        ELSE <<cc[1], cc[2] \cup {old}>>

(* insertNode(old, new): nothing happens when the very same node is inserted *)
InsertNode(cc, old, new) == IF old # None /\ old = new THEN cc ELSE AddChange(cc, old, new)

(* one transaction on key k: v \in Val inserts/overwrites, v = 0 deletes; merged changes-first *)
Txn(k, v) ==
  /\ nops < MaxOps /\ round <= MaxBlocks
  /\ v = 0 => tree[k] # None
  /\ LET lo == tree[k]
         ln == IF v = 0 THEN None ELSE Leaf(k, v, round)
         tr2 == [tree EXCEPT ![k] = ln]
         r2 == Root(Kids(tr2), round)
         cc0 == <<changes, deletes>>
         cc1 == IF ln = None THEN cc0 ELSE InsertNode(cc0, lo, ln)
         cc2 == InsertNode(cc1, root, r2)
         \* the transaction's own deletes, merged afterwards
         cc3 == IF lo # None /\ lo # ln THEN DeleteChange(cc2, lo) ELSE cc2
         cc4 == IF root # r2 THEN DeleteChange(cc3, root) ELSE cc3
     IN /\ tree' = tr2 /\ root' = r2
        /\ changes' = cc4[1] /\ deletes' = cc4[2]
  /\ nops' = nops + 1
  /\ UNCHANGED <<round, store, dead, final, pruned, nroll>>

(* chain.finalizeBlock: SaveChanges + RecordDeadNodes(GetDeletes(), round); next block starts *)
Finalize(record) ==
  /\ round <= MaxBlocks
  /\ record \/ CrashOnStale \/ (round - RecordOffset) \notin Dom(dead)
  /\ store' = store \cup Dom(changes)
  /\ dead' = IF record /\ round - RecordOffset >= 0 /\ (EmptyRecordWritten \/ deletes # {})
               THEN With(dead, round - RecordOffset, deletes) ELSE dead   \* ~record: crash before the record was written
  /\ final' = Append(final, [round |-> round, root |-> root])
  /\ round' = round + 1 /\ nops' = 0 /\ changes' = <<>> /\ deletes' = {}
  /\ UNCHANGED <<tree, root, pruned, nroll>>

(* PNodeDB.PruneBelowVersion(v), v up to the latest finalized round *)
Prune(v) ==
  /\ v > pruned /\ v <= final[Len(final)].round
  /\ LET rs == {q \in Dom(dead) : q < v} IN
       /\ store' = store \ UNION {dead[q] : q \in rs}
       /\ dead' = [q \in Dom(dead) \ rs |-> dead[q]]
  /\ pruned' = v
  /\ UNCHANGED <<tree, root, round, nops, changes, deletes, final, nroll>>

(* chain.finalizeRound's rollback: the last n finalized blocks are abandoned, the LFB is the  *)
(* block below them again and the next block is built on ITS state, at the round above it.   *)
(* Store and dead-node records are not touched.  The block under construction is dropped.    *)
(* Not below the pruned version: the state the chain would return to is (rightly) gone - the  *)
(* code prunes PruneStateBelowCount rounds below the LFB and C27 speaks of retained blocks.   *)
TreeOf(rt) == [k \in Key |-> IF \E x \in rt.kids : x.k = k THEN CHOOSE x \in rt.kids : x.k = k ELSE None]
Rollback(n) ==
  /\ nroll < MaxRollbacks
  /\ n \in 1..(Len(final) - 1)
  /\ LET to == final[Len(final) - n] IN
       /\ to.round >= pruned
       /\ final' = SubSeq(final, 1, Len(final) - n)
       /\ root' = to.root /\ tree' = TreeOf(to.root)
       /\ round' = to.round + 1
  /\ nops' = 0 /\ changes' = <<>> /\ deletes' = {}
  /\ nroll' = nroll + 1
  /\ UNCHANGED <<store, dead, pruned>>

Next == \/ \E k \in Key, v \in Val \cup {0} : Txn(k, v)
        \/ \E rec \in BOOLEAN : Finalize(rec)
        \/ \E v \in 1..MaxBlocks : Prune(v)
        \/ \E n \in 1..MaxBlocks : Rollback(n)
Spec == Init /\ [][Next]_vars

-----------------------------------------------------------------------------
Reach(r) == {r} \cup r.kids
(* C27: every node of every retained finalized block (round >= pruned version) is in the store *)
C27_RetainedReadable ==
  \A i \in 1..Len(final) : final[i].round >= pruned => Reach(final[i].root) \subseteq store

(* the collector never lists a node both as new and as dead (ChangeCollector.Validate) *)
CollectorValid == Dom(changes) \cap deletes = {}
(* what is live at the end of a block is never in its dead list *)
LiveNotDead == Reach(root) \cap deletes = {}
=============================================================================
