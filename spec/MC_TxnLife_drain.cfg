SPECIFICATION FairSpec
CONSTANTS
  Sender = {"c1"}
  MaxNonce = 2
  Tol = 1
  FutureNonce = 2
  MaxTx = 1
  CleanupMargin = 1
  OwnKeepsPast = TRUE
  Kinds = {"ok"}
  CtOffsets = {0}
  MaxClock = 3
  SignUntil = 0
  MaxTxns = 2
  MaxBlocks = 2
  MaxRecv = 1
  RecvTimes = {0}
  AllowResubmit = TRUE
  Interleave = TRUE
INVARIANTS TypeOK
PROPERTIES PoolDrains
CHECK_DEADLOCK FALSE
