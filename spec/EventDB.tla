------------------------------- MODULE EventDB -------------------------------
(***************************************************************************)
(* C20: what the query (event) database holds after a block is finalized.  *)
(* blockEvents (emitted by burn / mint, burn.go:100-112, mint.go:160-170)  *)
(*   -> Merge (process.go mergeEvents: one merger per tag)                 *)
(*   -> Store (process.go processEvent: one handler per tag).              *)
(*                                                                         *)
(* Deviations of the code as written are constants:                        *)
(*   Merger = "overwrite": the burn-ticket, authorizer-burn and            *)
(*      bridge-mint tags use withUniqueEventOverwrite: of the events with  *)
(*      one index (ethereum address / burner / minting client) only the    *)
(*      last survives.  "append" keeps all.                                *)
(*      This is the code as written (recorded as a known finding).         *)
(*   TicketStore = "first": the TagAddBurnTicket handler stored bt[0]      *)
(*      only (the merged list is built from a Go map: any element).        *)
(*   MintKey = "to": updateAuthorizersTotalMint keyed the update by        *)
(*      state.Mint.ToClientID, which the handler leaves empty (it fills    *)
(*      Minter): no authorizer row matched.  "minter" keys by the signer.  *)
(*      Both were found by this check and repaired in /repo ("fix: store   *)
(*      every burn ticket of a merged event, not only the first", "fix:    *)
(*      credit bridge mint totals to the signing authorizer"); the configs *)
(*      of the code as written run with "all" / "minter", the former       *)
(*      values document the old behaviour (MC_EventDB_former.cfg).         *)
(* Stake-pool reward events are merged by summation per provider.          *)
(*                                                                         *)
(* Blocks follow one another (NextBlock, at most MaxBlocks): the burn nonce *)
(* of an address and the mint nonce run on, and the burn_tickets table     *)
(* (db, its rows identified by (address, nonce)) keeps the rows of the     *)
(* earlier blocks.  The ticket handler refuses a ticket whose (address,    *)
(* nonce) is already in the table, and an error of a handler rolls the     *)
(* whole block's events back (process.go: one transaction per block), so   *)
(* the block's tickets and totals would be lost (Store, `clash`).  Nonces  *)
(* of one address never repeat, so no block is ever refused                *)
(* (C20_NoBlockRefused) and the table holds the ticket of every burn of    *)
(* every block so far (C20_TicketsOfAllBlocks).                            *)
(***************************************************************************)
EXTENDS EventDBDefs, TLC

CONSTANTS Client, Eth, Auths, SignerSets, MaxBurns, MaxMints,
          MaxBlocks,     \* number of consecutive blocks
          Merger, TicketStore, MintKey

VARIABLES phase, B, nonce, mintSeq,
          db,            \* burn_tickets rows of all blocks so far, as (address, nonce) keys
          blk,           \* number of the block under construction
          refused        \* some block's events were rolled back
vars == <<phase, B, nonce, mintSeq, db, blk, refused>>

Empty == [burns |-> <<>>, mints |-> <<>>, rewards |-> <<>>, mTickets |-> <<>>, mBurns |-> <<>>, mMints |-> <<>>,
          mRewards |-> <<>>, rows |-> <<>>, dBurn |-> <<>>, dMint |-> <<>>, auths |-> Auths]
Init == /\ phase = "emit" /\ B = Empty /\ nonce = [e \in Eth |-> 0] /\ mintSeq = 0
        /\ db = {} /\ blk = 1 /\ refused = FALSE
KeyOf(t) == [eth |-> t.eth, nonce |-> t.nonce]

Amount(k) == 2 ^ (k - 1)     \* distinct powers of two: a sum tells which events were counted

EmitBurn(c, e) ==
  /\ phase = "emit" /\ Len(B.burns) < MaxBurns
  /\ nonce' = [nonce EXCEPT ![e] = @ + 1]
  /\ B' = [B EXCEPT !.burns = Append(@, [c |-> c, eth |-> e, amount |-> Amount(Len(B.burns) + Len(B.mints) + 1), nonce |-> nonce'[e]])]
  /\ UNCHANGED <<phase, mintSeq, db, blk, refused>>
EmitMint(c, S) ==
  /\ phase = "emit" /\ Len(B.mints) < MaxMints
  /\ mintSeq' = mintSeq + 1
  /\ \E payee \in Range(S) :
       B' = [B EXCEPT !.mints = Append(@, [c |-> c, nonce |-> mintSeq', amount |-> Amount(Len(B.burns) + Len(B.mints) + 1), signers |-> S]),
                      !.rewards = Append(@, [a |-> payee, d |-> 1])]
  /\ UNCHANGED <<phase, nonce, db, blk, refused>>

SeqOf(S) == CHOOSE s \in [1..Cardinality(S) -> S] : Range(s) = S
Kept(s, K(_)) == IF Merger = "overwrite" THEN LastPerIndex(s, K) ELSE 1..Len(s)
SubSeqOf(s, I) == LET n == Cardinality(I)
                      ord == CHOOSE f \in [1..n -> I] : \A i, j \in 1..n : i < j => f[i] < f[j]
                  IN [k \in 1..n |-> s[ord[k]]]
Providers == {r.a : r \in Range(B.rewards)}

Merge ==
  /\ phase = "emit" /\ phase' = "merged"
  /\ B' = [B EXCEPT !.mTickets = SubSeqOf(Map(B.burns, Ticket), Kept(B.burns, LAMBDA b : b.eth)),
                    !.mBurns = SubSeqOf(Map(B.burns, BurnEv), Kept(B.burns, LAMBDA b : b.c)),
                    !.mMints = SubSeqOf(Map(B.mints, MintEv), Kept(B.mints, LAMBDA m : m.c)),
                    !.mRewards = IF Providers = {} THEN <<>> ELSE
                                 LET ps == SeqOf(Providers) IN
                                 [i \in 1..Len(ps) |-> [a |-> ps[i], d |-> SumOver(B.rewards, 1, LAMBDA r : IF r.a = ps[i] THEN r.d ELSE 0)]]]
  /\ UNCHANGED <<nonce, mintSeq, db, blk, refused>>

Store ==
  /\ phase = "merged" /\ phase' = "stored"
  /\ LET clash == \E i \in 1..Len(B.mTickets) : KeyOf(B.mTickets[i]) \in db IN
     IF clash
     THEN \* addBurnTicket: "burn ticket with the given ethereum address and nonce already exists" -> rollback
          /\ B' = [B EXCEPT !.rows = <<>>, !.dBurn = <<>>, !.dMint = <<>>]
          /\ refused' = TRUE /\ UNCHANGED db
     ELSE
       /\ \E rows \in (IF TicketStore = "all" \/ Len(B.mTickets) = 0 THEN {B.mTickets} ELSE {<<B.mTickets[i]>> : i \in 1..Len(B.mTickets)}) :
           /\ B' = [B EXCEPT !.rows = rows,
                      !.dBurn = B.mBurns,
                      !.dMint = IF MintKey = "minter" /\ Len(B.mMints) > 0
                                THEN LET as == SeqOf(Auths) IN
                                     [i \in 1..Len(as) |-> [a |-> as[i], d |-> SumOver(B.mMints, 1, LAMBDA m : IF as[i] \in Range(m.signers) THEN m.amount ELSE 0)]]
                                ELSE <<>>]
           /\ db' = db \cup {KeyOf(rows[i]) : i \in 1..Len(rows)}
       /\ UNCHANGED refused
  /\ UNCHANGED <<nonce, mintSeq, blk>>

\* the next block: B.rows / dBurn / dMint are what ONE block adds, the table and the nonces run on
NextBlock ==
  /\ phase = "stored" /\ blk < MaxBlocks /\ Len(B.burns) + Len(B.mints) > 0
  /\ phase' = "emit" /\ B' = Empty /\ blk' = blk + 1
  /\ UNCHANGED <<nonce, mintSeq, db, refused>>

Next == \/ \E c \in Client, e \in Eth : EmitBurn(c, e)
        \/ \E c \in Client, S \in SignerSets : EmitMint(c, S)
        \/ Merge \/ Store \/ NextBlock
Spec == Init /\ [][Next]_vars

-----------------------------------------------------------------------------
C20_MergeKeepsAll == phase \in {"merged", "stored"} => MergeKeepsAll(B)
C20_TicketPerBurn == phase = "stored" => TicketPerBurn(B)
C20_BurnTotals == phase = "stored" => BurnTotals(B)
C20_MintTotals == phase = "stored" => MintTotals(B)
\* over the blocks: no block is refused, the table holds the ticket of every burn of every block so far
C20_NoBlockRefused == ~refused
AllBurnKeys == UNION {{[eth |-> e, nonce |-> n] : n \in 1..nonce[e]} : e \in Eth}
C20_TicketsOfAllBlocks == phase = "stored" => db = AllBurnKeys
(* the code as written *)
C20w_MergeKeepsLast == phase \in {"merged", "stored"} => MergeKeepsLast(B)
C20w_StoresAllMerged == phase = "stored" => StoresAllMerged(B)
C20w_MintTotalsOfMerged == phase = "stored" => MintTotalsOfMerged(B)
\* over the blocks: still no block is refused; the table holds tickets of burns only, and of every address burnt to its latest
C20w_NoBlockRefused == ~refused
C20w_LatestTicketOfAllBlocks == phase = "stored" =>
    (db \subseteq AllBurnKeys /\ \A e \in Eth : nonce[e] > 0 => [eth |-> e, nonce |-> nonce[e]] \in db)
(* the former handlers *)
C20w_StoresOneTicket == phase = "stored" => StoresOneTicket(B)
C20w_BurnTotalsOfMerged == phase = "stored" => BurnTotalsOfMerged(B)
C20w_NoMintTotals == phase = "stored" => B.dMint = <<>>
=============================================================================
