------------------------------ MODULE Gen_Faucet ------------------------------
(* Behaviour generator: TLC -simulate walks Faucet.tla (code-as-written        *)
(* variant) and prints every completed walk as the list of transactions        *)
(* [op, c, v, t, cfg]: vdriver replays each list on the real chain (amounts    *)
(* x100 token-units, t x100 s).  A walk alternates a clock step (0..MaxStep)   *)
(* and a transaction.  Requested values strictly between pour and max_pour     *)
(* (where the model predicts the limit overshoot) are produced only in walks   *)
(* with midsel = 1, so that the number of replayed walks that can reach the    *)
(* predicted overshoot stays small.                                            *)
EXTENDS MC_Faucet, Sequences, Json
CONSTANT GenLen, MidOneIn
VARIABLES hist, midsel, phase
gvars == <<vars, hist, midsel, phase>>
GInit == Init /\ hist = <<>> /\ midsel \in 1..MidOneIn /\ phase = "op"
Step(op, c, v, nc) == hist' = Append(hist, [op |-> op, c |-> c, v |-> v, t |-> now, cfg |-> nc])
Mid(v) == v > cfg.pour /\ v < cfg.maxPour
G_Pour == \E c \in Client, v \in Values :
            /\ (Mid(v) => midsel = 1)
            /\ Pour(c, v) /\ Step("pour", c, v, cfg)
G_Refill == \E c \in Client, v \in Refills : Refill(v) /\ Step("refill", c, v, cfg)
G_Update == \E nc \in Configs : Update(nc) /\ Step("update", "owner", 0, nc)
G_Clock == /\ phase = "clock" /\ phase' = "op"
           /\ \E d \in 0..MaxStep : now + d <= MaxTime /\ now' = now + d
           /\ UNCHANGED <<bal, cfg, used, ustart, gused, gstart, ovars, hist, midsel>>
G_Op == /\ phase = "op" /\ Len(hist) < GenLen /\ phase' = "clock"
        /\ (G_Pour \/ G_Refill \/ G_Update) /\ UNCHANGED midsel
G_Done == /\ phase = "clock" /\ Len(hist) = GenLen /\ phase' = "done"
          /\ UNCHANGED <<vars, hist, midsel>>
GNext == (G_Clock /\ Len(hist) < GenLen) \/ G_Op \/ G_Done
GSpec == GInit /\ [][GNext]_gvars
GPrint == (phase = "done") => PrintT(<<"BEHAVIOUR", ToJson(hist)>>)
=============================================================================
