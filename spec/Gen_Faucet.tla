------------------------------ MODULE Gen_Faucet ------------------------------
(* Behaviour generator: TLC -simulate walks Faucet.tla (code-as-written        *)
(* variant) and prints every completed walk as the list of transactions        *)
(* [op, c, v, t, cfg]: vdriver replays each list on the real chain (amounts    *)
(* x100 token-units, t x100 s).  A walk alternates a clock step (0..MaxStep)   *)
(* and a transaction.                                                          *)
EXTENDS MC_Faucet, Sequences, Json
CONSTANT GenLen
VARIABLES hist, phase
gvars == <<vars, hist, phase>>
GInit == Init /\ hist = <<>> /\ phase = "op"
Step(op, c, v, nc) == hist' = Append(hist, [op |-> op, c |-> c, v |-> v, t |-> now, cfg |-> nc])
G_Pour == \E c \in Client, v \in Values : Pour(c, v) /\ Step("pour", c, v, cfg)
G_Refill == \E c \in Client, v \in Refills : Refill(v) /\ Step("refill", c, v, cfg)
G_Update == \E nc \in Configs : Update(nc) /\ Step("update", "owner", 0, nc)
G_Clock == /\ phase = "clock" /\ phase' = "op"
           /\ \E d \in 0..MaxStep : now + d <= MaxTime /\ now' = now + d
           /\ UNCHANGED <<bal, cfg, used, ustart, gused, gstart, ovars, hist>>
G_Op == /\ phase = "op" /\ Len(hist) < GenLen /\ phase' = "clock"
        /\ (G_Pour \/ G_Refill \/ G_Update)
G_Done == /\ phase = "clock" /\ Len(hist) = GenLen /\ phase' = "done"
          /\ UNCHANGED <<vars, hist>>
GNext == (G_Clock /\ Len(hist) < GenLen) \/ G_Op \/ G_Done
GSpec == GInit /\ [][GNext]_gvars
GPrint == (phase = "done") => PrintT(<<"BEHAVIOUR", ToJson(hist)>>)
=============================================================================
