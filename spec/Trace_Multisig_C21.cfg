SPECIFICATION TraceSpec
INVARIANTS NoPanic HarnessRange C21_Once C21_Threshold C21_Counted C21_Signature
POSTCONDITION Accepted
CHECK_DEADLOCK FALSE
