SPECIFICATION MCSpec
CONSTANTS
  Starts = {0, 3, 4, 5, 9, 10}
  Ents = {1, 2}
  Queries <- MCQueries
  VCO = 4
  PutBelowPruned = FALSE
  PrevSentinel = 99
INVARIANTS TypeOK C40_Index C40_MaxMaintained C40_Floor C40_Prev C40_PruneKeeps C40_PutStores
CHECK_DEADLOCK FALSE
