SPECIFICATION TraceSpec
INVARIANTS C31_QuorumOfVerifiedTickets
POSTCONDITION Accepted
CHECK_DEADLOCK FALSE
