------------------------------- MODULE Multisig -------------------------------
(***************************************************************************)
(* One multi-signature wallet of the multisig contract                     *)
(* (smartcontract/multisigsc/sc.go, models.go) and one proposal id.         *)
(*                                                                         *)
(* The wallet registers N signers (key shares of the wallet key) and a     *)
(* threshold T.  A vote names a proposal id and a transfer out of the      *)
(* wallet and carries the voter's share signature on that transfer.  The   *)
(* first vote creates the proposal (it expires Expiry time units later);   *)
(* a vote is COUNTED iff the wallet is registered, the sender is a         *)
(* registered signer, the signature verifies, the transfer is the          *)
(* proposal's transfer, the proposal has not expired and the signer has    *)
(* not voted yet.  With the T-th counted vote the threshold signature is   *)
(* recovered and one signed transfer is queued; the ledger applies it or   *)
(* rejects the whole vote transaction (wallet balance too low).  An        *)
(* expired proposal is dead; after it expired the same id starts a NEW     *)
(* proposal (a new instance, identified by its creation time).             *)
(*                                                                         *)
(* Clocks: `now` is the creation date of the BLOCK that carries the        *)
(* transaction.  A transaction also declares its own creation date, which  *)
(* the chain accepts anywhere within its transaction time tolerance of the *)
(* block's (much less than one time unit here), so a vote may be LATE: it  *)
(* was created before a clock boundary - in particular before the          *)
(* proposal's expiry - and is carried by a block created at/after it.      *)
(* Expiry is judged by the block clock only: `late` changes nothing.       *)
(*                                                                         *)
(* C21: every proposal instance is executed at most once, only with at     *)
(* least T distinct registered signers' counted votes; repeated votes do   *)
(* not count.                                                              *)
(***************************************************************************)
EXTENDS Integers, FiniteSets, TLC

CONSTANTS Signer,      \* registered signers
          Stranger,    \* other senders
          T,           \* num_required
          Transfers,   \* transfers votes may name: records [to, amt]
          Expiry,      \* lifetime of a proposal
          InitBal,     \* wallet balance
          MaxTime, MaxStep

None == [transfer |-> [to |-> "none", amt |-> 0], votes |-> {}, executed |-> FALSE, expiry |-> -1, born |-> -1]

VARIABLES now, registered, bal,
          prop,        \* None or the stored proposal
          execs,       \* history: instance (creation time) -> number of executions
          counted,     \* history: instance -> signers whose votes were counted
          last         \* the last step as an observer saw it

vars == <<now, registered, bal, prop, execs, counted, last>>
Times == 0..MaxTime
NoOp == [op |-> "none", paid |-> 0, inst |-> -1, late |-> FALSE]

Init == /\ now = 0 /\ registered = FALSE /\ bal = InitBal /\ prop = None
        /\ execs = [t \in Times |-> 0] /\ counted = [t \in Times |-> {}] /\ last = NoOp

Register ==                                         \* sc.go:86-128 (MinSigners = 2)
  /\ ~registered /\ T >= 2 /\ T <= Cardinality(Signer)
  /\ registered' = TRUE /\ last' = [NoOp EXCEPT !.op = "register"]
  /\ UNCHANGED <<now, bal, prop, execs, counted>>

Live == prop # None /\ now < prop.expiry
Fail(late) ==                                       \* chargeable error / rejected: nothing persists
        /\ last' = [NoOp EXCEPT !.op = "vote_fail", !.late = late]
        /\ UNCHANGED <<now, registered, bal, prop, execs, counted>>

(* sc.go:131-252 *)
\* late: the vote's own creation date lies before the block clock `now` (within the tolerance)
Vote(s, tr, sigok, late) ==
  LET fresh == prop = None \/ now >= prop.expiry            \* no live proposal: a new instance is created
      p == IF fresh THEN [transfer |-> tr, votes |-> {}, executed |-> FALSE, expiry |-> now + Expiry, born |-> now]
                    ELSE prop
      R == [NoOp EXCEPT !.late = late]
  IN IF prop # None /\ now >= prop.expiry
       THEN \* expired: the contract prunes it and fails this vote with an error, so the prune is not
            \* persisted; the proposal stays dead until a successful transaction prunes it (Prune)
            Fail(late)
     ELSE IF tr # p.transfer THEN Fail(late)                      \* not compatible
     ELSE IF p.executed THEN /\ last' = [R EXCEPT !.op = "vote_noop"]
                             /\ UNCHANGED <<now, registered, bal, prop, execs, counted>>
     ELSE IF ~registered \/ s \notin Signer \/ ~sigok THEN Fail(late)
     ELSE IF s \in p.votes
       THEN /\ last' = [R EXCEPT !.op = "vote_dup"]
            /\ UNCHANGED <<now, registered, bal, prop, execs, counted>>
     ELSE LET v2 == p.votes \cup {s} IN
          IF Cardinality(v2) < T
            THEN /\ prop' = [p EXCEPT !.votes = v2]
                 /\ counted' = [counted EXCEPT ![p.born] = @ \cup {s}]
                 /\ last' = [R EXCEPT !.op = "vote_counted", !.inst = p.born]
                 /\ UNCHANGED <<now, registered, bal, execs>>
          ELSE IF tr.amt > bal THEN Fail(late)                    \* the ledger rejects the whole transaction
          ELSE /\ prop' = [p EXCEPT !.votes = v2, !.executed = TRUE]
               /\ counted' = [counted EXCEPT ![p.born] = @ \cup {s}]
               /\ execs' = [execs EXCEPT ![p.born] = @ + 1]
               /\ bal' = bal - tr.amt
               /\ last' = [R EXCEPT !.op = "vote_exec", !.paid = tr.amt, !.inst = p.born]
               /\ UNCHANGED <<now, registered>>

Prune ==                                            \* pruneExpirationQueue inside a later successful vote
  /\ prop # None /\ now >= prop.expiry
  /\ prop' = None /\ last' = NoOp
  /\ UNCHANGED <<now, registered, bal, execs, counted>>

Tick(d) == /\ now + d <= MaxTime /\ now' = now + d /\ last' = NoOp
           /\ UNCHANGED <<registered, bal, prop, execs, counted>>

Next == \/ Register \/ Prune
        \/ \E s \in Signer \cup Stranger, tr \in Transfers, ok, late \in BOOLEAN : Vote(s, tr, ok, late)
        \/ \E d \in 1..MaxStep : Tick(d)
Spec == Init /\ [][Next]_vars

-----------------------------------------------------------------------------
TypeOK == /\ now \in Times /\ bal >= 0 /\ registered \in BOOLEAN
          /\ prop.votes \subseteq Signer

(* C21 *)
C21_Once      == \A t \in Times : execs[t] <= 1
C21_Threshold == \A t \in Times : execs[t] > 0 => Cardinality(counted[t]) >= T
C21_Distinct  == \A t \in Times : counted[t] \subseteq Signer
C21_PaidOnExec == (last.paid > 0) <=> (last.op = "vote_exec")
\* a vote is counted / executes only while the BLOCK clock is before the instance's expiry, late or not
C21_BlockClock == (last.op \in {"vote_counted", "vote_exec"}) => now < last.inst + Expiry
C21_ExecFlag  == prop.executed => (Cardinality(prop.votes) >= T /\ execs[prop.born] = 1)
=============================================================================
