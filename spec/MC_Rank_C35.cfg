SPECIFICATION Spec
CONSTANTS
  Node = {"n1", "n2", "n3", "n4"}
  IdOrder <- MCIdOrder
  Seeds = {1, 2, 3}
  PermOf <- MCPerm
  Scores = {1}
  NReps = {0}
  IndexBySortedId = TRUE
  CutAtN = FALSE
  Sharing = FALSE
  ReplaceByKey = TRUE
  MaxReAdd = 0
  CanonicalFirst = FALSE
INVARIANTS TypeOK C35_RankSame C35_RankPermutation
CHECK_DEADLOCK FALSE
