SPECIFICATION Spec
CONSTANTS
  P = 5
  MaxN = 4
  MaxT = 4
  CoefVals = {0, 1, 2, 3, 4}
  MsgVals = {1, 2}
  Kinds = {"ok", "bad", "wrongmsg", "other", "stale"}
  MaxArrivals = 4
  MaxPerParty = 2
INVARIANTS TypeOK C33_Cap C33_OnlyValidStored C33_SeedIffThreshold C33_SeedFunction
CHECK_DEADLOCK FALSE
