SPECIFICATION MCSpec
CONSTANTS
  Rounds = {1, 2, 3, 4, 5}
  Ids = {1, 2}
  Caps = {1, 2, 3, 4, 5}
INVARIANTS TypeOK C46_Sorted C46_Capacity C46_LowestFirst C46_AddDropsOnlyHighest C46_RepeatIgnored SearchIsUpperBound CodedFifoAmongEqual
CHECK_DEADLOCK FALSE
