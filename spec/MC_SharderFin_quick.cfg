SPECIFICATION Spec
CONSTANTS
  Canon <- MCCanon3
  Fork <- MCNoFork
  Info <- MCInfo
  Genesis = "g"
  Batch = 1
  Confirmations = 1
  CountMerges = TRUE
  MaxFaults = 1
  MaxCnt = 4
  Concurrent = FALSE
  MaxLag = 0
CONSTRAINT StateConstraint
INVARIANTS TypeOK RoundMapCanonical LFBCanonical RestartPossible LFBPersisted OnlyFinalizedStored CountAtLeast CountMultiple
  ServeByRoundSound ConfirmationSound
PROPERTIES RoundMapStable LFBChain FinalizationComplete RepairCompletes RepairKeeps RepairWindow
CHECK_DEADLOCK FALSE
