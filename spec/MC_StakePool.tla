---------------------------- MODULE MC_StakePool ----------------------------
(* Exhaustive small-constant configurations of StakePool.tla, one Init/Next  *)
(* pair per property (C10, C11, C23); the .cfg files select the pair, the    *)
(* bounds and whether the code-as-written deviations are switched on.        *)
EXTENDS StakePool

CONSTANTS Delegates,    \* the clients that may hold delegate pools
          Balances,     \* initial delegate balances enumerated by the C10 / C23 configs
          MinStakes,    \* provider min-stake values enumerated
          MaxN,         \* largest subset size for DistributeRewardsRandN
          MaxSteps,     \* bound on the number of steps of one behaviour
          Amounts,      \* lock amounts (C11)
          Funds         \* initial balance of every client (C11)

VARIABLE steps
mcvars == <<vars, steps>>

OrdC10 == <<"d1", "d2", "d3", "own", "p1">>
OrdC23 == <<"d1", "w1", "own", "x", "p1", "p2">>
OrdC11 == <<"c1", "c2", "own", "p1", "p2">>
Charges == {<<0, 1>>, <<1, 3>>, <<1, 1>>}

MkSP(D, b, rw, k, ms, ch, w) ==
  [pools |-> [d \in D |-> [bal |-> b[d], reward |-> rw]], reward |-> 0, killed |-> k, minStake |-> ms,
   cnum |-> ch[1], cden |-> ch[2], wallet |-> w, maxDel |-> 2]

Tick == steps < MaxSteps /\ steps' = steps + 1

(* ------------------------------ C10 ------------------------------------- *)
P1 == CHOOSE p \in Provider : TRUE
InitC10 ==
  /\ \E D \in SUBSET Delegates, ch \in Charges, k \in BOOLEAN, ms \in MinStakes :
       \E b \in [D -> Balances] : node = (P1 :> MkSP(D, b, 0, k, ms, ch, Owner))
  /\ prec = [p \in Provider |-> [killed |-> FALSE, shut |-> FALSE, bad |-> FALSE]]
  /\ cbal = [c \in Client |-> 0] /\ wallet = 0
  /\ hist = [locked |-> ZeroHist, unstaked |-> ZeroHist, credited |-> ZeroHist, collected |-> ZeroHist, slashed |-> ZeroHist]
  /\ last = NoStep /\ steps = 0
A_Distribute == Tick /\ \E p \in Provider, V \in 0..MaxV : Distribute(p, V)
A_DistributeRandN == Tick /\ \E p \in Provider, V \in 0..MaxV, N \in 0..MaxN : DistributeRandN(p, V, N)
NextC10 == A_Distribute \/ A_DistributeRandN
SpecC10 == InitC10 /\ [][NextC10]_mcvars

(* ------------------------------ C11 ------------------------------------- *)
InitC11 ==
  /\ \E ch \in {<<0, 1>>, <<1, 3>>} :
       node = [p \in Provider |-> MkSP({}, <<>>, 0, FALSE, 0, ch, Owner)]
  /\ prec = [p \in Provider |-> [killed |-> FALSE, shut |-> FALSE, bad |-> FALSE]]
  /\ cbal = [c \in Client |-> Funds] /\ wallet = 0
  /\ hist = [locked |-> ZeroHist, unstaked |-> ZeroHist, credited |-> ZeroHist, collected |-> ZeroHist, slashed |-> ZeroHist]
  /\ last = NoStep /\ steps = 0
A_Lock == Tick /\ \E d \in Client, p \in Provider, v \in Amounts : Lock(d, p, v)
A_Unlock == Tick /\ \E c \in Client, p \in Provider : Unlock(c, p)
A_Collect == Tick /\ \E c \in Client, p \in Provider : Collect(c, p)
A_Reward == Tick /\ \E p \in Provider, V \in 1..MaxV : Distribute(p, V)
A_KillByOwner == Tick /\ \E p \in Provider : Kill(Owner, p)
NextC11 == A_Lock \/ A_Unlock \/ A_Collect \/ A_Reward \/ A_KillByOwner
SpecC11 == InitC11 /\ [][NextC11]_mcvars

(* ------------------------------ C23 ------------------------------------- *)
Wallets == Client \ {Owner}
InitC23 ==
  /\ \E b \in [Provider -> Balances], w \in [Provider -> Wallets] :
       node = [p \in Provider |-> MkSP(Delegates, [d \in Delegates |-> b[p]], 1, FALSE, 0, <<1, 3>>, w[p])]
  /\ prec = [p \in Provider |-> [killed |-> FALSE, shut |-> FALSE, bad |-> FALSE]]
  /\ cbal = [c \in Client |-> 0] /\ wallet = 0
  /\ hist = [locked |-> [p \in Provider |-> [d \in Client |-> IF d \in Delegates THEN node[p].pools[d].bal ELSE 0]],
             unstaked |-> ZeroHist, credited |-> ZeroHist, collected |-> ZeroHist, slashed |-> ZeroHist]
  /\ last = NoStep /\ steps = 0
A_Kill == Tick /\ \E c \in Id, p \in Provider : Kill(c, p)
A_ShutDown == Tick /\ \E c \in Id, p \in Provider : ShutDown(c, p)
\* a delegate takes his (slashed) stake out of a live or a dead provider: after the last one has left, the
\* dead stake pool has no delegate pool any more and is still addressed by reward payments (A_Reward)
A_Leave == Tick /\ \E d \in Delegates, p \in Provider : HasPool(p, d) /\ Unlock(d, p)
NextC23 == A_Kill \/ A_ShutDown \/ A_Reward \/ A_Leave
SpecC23 == InitC23 /\ [][NextC23]_mcvars
=============================================================================
