SPECIFICATION TraceSpec
INVARIANTS HarnessFeesCollected C22_NoPanic C22_OnlyGenerator C22_Exact C22_Split C22_OncePerRound
POSTCONDITION Accepted
CHECK_DEADLOCK FALSE
