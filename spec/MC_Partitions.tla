---------------------------- MODULE MC_Partitions ----------------------------
(* Exhaustive exploration of Partitions: every history of Add / Update / Remove / *)
(* Get / ForEach / Save / Reload over the ids, for every partition size; the      *)
(* reachable graph is finite (no depth bound).                                   *)
(* MCView hides what no operation can observe: the stale top node while there     *)
(* are unsaved changes (a reload is only done after a Save, which rewrites it),   *)
(* the stale state node of a partition whose changed copy is cached (the cache    *)
(* shadows it until Save rewrites it), and the id of the last operation.          *)
EXTENDS Partitions
MCSpec == Init /\ [][Next]_vars
MCView == <<psize, lastLoc, lastItems, pcache, lcache,
            [i \in {k \in DOMAIN sparts : ~(k \in DOMAIN pcache /\ pcache[k].changed)} |-> sparts[i]],
            sloc, IF dirty THEN NoTop ELSE stop, dirty, ref, last.op, last.err>>
=============================================================================
