SPECIFICATION Spec
CONSTANTS
  Node = {"n1", "n2", "n3", "n4"}
  IdOrder <- MCIdOrder
  Seeds = {1}
  PermOf <- MCPerm
  Scores = {1, 2, 3}
  NReps <- MCNReps
  IndexBySortedId = TRUE
  CutAtN = FALSE
  Sharing = FALSE
  ReplaceByKey = TRUE
  MaxReAdd = 0
  CanonicalFirst = TRUE
INVARIANTS TypeOK C42_SameSet C42_AtLeastN C42_AllWhenDisabled
CHECK_DEADLOCK FALSE
