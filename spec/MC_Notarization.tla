--------------------------- MODULE MC_Notarization ---------------------------
EXTENDS Notarization, Json
RECURSIVE SetToSeq(_)
SetToSeq(S) == IF S = {} THEN <<>> ELSE LET x == CHOOSE y \in S : TRUE IN <<x>> \o SetToSeq(S \ {x})
HistJson == [i \in 1..Len(hist) |-> [m |-> hist[i].m, s |-> SetToSeq(hist[i].s), rep |-> hist[i].rep, early |-> hist[i].early]]
GPrint == (msgs = MaxMsgs) => PrintT(<<"BEHAVIOUR", ToJson(HistJson)>>)
=============================================================================
