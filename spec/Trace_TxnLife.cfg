SPECIFICATION TraceSpec
INVARIANTS
  C03_BranchNonceOrder C03_OncePerBranch
  C30_SubmitBound C30_BlockBound
  C45_GeneratedVerifies C45_NoDuplicate C45_ConsecutiveNonces C45_CostLimit
  HarnessEnv HarnessClock HarnessSubmit HarnessGenerated HarnessBlockTime HarnessGenBlock HarnessVerify HarnessNoExpired HarnessPool
POSTCONDITION Accepted
CHECK_DEADLOCK FALSE
