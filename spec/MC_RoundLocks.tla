--------------------------- MODULE MC_RoundLocks ---------------------------
EXTENDS RoundLocks, Json
\* every unordered pair (self-pairs included) of operations on one round / one block
\* an arbitrary fixed total order of operation names: the position in a sequence enumerating the set
RECURSIVE SeqOf(_)
SeqOf(S) == IF S = {} THEN <<>> ELSE LET x == CHOOSE y \in S : TRUE IN <<x>> \o SeqOf(S \ {x})
UPairs(S) == LET q == SeqOf(S) IN UNION {{<<q[i], q[j]>> : j \in i..Len(q)} : i \in 1..Len(q)}

CrossScenarios == {<<"X.Round.AddNotarizedBlock(b)", o>> : o \in {"B.GetBlockState", "B.SetBlockState", "B.IsBlockNotarized", "B.SetBlockNotarized", "B.Clone", "B.GetVerificationTickets"}}
VTScenarios == {<<"V.main", "V.worker(valid)", "V.worker(valid)">>,
                <<"V.main", "V.worker(invalid txn)", "V.worker(valid)">>,
                <<"V.main", "V.worker(invalid txn)", "V.worker(invalid txn)">>,
                <<"V.main", "V.worker(round moved on)", "V.worker(round moved on)">>}
MCScenarios == UPairs(RoundOps) \cup UPairs(BlockOps) \cup CrossScenarios \cup VTScenarios
NoGroups == {}
\* the groups repaired in /repo so far (GetNotarizedBlocks: RLock + copy; ValidateTransactions: atomic flags)
CodeFixed == {"getnb", "vt"}

\* static: the operations share a location that one of them writes
Accs(o) == {s \in {Steps(o)[i] : i \in 1..Len(Steps(o))} : s.k = "acc"}
Conf(s) == \E p, q \in DOMAIN s : p # q /\ \E a \in Accs(s[p]), b \in Accs(s[q]) : a.x = b.x /\ (a.m = "W" \/ b.m = "W")

AtInit == \A p \in Procs : pc[p] = 1
GPrint == /\ (AtInit => PrintT(<<"BEHAVIOUR", ToJson([sc |-> sc, race |-> "", conf |-> Conf(sc)])>>))
          /\ \A f \in RaceFields : PrintT(<<"BEHAVIOUR", ToJson([sc |-> sc, race |-> f, conf |-> TRUE])>>)
=============================================================================
