----------------------------- MODULE Gen_Bridge -----------------------------
(* Behaviour generator for the bridge driver (breadth-first, one BEHAVIOUR  *)
(* line per history).  mode "sweep": one mint by c1 for itself with a fresh *)
(* nonce for EVERY multiset of up to SweepN signature entries.  mode        *)
(* "hist": every sequence of up to GenLen steps over a reduced alphabet     *)
(* (burns, mints with a good / short quorum, repeated nonces, wrong         *)
(* receiver, low amount, deletion and re-registration of a3).               *)
(* Steps are printed in the driver's vocabulary (harness/drivers/bridge).   *)
EXTENDS MC_Bridge, Json

CONSTANTS GenModes, GenLen, SweepN, GBurns, GMints, GAuthOps
VARIABLES hist, mode
gvars == <<vars, hist, mode>>

KindName == [valid |-> "v", forged |-> "f", garbage |-> "g"]
Digit == [a1 |-> "1", a2 |-> "2", a3 |-> "3"]
SigName(e) == IF e.a = Stranger THEN "u" ELSE KindName[e.k] \o Digit[e.a]
ValName(v) == IF v = 0 THEN "zero" ELSE IF v < MinBurn THEN "below" ELSE IF v = MinBurn THEN "min" ELSE "above"
AmtName(a) == IF a >= MinMint /\ a >= MaxFee THEN "ok" ELSE "low"

BurnStep(c, e, v) == [op |-> "burn", c |-> c, eth |-> e, v |-> ValName(v)]
MintStep(c, p) == [op |-> "mint", c |-> c, rcv |-> p.rcv, n |-> p.n, amt |-> AmtName(p.amt),
                   sigs |-> [i \in 1..Len(p.sigs) |-> SigName(p.sigs[i])]]

Good == <<KindSeq[1], KindSeq[2]>>
Short == <<KindSeq[1]>>
HistMints == {[rcv |-> "c1", n |-> n, amt |-> 3, sigs |-> s] : n \in Nonces, s \in {Good, Short}}
               \cup {[rcv |-> "c2", n |-> 0, amt |-> 3, sigs |-> Good], [rcv |-> "c1", n |-> 0, amt |-> 1, sigs |-> Good]}
OneMint == {[rcv |-> "c1", n |-> 0, amt |-> 3, sigs |-> Good]}
NoMints == {}
AllBurns == {<<c, e, v>> : c \in Client, e \in Eth \cup {NoEth}, v \in {1, 2, 3}}
OneBurn == {<<"c1", "e1", 2>>}
A3Ops == {"a3"}
NoOps == {}
SweepOnly == {"sweep"}
HistOnly == {"hist"}
Both == {"sweep", "hist"}

GInit == Init /\ hist = <<>> /\ mode \in GenModes

G_Sweep == /\ mode = "sweep" /\ hist = <<>>
           /\ \E s \in Sorted(SweepN) : LET p == [rcv |-> "c1", n |-> 0, amt |-> 3, sigs |-> s] IN
                Mint("c1", p) /\ hist' = <<MintStep("c1", p)>>
           /\ UNCHANGED mode
G_Burn == /\ mode = "hist" /\ Len(hist) < GenLen
          /\ \E b \in GBurns : Burn(b[1], b[2], b[3]) /\ last'.ok = (b[3] >= MinBurn /\ b[2] # NoEth)
                               /\ hist' = Append(hist, BurnStep(b[1], b[2], b[3]))
          /\ UNCHANGED mode
G_Mint == /\ mode = "hist" /\ Len(hist) < GenLen
          /\ \E p \in GMints : Mint("c1", p) /\ hist' = Append(hist, MintStep("c1", p))
          /\ UNCHANGED mode
G_Auth == /\ mode = "hist" /\ Len(hist) < GenLen
          /\ \E a \in GAuthOps : \/ Register(a) /\ hist' = Append(hist, [op |-> "add", a |-> a])
                                 \/ Delete(a) /\ hist' = Append(hist, [op |-> "del", a |-> a])
          /\ UNCHANGED mode
GNext == G_Sweep \/ G_Burn \/ G_Mint \/ G_Auth
GSpec == GInit /\ [][GNext]_gvars
\* one state per history: the model's nondeterminism (fee, payee) does not multiply behaviours
GView == <<auth, minted, burnNonce, hist, mode>>
GPrint == hist = <<>> \/ PrintT(<<"BEHAVIOUR", ToJson(hist)>>)
=============================================================================
