----------------------------- MODULE Gen_Bridge -----------------------------
(* Behaviour generator for the bridge driver (breadth-first, one BEHAVIOUR  *)
(* line per history).  mode "sweep": one mint by c1 for itself with a fresh *)
(* nonce for EVERY multiset of up to SweepN signature entries.  mode        *)
(* "hist": every sequence of up to GenLen steps over a reduced alphabet     *)
(* (burns, mints with a good / short quorum, repeated nonces, wrong         *)
(* receiver, low amount, deletion and re-registration of a3, and the owner  *)
(* moving min_burn / min_mint apart - burn values are named by where they   *)
(* lie relative to BOTH minimums as configured at that point).              *)
(* Steps are printed in the driver's vocabulary (harness/drivers/bridge).   *)
EXTENDS MC_Bridge, Json

CONSTANTS GenModes, GenLen, SweepN, GBurns, GMints, GAuthOps, GCfgs
VARIABLES hist, mode
gvars == <<vars, hist, mode>>

KindName == [valid |-> "v", forged |-> "f", garbage |-> "g"]
Digit == [a1 |-> "1", a2 |-> "2", a3 |-> "3"]
SigName(e) == IF e.a = Stranger THEN "u" ELSE KindName[e.k] \o Digit[e.a]
\* the class of a burn value under the minimums configured NOW (the driver picks a real value of the same class):
\* midlo = min_mint <= v < min_burn, midhi = min_burn < v < min_mint
ValName(v) == IF v = 0 THEN "zero"
              ELSE IF v < minBurn THEN (IF v >= minMint THEN "midlo" ELSE "below")
              ELSE IF v = minBurn THEN "min"
              ELSE IF v < minMint THEN "midhi" ELSE "above"
AmtName(a) == IF a >= minMint /\ a >= MaxFee THEN "ok" ELSE "low"
\* a configured minimum is named relative to the shipped one: lo | base | hi
MinName(v) == IF v < MinBurn THEN "lo" ELSE IF v = MinBurn THEN "base" ELSE "hi"

CfgStep(w, v) == [op |-> "cfg", a |-> w, v |-> MinName(v)]
BurnStep(c, e, v) == [op |-> "burn", c |-> c, eth |-> e, v |-> ValName(v)]
MintStep(c, p) == [op |-> "mint", c |-> c, rcv |-> p.rcv, n |-> p.n, amt |-> AmtName(p.amt),
                   sigs |-> [i \in 1..Len(p.sigs) |-> SigName(p.sigs[i])]]

Good == <<KindSeq[1], KindSeq[2]>>
Short == <<KindSeq[1]>>
HistMints == {[rcv |-> "c1", n |-> n, amt |-> 3, sigs |-> s] : n \in Nonces, s \in {Good, Short}}
               \cup {[rcv |-> "c2", n |-> 0, amt |-> 3, sigs |-> Good], [rcv |-> "c1", n |-> 0, amt |-> 1, sigs |-> Good]}
OneMint == {[rcv |-> "c1", n |-> 0, amt |-> 3, sigs |-> Good]}
NoMints == {}
AllBurns == {<<c, e, v>> : c \in Client, e \in Eth \cup {NoEth}, v \in {1, 2, 3}}
OneBurn == {<<"c1", "e1", 2>>}
A3Ops == {"a3"}
NoOps == {}
\* the owner raises / lowers one of the two minimums
ApartCfgs == {<<"min_burn", 3>>, <<"min_mint", 1>>, <<"min_mint", 3>>, <<"min_burn", 1>>}
ApartCfgs2 == {<<"min_burn", 3>>, <<"min_mint", 1>>}
NoCfgs == {}
SweepOnly == {"sweep"}
HistOnly == {"hist"}
Both == {"sweep", "hist"}

GInit == Init /\ hist = <<>> /\ mode \in GenModes

G_Sweep == /\ mode = "sweep" /\ hist = <<>>
           /\ \E s \in Sorted(SweepN) : LET p == [rcv |-> "c1", n |-> 0, amt |-> 3, sigs |-> s] IN
                Mint("c1", p) /\ hist' = <<MintStep("c1", p)>>
           /\ UNCHANGED mode
G_Burn == /\ mode = "hist" /\ Len(hist) < GenLen
          /\ \E b \in GBurns : Burn(b[1], b[2], b[3]) /\ last'.ok = (b[3] >= minBurn /\ b[2] # NoEth)
                               /\ hist' = Append(hist, BurnStep(b[1], b[2], b[3]))
          /\ UNCHANGED mode
G_Mint == /\ mode = "hist" /\ Len(hist) < GenLen
          /\ \E p \in GMints : Mint("c1", p) /\ hist' = Append(hist, MintStep("c1", p))
          /\ UNCHANGED mode
G_Auth == /\ mode = "hist" /\ Len(hist) < GenLen
          /\ \E a \in GAuthOps : \/ Register(a) /\ hist' = Append(hist, [op |-> "add", a |-> a])
                                 \/ Delete(a) /\ hist' = Append(hist, [op |-> "del", a |-> a])
          /\ UNCHANGED mode
G_Cfg == /\ mode = "hist" /\ Len(hist) < GenLen
         /\ \E g \in GCfgs : SetMin(g[1], g[2]) /\ hist' = Append(hist, CfgStep(g[1], g[2]))
         /\ UNCHANGED mode
GNext == G_Sweep \/ G_Burn \/ G_Mint \/ G_Auth \/ G_Cfg
GSpec == GInit /\ [][GNext]_gvars
\* one state per history: the model's nondeterminism (fee, payee) does not multiply behaviours
GView == <<auth, minted, burnNonce, minBurn, minMint, hist, mode>>
GPrint == hist = <<>> \/ PrintT(<<"BEHAVIOUR", ToJson(hist)>>)
=============================================================================
