--------------------------- MODULE Trace_StateSync ---------------------------
(***************************************************************************)
(* Trace specification for C28.  Every Sync line is one change set that    *)
(* went through the REAL codec (PartialState.ComputeProperties on receipt) *)
(* and the REAL Chain.ApplyBlockStateChange on a fresh copy of an executed *)
(* block; the fields are read back from the real objects:                  *)
(*   hash_match / root_match / count_match   the set's block hash, declared *)
(*        root, number of nodes compared with the block's                  *)
(*   croot_match   the root that the set's nodes compute to (cached by     *)
(*        ComputeProperties on receipt) compared with the block's root: it *)
(*        differs from root_match when the set was relabelled after receipt *)
(*        (class "relabel": e.g. the valid set of a competing execution)   *)
(*   accepted, state_set     no error / the copy now has a computed state  *)
(*   root_equal, wrong, absent, missing   full walk of the copy's state    *)
(*        compared with the walk of the executed block's state             *)
(*   untouched, leaked       after a rejection: copy without state, status *)
(*        unchanged, header (hash, declared state hash, count) unchanged,  *)
(*        previous state reads the same; new nodes of the set found in the *)
(*        persistent store                                                 *)
(* The action only consumes the line: every requirement is an invariant.   *)
(* Txn lines (the transactions that built the blocks) are skipped here and *)
(* validated by Trace_Ledger.                                              *)
(***************************************************************************)
EXTENDS TraceLib

VARIABLES l, ev
vars == <<l, ev>>
Null == [ev |-> "none"]

TraceInit == l = 1 /\ ev = Null
TraceSync == l <= Len(Trace) /\ Trace[l].ev = "Sync" /\ l' = l + 1 /\ ev' = Trace[l]
TraceSkip == l <= Len(Trace) /\ Trace[l].ev # "Sync" /\ l' = l + 1 /\ ev' = Null
TraceNext == TraceSync \/ TraceSkip
TraceSpec == TraceInit /\ [][TraceNext]_vars

IsSync == ev.ev = "Sync"
Live == IsSync /\ ~IsKnown(ev)     \* not an instance of a listed known finding
Classes == {"none", "drop", "extra", "alter", "alterinner", "wrongroot", "wronghash", "replay", "swap", "dup", "relabel"}

NoPanic == IsSync => ~ev.panic
(* the honest class really is the published set, and the logged verdict is coherent *)
HarnessCoherent ==
  IsSync => /\ ev.tamper \in Classes
            /\ (ev.tamper = "none" => (ev.hash_match /\ ev.root_match /\ ev.count_match /\ ev.croot_match))
            /\ (ev.accepted <=> ev.stage = "")

(* the published change set is accepted and reproduces exactly the executed state *)
C28_HonestReproduces ==
  (Live /\ ev.tamper = "none") =>
     /\ ev.accepted /\ ev.state_set /\ ev.root_equal
     /\ ev.missing = 0 /\ ev.wrong = 0 /\ ev.absent = 0

(* a set whose block hash, root (the declared one or the one its nodes compute to) or node count *)
(* does not match is rejected                                                                    *)
C28_MismatchRejected ==
  (Live /\ (~ev.hash_match \/ ~ev.root_match \/ ~ev.croot_match \/ ~ev.count_match)) => ~ev.accepted

(* a rejected set leaves the local state untouched *)
C28_RejectedUntouched ==
  (Live /\ ~ev.accepted) => (ev.untouched /\ ev.leaked = 0 /\ ~ev.state_set)

(* whatever is accepted has the executed root and no value the block did not compute; *)
(* the previous state is not disturbed either                                         *)
C28_AcceptedIsComputed ==
  (Live /\ ev.accepted) => (ev.state_set /\ ev.root_equal /\ ev.wrong = 0 /\ ev.prev_same)
=============================================================================
