SPECIFICATION Spec
CONSTANTS
  Miner = {"m1", "m2", "m3", "m4"}
  Outsider = {"x1"}
  T = 3
  VerifyAttached = TRUE
  VerifyEarly = TRUE
  MaxMsgs = 2
  Rep = {1, 3}
  MaxSet = 3
VIEW View
INVARIANT NotarizedOnlyWithQuorum
CHECK_DEADLOCK FALSE
