---------------------------- MODULE MC_EventDB ----------------------------
(* Every block with <= 3 burns over 2 clients x 2 ethereum addresses and <= 2 *)
(* mints (2 clients x 2 signer sets), in every order; client "a1" is also an  *)
(* authorizer (its burns have a total to count toward).  hist carries the op  *)
(* list for replay on the real code.  The generator configs (BurnsFirst) list  *)
(* the burns before the mints: the mergers work per tag, the relative order   *)
(* of a burn and a mint is immaterial (the exhaustive configs explore it).    *)
(* Several blocks in a row (MaxBlocks > 1): hist carries a "block" marker; the *)
(* generator configs bound the ops of a several-block list by MaxOps and mint  *)
(* in the first block only.                                                    *)
EXTENDS EventDB, Json
CONSTANTS BurnsFirst, MaxOps
VARIABLE hist
S12 == <<"a1", "a2">>
S23 == <<"a2", "a3">>
Sets2 == {S12, S23}
NOps == Cardinality({i \in 1..Len(hist) : hist[i].op # "block"})
A_EmitBurn == (\E c \in Client, e \in Eth : (BurnsFirst => Len(B.mints) = 0) /\ (blk > 1 => NOps < MaxOps) /\ EmitBurn(c, e) /\ hist' = Append(hist, [op |-> "burn", c |-> c, eth |-> e])) /\ TRUE
A_EmitMint == (\E c \in Client, S \in SignerSets : (BurnsFirst => blk = 1) /\ (blk > 1 => NOps < MaxOps) /\ EmitMint(c, S) /\ hist' = Append(hist, [op |-> "mint", c |-> c, sigs |-> S])) /\ TRUE
A_Merge == Merge /\ UNCHANGED hist
A_Store == Store /\ UNCHANGED hist
A_NextBlock == NextBlock /\ NOps < MaxOps /\ hist' = Append(hist, [op |-> "block"])
MNext == A_EmitBurn \/ A_EmitMint \/ A_Merge \/ A_Store \/ A_NextBlock
MSpec == Init /\ hist = <<>> /\ [][MNext]_<<vars, hist>>
\* generator: one line per op list (printed when the list is complete, i.e. at the merge step)
GPrint == (phase = "merged" /\ hist # <<>> /\ hist[Len(hist)].op # "block") => PrintT(<<"BEHAVIOUR", ToJson(hist)>>)
GView == <<phase, hist>>
\* the exhaustive several-block configs identify states without the op list
MView == vars
=============================================================================
