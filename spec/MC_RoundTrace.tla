--------------------------- MODULE MC_RoundTrace ---------------------------
(* Model values for the exhaustive configurations of RoundTrace.tla. *)
EXTENDS RoundTrace
\* the ranking of a seed is a rotation of this order: the node is generator in some rounds and not in others
MCOrder3 == <<"m2", "m1", "m3">>
\* <<second proposal of the generator, forged previous-block tickets attached, valid signature>>
MCKindsPlain == {<<0, FALSE, TRUE>>}
MCKindsQuick == {<<0, FALSE, TRUE>>, <<0, TRUE, TRUE>>}
MCKindsAll == {<<0, FALSE, TRUE>>, <<1, FALSE, TRUE>>, <<0, TRUE, TRUE>>, <<0, FALSE, FALSE>>}
MCOrder4 == <<"m2", "m1", "m3", "m4">>
=============================================================================
