SPECIFICATION Spec
CONSTANTS
  Keys = {"k1"}
  Vals = {1, 2, 3}
  Blocks = {"b1", "b2"}
  Handles = {"h1", "h2"}
  DeepClone = TRUE
  CommitOnFail = FALSE
  RemoveOnDelete = TRUE
  MigrateWipes = TRUE
INVARIANTS TypeOK C07_CacheAgreesWithTrie
PROPERTIES C07_MutateInvisible C07_NoResidue
CHECK_DEADLOCK FALSE
