-------------------------- MODULE MC_ThresholdSig --------------------------
(* Exhaustive configurations of ThresholdSig.tla and the scenario generator of C34. *)
EXTENDS ThresholdSig, Json

CONSTANTS IdVals,      \* id scalars
          IdOrder      \* "asc": ascending id sequences only (parties are symmetric); "all": every injective sequence;
                       \* "gen": the two patterns replayed on the real code
Asc(s) == \A a, b \in 1..Len(s) : a < b => s[a] < s[b]
MC_IdSeqs == CASE IdOrder = "asc" -> {s \in InjSeqs(IdVals, MaxN) : Asc(s)}
               [] IdOrder = "all" -> InjSeqs(IdVals, MaxN)
               [] OTHER -> {SubSeq(<<1, 2, 3, 4>>, 1, MaxN), SubSeq(<<3, 1, 4, 2>>, 1, MaxN)}

(* generator: ShareOrSigns scenarios once per n (t = 2 where possible, first id pattern) *)
GenInit == Init /\ (kind = "sos" => (t = (IF n > 1 THEN 2 ELSE 1) /\ ids = SubSeq(<<1, 2, 3, 4>>, 1, n)))
GenSpec == GenInit /\ [][Next]_vars
(* one BEHAVIOUR line per terminal scenario; only its structure is replayed (the real secrets are random) *)
GPrint == phase \in {"checked", "combined", "sos_checked"} =>
  PrintT(<<"BEHAVIOUR", ToJson([kind |-> kind, t |-> t, n |-> n, ids |-> ids, tam |-> tam, seq |-> seq, ent |-> ent])>>)
=============================================================================
