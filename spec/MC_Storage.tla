------------------------------ MODULE MC_Storage ------------------------------
(* Exhaustive small-constant configurations of Storage.tla.  Every action is wrapped in a named operator so    *)
(* that TLC's -coverage output names it (vacuity guard of bin/vcheck).                                          *)
EXTENDS Storage

A_NewAlloc == \E a \in Alloc, c \in Client, B \in SUBSET Blob, v \in 1..M : NewAlloc(a, c, B, v)
A_WritePoolLock == \E a \in Alloc, c \in Client, v \in 1..M : WritePoolLock(a, c, v)
A_Upload == \E a \in Alloc, b \in Blob, m \in 1..M : Upload(a, b, m)
A_Delete == \E a \in Alloc, b \in Blob, m \in 1..M : Delete(a, b, m)
A_ChallengePass == \E a \in Alloc, b \in Blob, m \in 1..M : ChallengePass(a, b, m)
A_ChallengePenalty == \E a \in Alloc, b \in Blob, m \in 1..M : ChallengePenalty(a, b, m, 0)
A_ChallengePassAfterFail == \E a \in Alloc, b \in Blob, mp \in 1..M, s \in 0..M, mr \in 0..M : ChallengePassAfterFail(a, b, mp, s, mr)
A_ChallengePenaltySlashed == \E a \in Alloc, b \in Blob, m \in 1..M, s \in 1..M : ChallengePenaltySlashed(a, b, m, s)
A_Extend == \E a \in Alloc, b \in Blob, d \in 0..M, up \in BOOLEAN, grow \in BOOLEAN : Extend(a, b, d, up, grow)
A_AddBlobber == \E a \in Alloc, nb \in Blob : AddBlobber(a, nb)
A_ReplaceAlive == \E a \in Alloc, ob \in Blob, nb \in Blob, m1 \in 0..M, ch \in 0..ChargeCap : ReplaceAlive(a, ob, nb, m1, ch)
A_ReplaceKilled == \E a \in Alloc, ob \in Blob, nb \in Blob : ReplaceKilled(a, ob, nb)
A_Kill == \E b \in Blob : Kill(b)
A_Collect == \E b \in Blob : Collect(b)
A_Tick == \E a \in Alloc : Tick(a)
A_Finalize == \E a \in Alloc, caller \in Client \cup Blob, ch \in 0..ChargeCap : \E pay \in Pay(a) : Finalize(a, caller, pay, ch)
A_Cancel == \E a \in Alloc, caller \in Client \cup Blob, ch \in 0..ChargeCap : \E pay \in Pay(a) : Cancel(a, caller, pay, ch)
A_ReadPoolLock == \E c \in Client, v \in 1..M : ReadPoolLock(c, v)
A_ReadPoolUnlock == \E c \in Client : ReadPoolUnlock(c)
A_ReadMarker == \E c \in Client, b \in Blob, k \in 0..MaxCtr, s \in BOOLEAN : ReadMarker(c, b, k, s)
A_FreeAlloc == \E caller \in Client, mk \in Marker, a \in Alloc : FreeAlloc(caller, mk, a)
A_Reassign == \E i \in 1..IndLimit, t \in 0..TotLimit : Reassign(i, t)

MCNext == A_NewAlloc \/ A_WritePoolLock \/ A_Upload \/ A_Delete \/ A_ChallengePass \/ A_ChallengePenalty
          \/ A_ChallengePenaltySlashed \/ A_ChallengePassAfterFail \/ A_Extend
          \/ A_AddBlobber \/ A_ReplaceAlive \/ A_ReplaceKilled \/ A_Kill \/ A_Collect \/ A_Tick \/ A_Finalize \/ A_Cancel
          \/ A_ReadPoolLock \/ A_ReadPoolUnlock \/ A_ReadMarker \/ A_FreeAlloc \/ A_Reassign
MCSpec == Init /\ [][MCNext]_vars
=============================================================================
