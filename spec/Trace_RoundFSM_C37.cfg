SPECIFICATION TraceSpec
CONSTANTS
  SelfMiner = "m1"
  LeakChoices = {TRUE, FALSE}
  CapDecrChoices = {TRUE, FALSE}
  SatChoices = {TRUE, FALSE}
INVARIANTS C37_Returns C37_PhaseMonotone C37_TimeoutMonotone C37_ShareCap C37_ShareOnce C37_FinalizedSticky HarnessModelConforms C37_Linearizable
POSTCONDITION Accepted
CHECK_DEADLOCK FALSE
