SPECIFICATION Spec
CONSTANTS
  FixedGroups <- CodeFixed
  Scenarios <- MCScenarios
INVARIANTS RaceOnlyAtDeviation LockDiscipline
CHECK_DEADLOCK FALSE
