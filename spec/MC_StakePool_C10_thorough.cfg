SPECIFICATION SpecC10
CONSTANTS
  Provider = {"p1"}
  Client = {"d1", "d2", "d3", "own"}
  Delegates = {"d1", "d2", "d3"}
  Owner = "own"
  Ord <- OrdC10
  MaxV = 6
  MinLock = 1
  MaxStake = 10
  KillNum = 1
  KillDen = 2
  ShutNum = 1
  ShutDen = 4
  PropTol = 2
  RandNDropsRemainder = FALSE
  ShutDownSavesUnderCaller = FALSE
  Balances = {0, 1, 2, 5}
  MinStakes = {0, 3}
  MaxN = 3
  MaxSteps = 2
  Amounts = {1}
  Funds = 0
INVARIANTS C10_Distribute C10_DeviationLosesRemainder C23_DeadNotRewarded
CHECK_DEADLOCK FALSE
