------------------------------ MODULE MC_Reduce ------------------------------
(* Exhaustive enumeration of the case space of Reduce.tla: every stake layout   *)
(* over Stakes, every previous set, every limit, the listed percentages.  Each  *)
(* layout is one behaviour: Layout -> Select (the results for every model seed  *)
(* under two canonical orders of the names).  The layouts are exported for the  *)
(* replay on the real code (GPrint).                                            *)
EXTENDS Reduce, TLC, Json

CONSTANTS Names,      \* candidate names
          Stakes,     \* stake values
          Limits, Pcts,
          Ord1, Ord2, \* two canonical orders (two id assignments)
          HeadBug     \* FALSE: intended;  TRUE: tie range start as suspected in the code

VARIABLES lay, out1, out2
vars == <<lay, out1, out2>>
None == [none |-> TRUE]
O_abcd == <<"a","b","c","d","e">>      \* canonical orders (names outside Names are ignored)
O_cadb == <<"c","e","a","d","b">>
Seeds == 0..(Cardinality(Names) - 1)

MInit == lay = None /\ out1 = None /\ out2 = None
A_Layout ==
  /\ lay = None
  /\ \E st \in [Names -> Stakes], pv \in SUBSET Names, lim \in Limits, pc \in Pcts :
        lay' = [stake |-> st, prev |-> pv, limit |-> lim, pct |-> pc]
  /\ UNCHANGED <<out1, out2>>
A_Select ==
  /\ lay # None /\ out1 = None
  /\ out1' = [s \in Seeds |-> Reduce(Names, lay.stake, lay.prev, lay.limit, lay.pct, s, Ord1, HeadBug)]
  /\ out2' = [s \in Seeds |-> Reduce(Names, lay.stake, lay.prev, lay.limit, lay.pct, s, Ord2, HeadBug)]
  /\ UNCHANGED lay
MNext == A_Layout \/ A_Select
MSpec == MInit /\ [][MNext]_vars
GSpec == MInit /\ [][A_Layout]_vars      \* layouts only (behaviour export)

Done == out1 # None
M_Exact == Done => \A s \in Seeds : Exact(out1[s], Names, lay.limit) /\ Exact(out2[s], Names, lay.limit)
M_QuotaKept == Done => \A s \in Seeds : QuotaKept(out1[s], Names, lay.stake, lay.prev, lay.limit, lay.pct)
M_StakeOrdered == Done => \A s \in Seeds : /\ StakeOrdered(out1[s], Names, lay.stake, lay.prev, lay.limit, lay.pct)
                                           /\ StakeOrdered(out2[s], Names, lay.stake, lay.prev, lay.limit, lay.pct)
M_TieBySeedOnly == Done => /\ TieBySeedOnly({out1[s] : s \in Seeds}, Names, lay.stake, lay.prev, lay.limit, lay.pct)
                           /\ TieBySeedOnly({out2[s] : s \in Seeds}, Names, lay.stake, lay.prev, lay.limit, lay.pct)
M_Relabel == Done => RelabelInvariant(out1, Ord1, out2, Ord2, Seeds, Names, lay.stake, lay.prev, lay.limit, lay.pct)

\* one line per layout, for the replay on the real code
GPrint == (lay # None /\ out1 = None) => PrintT(<<"BEHAVIOUR", ToJson(lay)>>)
=============================================================================
