---------------------------- MODULE VCClientDefs ----------------------------
(***************************************************************************)
(* Constants, data and step FUNCTIONS of the view-change client model       *)
(* (see VCClient.tla for the description).  No variables: this module is    *)
(* shared by the exhaustive model (VCClient.tla) and by the validation of   *)
(* recorded executions of the real code (Trace_VCClient.tla).               *)
(***************************************************************************)
EXTENDS ViewChange, TLC

CONSTANTS Miner,          \* registered miners = members of the previous magic block
          Shs,            \* registered sharders (the contract side only)
          K0, T0,         \* thresholds of a new DKG set
          PRs,            \* rounds per phase <<start, contribute, share, publish, wait>>
          MinN,           \* min_n of the contract
          CurK,           \* K of the magic block in force (SendSijs compares the number of requests with it)
          MaxRound,       \* rounds explored
          MaxCycle,       \* DKG cycles explored (a restart or a completed wait phase starts a new one)
          Flaky,          \* miners whose share requests (sent or received) may be lost
          LagOn,          \* a sharder may serve an older state
          RestMayFail,    \* the REST calls of a phase function may find no sharder
          StoreByNumber,  \* TRUE: as coded (see above)
          MaxFaults       \* environment faults explored: lost requests, unconfirmed transactions, stale or missing answers

Unknown == -1
Sign == -1
NoMB == [sr |-> -1]
NoPn == [phase |-> -2]
NoTxn == [kind |-> "none"]
NoView == [none |-> TRUE]                       \* no sharder answers
Zero == [m \in Miner |-> 0]
NoStore == [set |-> FALSE, shares |-> Zero, cyc |-> 0]
NoDkg == [set |-> FALSE, sr |-> -1, shares |-> Zero]

Card(f) == Cardinality({x \in DOMAIN f : f[x] # 0})
Dom(f) == {x \in DOMAIN f : f[x] # 0}
Restrict(f, set) == [x \in DOMAIN f |-> IF x \in set THEN f[x] ELSE 0]

-----------------------------------------------------------------------------
(* The client of one miner: a record                                       *)
(*   cph      viewChangeProcess.currentPhase                               *)
(*   psr      phaseStartRound (-1: none yet), retry = retrySharePhase       *)
(*   inbox    the phase channel (capacity 1)                               *)
(*   lp       where the loop is: "idle", "sharing", "confirm", "crashed"   *)
(*   lpn      the phase node being processed; ltx the transaction whose    *)
(*            confirmation the loop waits for                              *)
(*   todo     peers still to be sent a share; nsent, nfail requests sent   *)
(*            and failed in this run                                       *)
(*   vdkg     viewChangeDKG: its polynomial (0: nil)                       *)
(*   vsh      viewChangeDKG.receivedSecretShares: from -> polynomial       *)
(*   sij      viewChangeDKG.sij holds >= T shares (createSijs done)        *)
(*   cmpk     viewChangeProcess.mpks, the local copy of the key vectors    *)
(*            (a share was computed for exactly its members)               *)
(*   csos     viewChangeProcess.shareOrSigns                               *)
(*   npoly    polynomials made so far                                      *)
(*   store    the stored DKG summary for the next magic block number       *)
(*   rdkg     the installed DKG of the new magic block                     *)
(*   cmbsr    starting round of the miner's current magic block            *)
(*   adopted  the block that carries the new magic block was processed     *)
C0 == [cph |-> Unknown, psr |-> -1, retry |-> FALSE, inbox |-> NoPn, lp |-> "idle", lpn |-> NoPn, ltx |-> NoTxn,
       todo |-> {}, nfail |-> 0, nsent |-> 0, vdkg |-> 0, vsh |-> Zero, sij |-> FALSE, cmpk |-> Zero,
       csos |-> Zero, npoly |-> 0, store |-> NoStore, rdkg |-> NoDkg, cmbsr |-> 0, adopted |-> FALSE]

Clear(c) == [c EXCEPT !.vdkg = 0, !.vsh = Zero, !.sij = FALSE, !.cmpk = Zero, !.csos = Zero]   \* clearViewChange
Move(c, pn) == [c EXCEPT !.cph = pn.phase, !.psr = pn.start]
Sub(c, pn, t) == [c EXCEPT !.lp = "confirm", !.lpn = pn, !.ltx = t]      \* transaction sent; wait for its confirmation
Txn(kind, m, poly, size, sos, seq) == [kind |-> kind, from |-> m, poly |-> poly, size |-> size, sos |-> sos, seq |-> seq]

(* GetPhaseFromSharders: phase nodes that started before the miner's current magic block are rejected *)
PollPn(c, v) == IF v # NoView /\ v.S.present /\ v.S.start >= c.cmbsr THEN [phase |-> v.S.phase, start |-> v.S.start] ELSE NoPn
(* sendPhase never blocks: the event is dropped when the channel is full *)
AfterPoll(c, v) == IF c.inbox = NoPn THEN [c EXCEPT !.inbox = PollPn(c, v)] ELSE c

(* DKGProcessStart *)
RunStart(c, pn) == LET d == Move(Clear(c), pn) IN IF StoreByNumber THEN d ELSE [d EXCEPT !.store = NoStore]

(* ContributeMpk: getDKGMiners from the sharders; MakeDKG unless a DKG is set; contributeMpk transaction *)
RunContribute(c, m, pn, v, seq) ==
  IF v = NoView \/ (c.vdkg = 0 /\ v.S.dkg = {}) THEN c          \* no DKG miners given / "dkg is not set yet"
  ELSE LET p == IF c.vdkg = 0 THEN c.npoly + 1 ELSE c.vdkg
           d == [c EXCEPT !.vdkg = p, !.npoly = IF c.vdkg = 0 THEN p ELSE @]
       IN Sub(d, pn, Txn("mpk", m, p, T0, Zero, seq))

(* SendSijs, first part (sendSijsPrepare with createSijs); rt = retrySharePhase as the loop has just set it *)
RunShare(c, m, pn, v, rt) ==
  IF c.vdkg = 0 \/ v = NoView
    THEN Move([c EXCEPT !.retry = TRUE], pn)   \* "DKG is not set" / no answer: retried later; no transaction: the phase is entered
  ELSE IF m \notin v.S.dkg
    THEN Move([c EXCEPT !.retry = rt], pn)     \* not a DKG miner: nothing to do, the phase is entered
  ELSE \* createSijs (until T shares exist): fetch the key vectors, compute the shares, keep the own one
       LET need == ~c.sij
           mp == Restrict(v.mpkv, v.S.mpks)
           send == {j \in v.S.dkg \ {m} : c.csos[j] = 0}
       IN IF need /\ ~v.mpkp THEN Move([c EXCEPT !.retry = TRUE], pn)   \* the key vector list does not exist yet: error
          ELSE
          [c EXCEPT !.retry = rt,
                    !.cmpk = IF need THEN mp ELSE @,
                    !.sij = IF need THEN Card(mp) >= T0 ELSE @,
                    !.vsh = IF need /\ mp[m] # 0 THEN [@ EXCEPT ![m] = c.vdkg] ELSE @,
                    !.todo = send, !.nsent = Cardinality(send), !.nfail = 0, !.lp = "sharing", !.lpn = pn]

(* PublishShareOrSigns: reveal the shares nobody acknowledged; shareSignsOrShares transaction *)
RunPublish(c, m, pn, v, seq) ==
  IF c.vdkg = 0 \/ v = NoView THEN c                             \* "DKG is not set" / no answer
  ELSE IF ~v.mpkp THEN c                                         \* the key vector list does not exist yet: error
  ELSE IF m \notin v.S.mpks THEN Move(c, pn)
  ELSE LET sos == [k \in Miner |-> IF k # m /\ k \in v.S.mpks /\ c.csos[k] = 0 /\ c.cmpk[k] # 0 THEN c.vdkg ELSE c.csos[k]]
           d == [c EXCEPT !.csos = sos]
       IN IF v.S.dkg = {} THEN d                                  \* "no miners in DKG"
          ELSE Sub(d, pn, Txn("sos", m, 0, 0, sos, seq))

(* Wait: take the magic block from the sharders, add the shares revealed for me, drop the miners that are *)
(* not in it, store the DKG summary and the magic block, forget the DKG, send `wait`                      *)
WaitCrashes(c, m, v) ==  \* a revealed share of a miner whose key vector is not in the local copy: nil dereference
  \E j \in v.mb.miners \ {m} : v.mb.sos[j][m] > 0 /\ c.cmpk[j] = 0
RunWait(c, m, pn, v, seq) ==
  IF c.vdkg = 0 \/ v = NoView THEN c                             \* "DKG is not set" / no answer
  ELSE IF v.mb = NoMB \/ v.mb.sr < c.cmbsr THEN c                \* no magic block given
  ELSE IF m \notin v.mb.miners THEN Move(Clear(c), pn)
  ELSE IF WaitCrashes(c, m, v) THEN [c EXCEPT !.lp = "crashed"]
  ELSE LET got == [j \in Miner |->
                     IF j # m /\ j \in v.mb.miners /\ v.mb.sos[j][m] > 0 /\ v.mb.sos[j][m] = c.cmpk[j]
                       THEN v.mb.sos[j][m] ELSE c.vsh[j]]
           kept == [j \in Miner |-> IF c.cmpk[j] # 0 /\ v.mb.mpk[j] = 0 THEN 0 ELSE got[j]]
           d == [Clear(c) EXCEPT !.store = [set |-> TRUE, shares |-> kept, cyc |-> v.mb.cyc]]
       IN Sub(d, pn, Txn("wait", m, 0, 0, Zero, seq))

(* one iteration of DKGProcess on the queued phase node; seq = the nonce a transaction would get *)
TakeKind(c) == LET pn == c.inbox
                   rt == pn.phase = Share /\ c.retry
               IN IF pn.start = c.psr /\ ~rt THEN "accepted"          \* phase already accepted
                  ELSE IF ~(pn.phase = Start \/ pn.phase = c.cph + 1 \/ rt) THEN "jump"
                  ELSE "run"
AfterTake(c0, m, v, seq) ==
  LET pn == c0.inbox
      rt == pn.phase = Share /\ c0.retry
      c == [c0 EXCEPT !.inbox = NoPn]
  IN CASE TakeKind(c0) = "accepted" -> [c EXCEPT !.retry = rt]
       [] TakeKind(c0) = "jump" -> [c EXCEPT !.retry = rt, !.cph = Unknown]   \* wait for the next start
       [] OTHER ->
            CASE pn.phase = Start -> RunStart([c EXCEPT !.retry = rt], pn)
              [] pn.phase = Contribute -> RunContribute([c EXCEPT !.retry = rt], m, pn, v, seq)
              [] pn.phase = Share -> RunShare(c, m, pn, v, rt)
              [] pn.phase = Publish -> RunPublish([c EXCEPT !.retry = rt], m, pn, v, seq)
              [] pn.phase = Wait -> RunWait([c EXCEPT !.retry = rt], m, pn, v, seq)

(* sendDKGShare(m -> j): the sender (record s) needs the share it computed for j; the peer (record r)       *)
(* validates it against ITS copy of m's key vector, keeps it and signs                                     *)
HasShareFor(s, j) == s.cmpk[j] # 0                         \* else "could not found sec share": nothing is sent
PeerReady(r) == r.vdkg # 0 /\ Card(r.cmpk) >= T0           \* else "DKG is not set" / "don't have enough mpks yet"
PeerAccepts(s, r, m, j) == /\ HasShareFor(s, j) /\ PeerReady(r)
                           /\ r.cmpk[m] = s.vdkg           \* ValidateShare against the peer's copy
                           /\ r.vsh[m] \in {0, s.vdkg}     \* AddSecretShare without force
AfterRPCSender(s, j, ok) == [s EXCEPT !.todo = @ \ {j}, !.csos = IF ok THEN [@ EXCEPT ![j] = Sign] ELSE @,
                                      !.nfail = IF ok THEN @ ELSE @ + 1]
AfterRPCPeer(r, m, p, ok) == IF ok THEN [r EXCEPT !.vsh = [@ EXCEPT ![m] = p]] ELSE r

(* the tail of SendSijs and of the iteration: no transaction, so the phase is entered, failed or not *)
AfterShareEnd(c) ==
  Move([c EXCEPT !.lp = "idle", !.retry = @ \/ (c.nfail > 0 /\ c.nsent > CurK /\ c.nsent - c.nfail < CurK)], c.lpn)

(* ConfirmTransaction *)
AfterConfirm(c) == Move([c EXCEPT !.lp = "idle"], c.lpn)
AfterConfirmFail(c) == [c EXCEPT !.lp = "idle"]

(* ViewChange(b) for the finalized block that carries the magic block e *)
AdoptShares(c, m, e) == [k \in Miner |-> IF k \notin e.miners THEN 0
                                           ELSE IF c.store.shares[k] # 0 THEN c.store.shares[k]
                                           ELSE IF e.sos[k][m] > 0 THEN e.sos[k][m] ELSE 0]
AfterAdopt(c, m, e) ==
  LET d == [c EXCEPT !.adopted = TRUE, !.cmbsr = e.sr]                \* UpdateMagicBlock
  IN IF m \in e.miners /\ c.store.set /\ Card(AdoptShares(c, m, e)) >= T0
       THEN [d EXCEPT !.rdkg = [set |-> TRUE, sr |-> e.sr, shares |-> AdoptShares(c, m, e)]]
       ELSE d                                                         \* "set DKG failed"

-----------------------------------------------------------------------------
(* The contract: the record S of ViewChange.tla plus what it stores        *)
(*   mpkv   stored key vectors: miner -> polynomial (0: none); mpkp: the   *)
(*          list exists (it is created by the first contribution, by a     *)
(*          restart and with the magic block; the REST API answers "not    *)
(*          present" before)                                               *)
(*   sosv   stored shares or signs: sender -> (receiver -> entry)          *)
(*   mb     the stored magic block (NoMB: none): sr, miners, mpk, sos, cyc *)
CONF == [pr |-> [p \in 0..4 |-> PRs[p + 1]], minN |-> MinN, maxN |-> Cardinality(Miner), minS |-> 1,
         maxS |-> Cardinality(Shs), all |-> Miner, shs |-> Shs]
S0 == [present |-> FALSE, phase |-> 0, start |-> 0, restarts |-> 0, dkg |-> {}, k |-> 0, t |-> 0, mpks |-> {},
       gsos |-> {}, keep |-> {}, waited |-> {}, mbst |-> -1, mbm |-> {}, mbs |-> {}, vc |-> -1,
       prevM |-> Miner, prevS |-> Shs]
ZeroSos == [m \in Miner |-> Zero]
MakeMB(r, mbm, mpks, soss, cyc, cf) ==
  [sr |-> r + cf.pr[Wait], miners |-> mbm, mpk |-> Restrict(mpks, mbm),
   sos |-> [j \in Miner |-> IF j \in mbm THEN soss[j] ELSE Zero], cyc |-> cyc]   \* entries FOR dropped miners stay
(* a revealed share passes the contract's validation iff it belongs to the sender's stored key vector *)
SosValid(t, mpks) == \A i \in Miner : t.sos[i] > 0 => t.sos[i] = mpks[t.from]
TxnAccepted(s, mpks, t) ==
  CASE t.kind = "mpk" -> MpkWellFormed(s, t.from, t.size)
    [] t.kind = "sos" -> SosWellFormed(s, t.from, Card(t.sos), SosValid(t, mpks))
    [] t.kind = "wait" -> WaitWellFormed(s, t.from)
(* the key share a miner installs is the sum of the shares of exactly the polynomials whose key vectors the *)
(* magic block carries: it is consistent with the group public key                                         *)
Consistent(c, e) == \A j \in e.miners : c.rdkg.shares[j] = e.mpk[j]
=============================================================================
