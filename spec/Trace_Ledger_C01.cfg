SPECIFICATION TraceSpec
INVARIANTS NoPanic HarnessRangeExact C01_Conservation
POSTCONDITION Accepted
CHECK_DEADLOCK FALSE
