SPECIFICATION TraceSpec
INVARIANTS NoPanic HarnessRange C01_Conservation
POSTCONDITION Accepted
CHECK_DEADLOCK FALSE
