SPECIFICATION GSpec
CONSTANTS
  Vals = {1,2}
  Callers = {"owner","stranger"}
  Owner = "owner"
  HasImmutable = TRUE
  TwoPhase = FALSE
  MaxSteps = 4
INVARIANT GPrint
CHECK_DEADLOCK FALSE
