SPECIFICATION Spec
CONSTANTS
  Kind = {"send", "data", "pour", "fail", "vest", "stake", "burn", "gov2_globals", "gov2_miner", "gov2_storage", "gov2_vesting", "gov2_zcn", "gov2_faucet", "govok", "govpart_miner", "govok_miner", "govpart_storage", "govcommit_storage"}
  MultiBad = {"gov2_globals", "gov2_miner", "gov2_storage", "gov2_vesting", "gov2_zcn", "gov2_faucet"}
  PartFail = {"govpart_miner", "govpart_storage"}
  Saver = {"govok_miner", "govcommit_storage"}
  ObjOf <- MCObjOf
  Env <- MCEnv
  MaxLen = 2
  SortedKeys = TRUE
  IsolatedCopies = FALSE
INVARIANT Deterministic
CHECK_DEADLOCK FALSE
