SPECIFICATION MSpec
CONSTANTS
  Client = {"a1", "c2"}
  Eth = {"e1", "e2"}
  Auths = {"a1", "a2", "a3"}
  SignerSets <- Sets2
  MaxBurns = 2
  MaxMints = 1
  MaxBlocks = 3
  MaxOps = 99
  Merger = "overwrite"
  TicketStore = "all"
  BurnsFirst = FALSE
  MintKey = "minter"
VIEW MView
INVARIANTS C20w_MergeKeepsLast C20w_StoresAllMerged C20w_BurnTotalsOfMerged C20w_MintTotalsOfMerged C20w_NoBlockRefused C20w_LatestTicketOfAllBlocks
CHECK_DEADLOCK FALSE
