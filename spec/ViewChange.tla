------------------------------ MODULE ViewChange ------------------------------
(***************************************************************************)
(* C38.  The view-change phase machine of the miner contract               *)
(* (minersc/dkg.go setPhaseNode, moveFunctions, phase functions,           *)
(* RestartDKG; fees.go payFees, adjustViewChange).                         *)
(*                                                                         *)
(* The contract state is one record S:                                     *)
(*   present      the phase node has been stored                           *)
(*   phase        0 start, 1 contribute, 2 share, 3 publish, 4 wait        *)
(*   start        round at which the phase began                           *)
(*   restarts     DKG restarts since the last completed cycle              *)
(*   dkg, k, t    the DKG miner set and its thresholds                     *)
(*   mpks         miners whose public-key vector is stored                 *)
(*   gsos         miners whose shares (or signs) are stored                *)
(*   keep         sharders that asked to stay                              *)
(*   waited       miners that confirmed the wait phase                     *)
(*   mbst, mbm, mbs  starting round / miners / sharders of the last        *)
(*                   produced magic block (mbst = -1: none)                *)
(*   vc           round of the pending view change (gn.ViewChange)         *)
(*   prevM, prevS members of the previous magic block                      *)
(* and the configuration a record C: pr (rounds per phase), minN, maxN,    *)
(* minS, maxS, all (registered miners), shs (registered sharders).         *)
(*                                                                         *)
(* Every step is a FUNCTION  After<Step>(S, args, C)  or, for the miner    *)
(* transactions, a set of allowed successors, so that the same definitions *)
(* serve the exhaustive model (MC_ViewChange) and the validation of        *)
(* recorded executions (Trace_ViewChange).                                 *)
(***************************************************************************)
EXTENDS Integers, FiniteSets, Sequences

Start == 0
Contribute == 1
Share == 2
Publish == 3
Wait == 4

HasPrev(set, prev) == set \cap prev # {}

(* ---- RestartDKG ---- *)
Restart(S, r) ==
  [S EXCEPT !.phase = Start, !.start = r, !.restarts = S.restarts + 1,
            !.dkg = {}, !.k = 0, !.t = 0, !.mpks = {}, !.gsos = {}, !.keep = {}, !.waited = {}]

(* ---- move conditions (moveFunctions) and phase functions, per phase ---- *)
(* start -> contribute: moveToContribute, createDKGMinersForContribute *)
CondStart(S, C) == /\ Cardinality(C.shs) >= C.minS /\ HasPrev(C.shs, S.prevS) /\ HasPrev(C.all, S.prevM)
                   /\ Cardinality(C.all) >= S.k
FuncStartOK(S, C) == Cardinality(C.all) >= C.minN
(* k, t of the new DKG set are computed from percentages: left to the caller (kt) *)
MoveStart(S, r, C, kt) ==
  [S EXCEPT !.phase = Contribute, !.start = r, !.dkg = C.all, !.k = kt[1], !.t = kt[2], !.keep = {}, !.waited = {}]

(* contribute -> share and share -> publish: moveToShareOrPublish; widdleDKGMinersForShare *)
CondShareOrPublish(S, C) ==
  /\ Cardinality(S.keep) >= C.minS /\ HasPrev(S.keep, S.prevS)
  /\ S.mpks # {} /\ HasPrev(S.mpks, S.prevM) /\ Cardinality(S.mpks) >= S.k
Widdled(S) == S.dkg \cap S.mpks
FuncContributeOK(S, C) == Cardinality(Widdled(S)) >= C.minN /\ HasPrev(Widdled(S), S.prevM)
MoveContribute(S, r) == [S EXCEPT !.phase = Share, !.start = r, !.dkg = Widdled(S)]
MoveShare(S, r) == [S EXCEPT !.phase = Publish, !.start = r]

(* publish -> wait: moveToWait; createMagicBlockForWait *)
CondPublish(S, C) == S.gsos # {} /\ HasPrev(S.gsos, S.prevM) /\ Cardinality(S.gsos) >= S.k
(* miners of the next magic block: DKG miners, minus those that published keys but no shares *)
MBCandidates(S) == S.dkg \ {m \in S.mpks : m \notin S.gsos}
MBSize(S, C) == IF Cardinality(MBCandidates(S)) < C.maxN THEN Cardinality(MBCandidates(S)) ELSE C.maxN
FuncPublishOK(S, C) ==
  /\ (S.keep # {} => Cardinality(S.keep) >= C.minS)
  /\ Cardinality(MBCandidates(S)) >= C.minN /\ HasPrev(MBCandidates(S), S.prevM)
  /\ MBSize(S, C) >= S.k
(* which candidates / sharders survive the reduction is the business of Reduce.tla (C39) *)
MBMinersOK(mbm, S, C) == mbm \subseteq MBCandidates(S) /\ Cardinality(mbm) = MBSize(S, C)
MBShardersOK(mbs, S, C) ==
  IF S.keep = {} THEN mbs = C.shs
  ELSE /\ mbs \subseteq S.keep \cup S.prevS
       /\ Cardinality(mbs \cap S.keep) = (IF Cardinality(S.keep) < C.maxS THEN Cardinality(S.keep) ELSE C.maxS)
MovePublish(S, r, C, mbm, mbs) ==
  [S EXCEPT !.phase = Wait, !.start = r, !.mpks = {}, !.gsos = {}, !.keep = {},
            !.mbst = r + C.pr[Wait], !.mbm = mbm, !.mbs = mbs, !.vc = r + C.pr[Wait]]
(* wait -> start: moveToStart *)
MoveWait(S, r) == [S EXCEPT !.phase = Start, !.start = r, !.restarts = 0]

(* ---- adjustViewChange: at the view-change round the DKG list is consumed ---- *)
WaitedDkg(S) == S.dkg \cap S.waited
ViewChangeHolds(S, C) == /\ Cardinality(WaitedDkg(S)) >= C.minN /\ HasPrev(WaitedDkg(S), S.prevM)
                         /\ Cardinality(WaitedDkg(S)) >= S.k
(* a view change that holds makes the produced magic block the previous one *)
Adjust(S, C, cancelledVC) ==
  IF ViewChangeHolds(S, C)
    THEN [S EXCEPT !.dkg = {}, !.k = 0, !.t = 0, !.waited = {}, !.prevM = S.mbm, !.prevS = S.mbs]
    ELSE [S EXCEPT !.dkg = {}, !.k = 0, !.t = 0, !.waited = {}, !.vc = cancelledVC]

(* ---- payFees = setPhaseNode + adjustViewChange ---- *)
Due(S, r, C) == r - S.start >= C.pr[S.phase]
Stored(S, r) == IF S.present THEN S ELSE [S EXCEPT !.present = TRUE, !.phase = Start, !.start = r]
(* the phase step: move iff the round budget elapsed and the move condition and phase function hold, *)
(* else (budget elapsed) restart; nothing before the budget elapsed.                                *)
(* kt = <<k, t>> for a new DKG set; mbm, mbs = chosen magic block members.                          *)
PhaseStep(S0, r, C, kt, mbm, mbs) ==
  LET S == Stored(S0, r) IN
  IF ~Due(S, r, C) THEN S
  ELSE CASE S.phase = Start      -> IF CondStart(S, C) /\ FuncStartOK(S, C) THEN MoveStart(S, r, C, kt) ELSE Restart(S, r)
         [] S.phase = Contribute -> IF CondShareOrPublish(S, C) /\ FuncContributeOK(S, C) THEN MoveContribute(S, r) ELSE Restart(S, r)
         [] S.phase = Share      -> IF CondShareOrPublish(S, C) THEN MoveShare(S, r) ELSE Restart(S, r)
         [] S.phase = Publish    -> IF CondPublish(S, C) /\ FuncPublishOK(S, C) THEN MovePublish(S, r, C, mbm, mbs) ELSE Restart(S, r)
         [] S.phase = Wait       -> MoveWait(S, r)
MovesToWait(S0, r, C) ==
  LET S == Stored(S0, r) IN Due(S, r, C) /\ S.phase = Publish /\ CondPublish(S, C) /\ FuncPublishOK(S, C)
AfterPayFees(S0, r, C, kt, mbm, mbs, cancelledVC) ==
  LET S1 == PhaseStep(S0, r, C, kt, mbm, mbs)
  IN IF r = S1.vc THEN Adjust(S1, C, cancelledVC) ELSE S1

(* ---- miner transactions: allowed successors ---- *)
(* contributeMpk by m with a vector of `size` keys, stored under the sender *)
MpkWellFormed(S, m, size) == S.present /\ S.phase = Contribute /\ m \in S.dkg /\ m \notin S.mpks /\ size = S.t
AfterMpk(S, m, size) == {S} \cup (IF MpkWellFormed(S, m, size) THEN {[S EXCEPT !.mpks = S.mpks \cup {m}]} ELSE {})
(* sharder_keep for sharder s *)
KeepWellFormed(S, s, C) == S.present /\ S.phase = Contribute /\ s \in C.shs
AfterKeep(S, s, C) == {S} \cup (IF KeepWellFormed(S, s, C) THEN {[S EXCEPT !.keep = S.keep \cup {s}]} ELSE {})
(* shareSignsOrShares by m with n entries whose content is valid or not *)
SosWellFormed(S, m, n, valid) == /\ S.present /\ S.phase = Publish /\ m \in S.dkg /\ m \notin S.gsos
                                 /\ n >= S.k - 1 /\ valid
AfterSos(S, m, n, valid) ==
  {S} \cup (IF SosWellFormed(S, m, n, valid) THEN {[S EXCEPT !.gsos = S.gsos \cup {m}]} ELSE {})
(* wait by m *)
WaitWellFormed(S, m) == S.present /\ S.phase = Wait /\ m \in S.dkg /\ m \notin S.waited
AfterWait(S, m) == {S} \cup (IF WaitWellFormed(S, m) THEN {[S EXCEPT !.waited = S.waited \cup {m}]} ELSE {})

(* ---- properties of states and steps ---- *)
NextPhase(p) == IF p = Wait THEN Start ELSE p + 1
(* a step changes the phase only to the next one (on schedule) or back to start *)
PhaseStepOK(S, T, r, C) ==
  \/ T.phase = S.phase /\ T.start = S.start /\ T.restarts = S.restarts
  \/ /\ S.present /\ Due(S, r, C) /\ T.start = r
     /\ \/ T.phase = NextPhase(S.phase) /\ T.restarts = (IF S.phase = Wait THEN 0 ELSE S.restarts)
        \/ T.phase = Start /\ T.restarts = S.restarts + 1 /\ T.mpks = {} /\ T.gsos = {} /\ T.dkg = {} /\ T.keep = {}
  \/ ~S.present /\ T.present /\ T.phase = Start /\ T.start = r
MagicBlockOK(S) == S.mbst >= 0 => (S.mbm # {} /\ S.mbs # {})
=============================================================================
