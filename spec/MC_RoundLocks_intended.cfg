SPECIFICATION Spec
CONSTANTS
  Fixed = TRUE
  Scenarios <- MCScenarios
INVARIANTS NoRace LockDiscipline
CHECK_DEADLOCK FALSE
