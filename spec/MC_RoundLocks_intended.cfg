SPECIFICATION Spec
CONSTANTS
  FixedGroups <- Groups
  Scenarios <- MCScenarios
INVARIANTS NoRace LockDiscipline
CHECK_DEADLOCK FALSE
