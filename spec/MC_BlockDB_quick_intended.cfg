SPECIFICATION MCSpec
CONSTANTS
  Keys = {1, 2, 3, 4, 5, 6}
  MaxRecs = 3
  SearchAsCoded = FALSE
  WithHeader = TRUE
INVARIANTS TypeOK C26_ReadBackExact C26_CrashSafe C26_NormalOpenSucceeds C26_AbsentNotFound
CHECK_DEADLOCK FALSE
