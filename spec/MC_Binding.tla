----------------------------- MODULE MC_Binding -----------------------------
EXTENDS Binding, Json
(* every reachable state = one tamper sequence; hist carries it for replay *)
VARIABLE hist
MInit == Init /\ hist = <<>>
A_Tamper == \E f \in Fields : Tamper(f) /\ hist' = Append(hist, f)
A_SetSender == SetSender /\ hist' = Append(hist, "SetSender")
A_SetPub == SetPub /\ hist' = Append(hist, "SetPub")
A_Rehash == Rehash /\ hist' = Append(hist, "Rehash")
A_Resign == Resign /\ hist' = Append(hist, "Resign")
A_BreakSig == BreakSig /\ hist' = Append(hist, "BreakSig")
\* values of DupShapes for the cfgs (a cfg file cannot write tuples)
ShapesNone == {}
ShapesTo4 == {sh \in (1..4) \X (1..4) : sh[2] <= sh[1]}        \* every position of blocks of 1..4 transactions
ShapesTo3And5 == {sh \in (1..3) \X (1..3) : sh[2] <= sh[1]} \cup {<<4, 4>>, <<5, 1>>, <<5, 5>>}
\* step name "Duplicate:n:i" (parsed by the driver, enumerated by Trace_Binding!DupName)
DupName(n, i) == "Duplicate:" \o ToString(n) \o ":" \o ToString(i)
A_Duplicate == \E sh \in DupShapes : Duplicate(sh[1], sh[2]) /\ hist' = Append(hist, DupName(sh[1], sh[2]))
MNext == A_Tamper \/ A_SetSender \/ A_SetPub \/ A_Rehash \/ A_Resign \/ A_BreakSig \/ A_Duplicate
MSpec == MInit /\ [][MNext]_<<vars, hist>>
MView == vars
\* behaviour dump (one line per distinct tamper sequence)
GPrint == PrintT(<<"BEHAVIOUR", ToJson(hist)>>)
=============================================================================
