----------------------------- MODULE MC_Binding -----------------------------
EXTENDS Binding, Json
(* every reachable state = one tamper sequence; hist carries it for replay *)
VARIABLE hist
MInit == Init /\ hist = <<>>
A_Tamper == \E f \in Fields : Tamper(f) /\ hist' = Append(hist, f)
A_SetSender == SetSender /\ hist' = Append(hist, "SetSender")
A_SetPub == SetPub /\ hist' = Append(hist, "SetPub")
A_Rehash == Rehash /\ hist' = Append(hist, "Rehash")
A_Resign == Resign /\ hist' = Append(hist, "Resign")
A_BreakSig == BreakSig /\ hist' = Append(hist, "BreakSig")
A_Duplicate == Duplicate /\ hist' = Append(hist, "Duplicate")
MNext == A_Tamper \/ A_SetSender \/ A_SetPub \/ A_Rehash \/ A_Resign \/ A_BreakSig \/ A_Duplicate
MSpec == MInit /\ [][MNext]_<<vars, hist>>
MView == vars
\* behaviour dump (one line per distinct tamper sequence)
GPrint == PrintT(<<"BEHAVIOUR", ToJson(hist)>>)
=============================================================================
