SPECIFICATION Spec
CONSTANTS
  Miner = {"m1", "m2", "m3", "m4"}
  Byz = {}
  T = 3
  MaxRound = 2
  MaxBlocksPerRound = 2
  MultiVote = TRUE
  Confirm = 1
INVARIANTS Agreement FinalizedIsNotarized
PROPERTY LFBMonotone
CHECK_DEADLOCK FALSE
