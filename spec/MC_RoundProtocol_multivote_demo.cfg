SPECIFICATION Spec
CONSTANTS
  Miner = {"m1", "m2", "m3"}
  Byz = {}
  T = 2
  MaxRound = 2
  MaxBlocksPerRound = 2
  MultiVote = TRUE
  Confirm = 1
INVARIANTS Agreement FinalizedIsNotarized
CHECK_DEADLOCK FALSE
