SPECIFICATION RTCSpec
CONSTANTS
  Miner = {"m1","m2","m3"}
  Shs = {"s1"}
  K0 = 2
  T0 = 2
  PRs <- PR_ones
  MinN = 2
  CurK = 3
  MaxRound = 11
  MaxCycle = 3
  Flaky = {"m3"}
  LagOn = FALSE
  RestMayFail = FALSE
  StoreByNumber = TRUE
  MaxFaults = 0
INVARIANTS NoStaleDKG
CHECK_DEADLOCK FALSE
