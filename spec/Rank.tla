-------------------------------- MODULE Rank --------------------------------
(***************************************************************************)
(* C35(a) generator ranking and C42 replicating sharders.                  *)
(*                                                                         *)
(* Two nodes each build their own node.Pool by adding the same members in  *)
(* different orders (pool1, pool2 = insertion sequences).                  *)
(*  - node_pool.go:168-175 computeNodePositions: SetIndex = position in    *)
(*    the pool sorted by id  (IndexBySortedId = TRUE; FALSE = position of  *)
(*    insertion, the mistake this property guards against)                 *)
(*  - round/entity.go:585-612: rank(m) = rand.Perm(seed, n)[SetIndex(m)];  *)
(*    the permutation is an UNINTERPRETED bijection PermOf[seed][n]        *)
(*  - node_pool_scorer.go: sharders sorted by (score desc, SetIndex desc);  *)
(*    IsInTop / IsInTopWithNodes(n): n > size -> nobody; otherwise every   *)
(*    sharder whose score >= the n-th score (ties at the cut included);    *)
(*    chain/entity.go:1760-1783: n <= 0 -> every sharder.                  *)
(*    CutAtN = TRUE is the variant "exactly the first n", which needs the  *)
(*    tie-break and is what makes the choice depend on SetIndex.           *)
(***************************************************************************)
EXTENDS Integers, Sequences, FiniteSets, TLC

CONSTANTS Node,             \* member ids
          IdOrder,          \* all of Node as a sequence in ascending id order
          Seeds, PermOf,    \* PermOf[seed][n] : bijection 1..n -> 0..n-1
          Scores,           \* possible hash scores of a sharder for the block
          NReps,            \* possible configured numbers of replicators
          IndexBySortedId, CutAtN,
          CanonicalFirst    \* TRUE: pool1 is built in id order (halves the state space for C42)
VARIABLES pool1, pool2, seed, score, nrep
vars == <<pool1, pool2, seed, score, nrep>>

Pos(s, x) == CHOOSE i \in 1..Len(s) : s[i] = x
Members(p) == {p[i] : i \in 1..Len(p)}
IdLess(a, b) == Pos(IdOrder, a) < Pos(IdOrder, b)

SetIndex(p, m) == IF IndexBySortedId THEN Cardinality({x \in Members(p) : IdLess(x, m)})
                                     ELSE Pos(p, m) - 1
RankOf(p, m) == PermOf[seed][Len(p)][SetIndex(p, m) + 1]

\* sort by (score desc, SetIndex desc): position of m in the sorted list, 1-based
Before(p, a, b) == score[a] > score[b] \/ (score[a] = score[b] /\ SetIndex(p, a) > SetIndex(p, b))
SortPos(p, m) == 1 + Cardinality({x \in Members(p) : Before(p, x, m)})
NthScore(p, n) == score[CHOOSE m \in Members(p) : SortPos(p, m) = n]
Replicators(p, n) ==
  IF n <= 0 THEN Members(p)
  ELSE IF n > Len(p) THEN {}
  ELSE IF CutAtN THEN {m \in Members(p) : SortPos(p, m) <= n}
  ELSE {m \in Members(p) : score[m] >= NthScore(p, n)}

Init == /\ pool1 = <<>> /\ pool2 = <<>>
        /\ seed \in Seeds /\ score \in [Node -> Scores] /\ nrep \in NReps
Add1(m) == /\ m \notin Members(pool1)
           /\ (CanonicalFirst => \A x \in Node : IdLess(x, m) => x \in Members(pool1))
           /\ pool1' = Append(pool1, m) /\ UNCHANGED <<pool2, seed, score, nrep>>
Add2(m) == m \notin Members(pool2) /\ pool2' = Append(pool2, m) /\ UNCHANGED <<pool1, seed, score, nrep>>
A_Add1 == \E m \in Node : Add1(m)
A_Add2 == \E m \in Node : Add2(m)
Next == A_Add1 \/ A_Add2
Spec == Init /\ [][Next]_vars

Same == Members(pool1) = Members(pool2)
N == Len(pool1)

TypeOK == \A s \in Seeds : \A n \in 1..Cardinality(Node) :
             {PermOf[s][n][i] : i \in 1..n} = 0..(n - 1)      \* the uninterpreted Perm is a bijection

C35_RankSame == Same => \A m \in Members(pool1) : RankOf(pool1, m) = RankOf(pool2, m)
C35_RankPermutation == {RankOf(pool1, m) : m \in Members(pool1)} = 0..(N - 1)

C42_SameSet == Same => Replicators(pool1, nrep) = Replicators(pool2, nrep)
C42_AtLeastN == (nrep > 0 /\ Len(pool2) >= nrep) => Cardinality(Replicators(pool2, nrep)) >= nrep
C42_AllWhenDisabled == nrep <= 0 => Replicators(pool2, nrep) = Members(pool2)
=============================================================================
