-------------------------------- MODULE Rank --------------------------------
(***************************************************************************)
(* C35(a) generator ranking and C42 replicating sharders.                  *)
(*                                                                         *)
(* Two nodes each build their own node.Pool by adding the same members in  *)
(* different orders (pool1, pool2 = insertion sequences).                  *)
(*  - node_pool.go:168-175 computeNodePositions: SetIndex = position in    *)
(*    the pool sorted by id  (IndexBySortedId = TRUE; FALSE = position of  *)
(*    insertion, the mistake this property guards against)                 *)
(*  - round/entity.go:585-612: rank(m) = rand.Perm(seed, n)[SetIndex(m)];  *)
(*    the permutation is an UNINTERPRETED bijection PermOf[seed][n]        *)
(*  - node_pool_scorer.go: sharders sorted by (score desc, SetIndex desc);  *)
(*    IsInTop / IsInTopWithNodes(n): n > size -> nobody; otherwise every   *)
(*    sharder whose score >= the n-th score (ties at the cut included);    *)
(*    chain/entity.go:1760-1783: n <= 0 -> every sharder.                  *)
(*    CutAtN = TRUE is the variant "exactly the first n", which needs the  *)
(*    tie-break and is what makes the choice depend on SetIndex.           *)
(*                                                                         *)
(* Pool history of node 2 (Sharing = TRUE).  SetIndex is a field of the    *)
(* *node.Node OBJECT (idx), rewritten by the last computeNodePositions of   *)
(* ANY pool that holds the object.  Node 2 also adds some of its sharder   *)
(* objects to the sharder pool of another magic block (ShareOther: idx of  *)
(* the shared objects now is the position in THAT pool, i.e. stale for     *)
(* pool 2), and is told about known sharders again (ReAdd2, the replace    *)
(* path of Pool.AddNode node_pool.go:79-92, with the same object or a fresh *)
(* one, which detaches the key from the other pool's object).              *)
(*  slots2 = np.Nodes of pool 2 (a slice: it COULD hold a key twice),       *)
(*  ReplaceByKey = TRUE: the slot of the known key is found by key (the     *)
(*  code); FALSE: the slot is np.Nodes[SetIndex of the known object], the   *)
(*  mistake that a stale SetIndex turns into a lost + a duplicated sharder. *)
(*  The replicators of node 2 are computed from slots2 and idx as the code  *)
(*  does (ScoreHash over CopyNodes, stable sort by (score, idx) desc).      *)
(***************************************************************************)
EXTENDS Integers, Sequences, FiniteSets, TLC

CONSTANTS Node,             \* member ids
          IdOrder,          \* all of Node as a sequence in ascending id order
          Seeds, PermOf,    \* PermOf[seed][n] : bijection 1..n -> 0..n-1
          Scores,           \* possible hash scores of a sharder for the block
          NReps,            \* possible configured numbers of replicators
          IndexBySortedId, CutAtN,
          CanonicalFirst,   \* TRUE: pool1 is built in id order (halves the state space for C42)
          Sharing,          \* TRUE: node 2 shares node objects with another pool and re-adds known sharders
          ReplaceByKey,     \* TRUE: AddNode of a known key replaces the slot found by key
          MaxReAdd          \* bound on the number of ReAdd2 steps
VARIABLES pool1, pool2, seed, score, nrep,
          slots2,           \* np.Nodes of pool 2
          other,            \* np.Nodes of the other magic block's sharder pool (node 2's objects)
          idx,              \* SetIndex field of node 2's object per key
          detached,         \* keys whose pool-2 object was replaced by a fresh one (no longer the other pool's object)
          readds
hist2 == <<slots2, other, idx, detached, readds>>
vars == <<pool1, pool2, seed, score, nrep, hist2>>

Pos(s, x) == CHOOSE i \in 1..Len(s) : s[i] = x
Members(p) == {p[i] : i \in 1..Len(p)}
IdLess(a, b) == Pos(IdOrder, a) < Pos(IdOrder, b)

SetIndex(p, m) == IF IndexBySortedId THEN Cardinality({x \in Members(p) : IdLess(x, m)})
                                     ELSE Pos(p, m) - 1
RankOf(p, m) == PermOf[seed][Len(p)][SetIndex(p, m) + 1]

\* sort by (score desc, SetIndex desc): position of m in the sorted list, 1-based
Before(p, a, b) == score[a] > score[b] \/ (score[a] = score[b] /\ SetIndex(p, a) > SetIndex(p, b))
SortPos(p, m) == 1 + Cardinality({x \in Members(p) : Before(p, x, m)})
NthScore(p, n) == score[CHOOSE m \in Members(p) : SortPos(p, m) = n]
Replicators(p, n) ==
  IF n <= 0 THEN Members(p)
  ELSE IF n > Len(p) THEN {}
  ELSE IF CutAtN THEN {m \in Members(p) : SortPos(p, m) <= n}
  ELSE {m \in Members(p) : score[m] >= NthScore(p, n)}

\* ---- node 2 as the code keeps it: the Nodes slice and the per-object SetIndex
Below(s, x) == Cardinality({i \in 1..Len(s) : IdLess(s[i], x)})
AtMost(s, x) == Cardinality({i \in 1..Len(s) : ~IdLess(x, s[i])})
SortedById(s) == [i \in 1..Len(s) |-> CHOOSE x \in Node : Below(s, x) < i /\ i <= AtMost(s, x)]
\* computeNodePositions: sort the slice by id (unless the insertion-position variant), then SetIndex = slot
Positioned(s) == IF IndexBySortedId THEN SortedById(s) ELSE s
LastPos(s, x) == CHOOSE i \in 1..Len(s) : s[i] = x /\ \A j \in (i + 1)..Len(s) : s[j] # x
Reindex(s, f, skip) == [x \in Node |-> IF x \in Members(s) \ skip THEN LastPos(s, x) - 1 ELSE f[x]]

\* ScoreHash + IsInTop / IsInTopWithNodes over the slots of pool 2 (i, j are slots)
BeforeI(i, j) == LET a == slots2[i]  b == slots2[j] IN
                 \/ score[a] > score[b]
                 \/ score[a] = score[b] /\ idx[a] > idx[b]
                 \/ score[a] = score[b] /\ idx[a] = idx[b] /\ i < j           \* SliceStable
SortPosI(i) == 1 + Cardinality({j \in 1..Len(slots2) : BeforeI(j, i)})
NthScore2(n) == score[slots2[CHOOSE i \in 1..Len(slots2) : SortPosI(i) = n]]
Replicators2(n) ==
  IF n <= 0 THEN Members(slots2)
  ELSE IF n > Len(slots2) THEN {}
  ELSE IF CutAtN THEN {slots2[i] : i \in {j \in 1..Len(slots2) : SortPosI(j) <= n}}
  ELSE {slots2[i] : i \in {j \in 1..Len(slots2) : score[slots2[j]] >= NthScore2(n)}}

Init == /\ pool1 = <<>> /\ pool2 = <<>>
        /\ seed \in Seeds /\ score \in [Node -> Scores] /\ nrep \in NReps
        /\ slots2 = <<>> /\ other = <<>> /\ idx = [x \in Node |-> 0] /\ detached = {} /\ readds = 0
Add1(m) == /\ m \notin Members(pool1)
           /\ (CanonicalFirst => \A x \in Node : IdLess(x, m) => x \in Members(pool1))
           /\ pool1' = Append(pool1, m) /\ UNCHANGED <<pool2, seed, score, nrep, hist2>>
Add2(m) == /\ m \notin Members(pool2) /\ pool2' = Append(pool2, m)
           /\ slots2' = Positioned(Append(slots2, m))
           /\ idx' = Reindex(slots2', idx, {})
           /\ UNCHANGED <<pool1, seed, score, nrep, other, detached, readds>>
\* the object of sharder m (already in pool 2) is also added to the other magic block's pool
ShareOther(m) == /\ Sharing /\ m \in Members(pool2) /\ m \notin Members(other)
                 /\ other' = Positioned(Append(other, m))
                 /\ idx' = Reindex(other', idx, detached)
                 /\ UNCHANGED <<pool1, pool2, seed, score, nrep, slots2, detached, readds>>
\* AddNode(pool 2, m) for a key the pool knows; fresh = a new node object for the key
ReAdd2(m, fresh) ==
  /\ Sharing /\ m \in Members(pool2) /\ readds < MaxReAdd
  /\ LET slot == IF ReplaceByKey THEN Pos(slots2, m) ELSE idx[m] + 1 IN
       /\ slot \in 1..Len(slots2)                       \* (otherwise the variant panics)
       /\ slots2' = Positioned([slots2 EXCEPT ![slot] = m])
  /\ idx' = Reindex(slots2', idx, {})
  /\ detached' = IF fresh THEN detached \cup {m} ELSE detached
  /\ readds' = readds + 1
  /\ UNCHANGED <<pool1, pool2, seed, score, nrep, other>>
A_Add1 == \E m \in Node : Add1(m)
A_Add2 == \E m \in Node : Add2(m)
A_ShareOther == \E m \in Node : ShareOther(m)
A_ReAdd2 == \E m \in Node : \E fresh \in BOOLEAN : ReAdd2(m, fresh)
Next == A_Add1 \/ A_Add2 \/ A_ShareOther \/ A_ReAdd2
Spec == Init /\ [][Next]_vars

Same == Members(pool1) = Members(pool2)
N == Len(pool1)

TypeOK == \A s \in Seeds : \A n \in 1..Cardinality(Node) :
             {PermOf[s][n][i] : i \in 1..n} = 0..(n - 1)      \* the uninterpreted Perm is a bijection

C35_RankSame == Same => \A m \in Members(pool1) : RankOf(pool1, m) = RankOf(pool2, m)
C35_RankPermutation == {RankOf(pool1, m) : m \in Members(pool1)} = 0..(N - 1)

C42_SameSet == Same => Replicators(pool1, nrep) = Replicators2(nrep)
C42_AtLeastN == (nrep > 0 /\ Len(pool2) >= nrep) => Cardinality(Replicators2(nrep)) >= nrep
C42_AllWhenDisabled == nrep <= 0 => Replicators2(nrep) = Members(pool2)
\* model sanity: without a history node 2's slice/SetIndex view is the declarative one; with the code's
\* replace-by-key the slice holds every sharder exactly once, whatever the history
M_NoHistorySame == (other = <<>> /\ readds = 0) => Replicators2(nrep) = Replicators(pool2, nrep)
M_Pool2EachOnce == ReplaceByKey => (Len(slots2) = Len(pool2) /\ Members(slots2) = Members(pool2))
=============================================================================
