SPECIFICATION GenSpec
CONSTANTS
  Sender = {"s1", "s2"}
  MaxNonce = 3
  StateNonce = {0, 1}
  MaxCost = 8
  BuiltIn <- MCBuiltIn
  BiName = "payFees"
  Class = {"ok", "fail", "stale", "sc", "bi"}
  MaxPool = 6
  FilterBuiltins = TRUE
  Txn <- GenTxn
INVARIANT GPrint
CHECK_DEADLOCK FALSE
