SPECIFICATION MCSpec
CONSTANTS
  Keys = {1, 2, 3, 4, 5, 6}
  MaxRecs = 4
  SearchAsCoded = TRUE
  WithHeader = FALSE
INVARIANTS TypeOK C26_ReadBackExact C26_CrashSafe C26_NormalOpenSucceeds CodedPresentFound CodedAbsentNotFoundOrHang
CHECK_DEADLOCK FALSE
