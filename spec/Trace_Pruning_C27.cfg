SPECIFICATION TraceSpec
INVARIANTS HarnessRan C27_RetainedReadable
POSTCONDITION Accepted
CHECK_DEADLOCK FALSE
