SPECIFICATION GSpec
CONSTANTS
  Ids = {1, 2, 3, 4, 5}
  PSizes = {1, 2, 3}
  MaxOps = 16
INVARIANT GPrint
CHECK_DEADLOCK FALSE
