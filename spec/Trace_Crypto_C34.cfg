SPECIFICATION TraceSpec
INVARIANTS C34_SharesValidate C34_PartyKeysVerify C34_Recovery C34_Sos HarnessThrShape
POSTCONDITION Accepted
CHECK_DEADLOCK FALSE
