SPECIFICATION MSpec
CONSTANTS
  Miners = {"m1","m2","m3","m4"}
  Sharders = {"s1","s2"}
  Stranger = "c1"
  PRs <- PR_ones
  MinN = 4
  MaxN = 4
  MinS = 1
  MaxS = 2
  K0 = 3
  T0 = 2
  MaxRound = 8
  MaxTx = 4
  Focus = "m1"
VIEW MView
INVARIANTS M_Type M_OnlyParticipants M_ListsWithPhase M_MagicBlock
PROPERTY M_PhaseOrder
CHECK_DEADLOCK FALSE
