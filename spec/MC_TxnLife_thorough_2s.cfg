SPECIFICATION Spec
CONSTANTS
  Sender = {"c1", "c2"}
  MaxNonce = 2
  Tol = 1
  FutureNonce = 2
  MaxTx = 2
  CleanupMargin = 0
  OwnKeepsPast = TRUE
  Kinds = {"ok", "tamper"}
  CtOffsets = {0}
  MaxClock = 2
  SignUntil = 0
  MaxTxns = 2
  MaxBlocks = 3
  MaxRecv = 2
  RecvTimes = {0, 2}
  AllowResubmit = FALSE
  Interleave = FALSE
INVARIANTS TypeOK AtMostOncePerBranch NonceOrderPerBranch NeverAfterExpiry OnlyBound GeneratedVerifies GenMaximal GenRefinesBigStep
CHECK_DEADLOCK FALSE
