SPECIFICATION TraceSpec
INVARIANTS NoPanic C25_SetSemantics C25_Membership C25_NoDuplicates C25_IterationIsTheSet C25_AllButLastFull C25_SizeExact C25_RandomDistinctMembers
POSTCONDITION Accepted
CHECK_DEADLOCK FALSE
