SPECIFICATION MCSpec
CONSTANTS
  Miner = {"m1", "m2"}
  Sharder = {"s1", "s2", "s3"}
  MaxFee = 5
  MaxTxns = 2
  MinFee = 1
  SkipExempt = TRUE
  Reward = 3
  Ratios <- MCRatios
  NSh = 2
  MaxBlocks = 1
CONSTRAINT MCConstraint
INVARIANTS C22_Exact C22_Split C22_OnlyGenerator C22_OncePerRound
CHECK_DEADLOCK FALSE
