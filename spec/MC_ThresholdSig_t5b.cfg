SPECIFICATION Spec
CONSTANTS
  P = 5
  MaxN = 3
  MaxT = 2
  IdVals = {1, 2, 3}
  IdOrder = "asc"
  IdSeqs <- MC_IdSeqs
  CoefVals = {0, 1, 2, 3, 4}
  Msgs = {2}
  Kinds = {"dkg"}
  TamperBy = {1}
INVARIANTS TypeOK HonestSharesValidate AlteredSharesFail PartyKeysVerify EnoughSharesRecover FewerSharesUndetermined SplitNeedsAll SosExact
CHECK_DEADLOCK FALSE
