\* Not run by the check (17 min at 12 workers): 4 rounds + fork block, 2 faults, lagging peers. Run 2026-09-22: 88 538 289 states generated,
\* 15 959 920 distinct, depth 59, no error. (healthCheck for any round: HCAhead = TRUE)
SPECIFICATION Spec
CONSTANTS
  Canon <- MCCanon4
  Fork <- MCFork
  Info <- MCInfo
  Genesis = "g"
  Batch = 2
  Confirmations = 1
  CountMerges = TRUE
  MaxFaults = 2
  MaxCnt = 4
  HCAhead = TRUE
  Concurrent = FALSE
  MaxLag = 1
CONSTRAINT StateConstraint
INVARIANTS TypeOK RoundMapCanonical LFBCanonical RestartPossible LFBPersisted OnlyFinalizedStored CountAtLeast CountMultiple
  ServeByRoundSound ConfirmationSound
PROPERTIES RoundMapStable LFBChain FinalizationComplete RepairCompletes RepairKeeps RepairWindow
CHECK_DEADLOCK FALSE
