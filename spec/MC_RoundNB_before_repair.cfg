SPECIFICATION Spec
CONSTANTS
  Blocks <- MCBlocks
  UpdateStoresGiven = FALSE
  MaxOps = 4
INVARIANTS C35_OnePerRank C35_HeaviestFirst C35_AddStores OneEntryPerHash
CHECK_DEADLOCK FALSE
