SPECIFICATION TraceSpec
INVARIANTS HarnessGenuineAccepted HarnessAltAgrees C47_VerifyExact C47_ObjectExact C47_ObjectBound
POSTCONDITION Accepted
CHECK_DEADLOCK FALSE
