SPECIFICATION TraceSpec
INVARIANTS HarnessGenuineAccepted HarnessAltAgrees C47_VerifyExact
POSTCONDITION Accepted
CHECK_DEADLOCK FALSE
