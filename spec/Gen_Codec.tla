------------------------------ MODULE Gen_Codec ------------------------------
(* Enumerates (TLC, exhaustive) every class vector x round of Codec.tla; each is   *)
(* printed as one BEHAVIOUR line that vdriver instantiates on every stored type.   *)
EXTENDS MC_Codec, Json
VARIABLE beh
GInit == CInit /\ \E v \in Vectors, j \in Rounds :
           /\ (j > 0 => \E s \in Slots : v[s] # v[1])     \* a uniform vector is the same in every round
           /\ beh = [vec |-> v, round |-> j]
GNext == UNCHANGED <<cvars, beh>>
GSpec == GInit /\ [][GNext]_<<cvars, beh>>
GPrint == PrintT(<<"BEHAVIOUR", ToJson(beh)>>)
=============================================================================
