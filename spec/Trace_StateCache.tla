-------------------------- MODULE Trace_StateCache --------------------------
(***************************************************************************)
(* Trace spec for C07.  Every `Step` event is one operation of a TLC       *)
(* behaviour of StateCache.tla carried out on the real StateContext /      *)
(* statecache / MPT for one cacheable entity type, followed by the         *)
(* observations `obs`: for a scope (the running transaction "txnN", the    *)
(* next transaction of an open block "blk:b", a query on a sealed block    *)
(* "qry:b") and a key, `c` = hash of the value served through the cache,   *)
(* `t` = hash of the value read from a fresh cache-less trie at the same   *)
(* root ("-" = absent).  Nothing else is constrained: which operation      *)
(* runs, what values look like, hit or miss are all free.                  *)
(***************************************************************************)
EXTENDS TraceLib

VARIABLES l, ev,
          last,   \* id -> c of the latest observation before the current event
          pre     \* id -> c observed for the transaction's block when the transaction began
vars == <<l, ev, last, pre>>
Null == [ev |-> "none"]
Empty == [x \in {} |-> ""]

\* f overridden by the observations obs (ids are unique within an event); written without recursion:
\* an End event of the partitions-API mode carries > 100 observations
ObsAt(obs, x) == obs[CHOOSE i \in 1..Len(obs) : obs[i].id = x].c
PutObs(f, obs) == LET ids == {obs[i].id : i \in 1..Len(obs)} IN
                  [x \in (DOMAIN f) \cup ids |-> IF x \in ids THEN ObsAt(obs, x) ELSE f[x]]
CurObs(obs) == LET ids == {obs[i].id : i \in {j \in 1..Len(obs) : obs[j].cur}} IN
               [x \in ids |-> ObsAt(obs, x)]

\* `last` is updated one event late, so that an invariant on `ev` sees the observations BEFORE ev
Absorb(e, f) == IF e.ev = "Step" THEN PutObs(f, e.obs) ELSE IF e.ev = "Reset" THEN Empty ELSE f

TraceInit == l = 1 /\ ev = Null /\ last = Empty /\ pre = Empty
TraceNext ==
  /\ l <= Len(Trace) /\ l' = l + 1
  /\ LET e == Trace[l] IN
     /\ ev' = e
     /\ last' = Absorb(ev, last)
     /\ pre' = IF e.ev = "Reset" THEN Empty
               ELSE IF e.ev = "Step" /\ e.op = "BeginTxn" THEN CurObs(e.obs)
               ELSE pre
TraceSpec == TraceInit /\ [][TraceNext]_vars

IsStep == ev.ev = "Step" /\ ~IsKnown(ev)
Obs == IF ev.ev = "Step" THEN {ev.obs[i] : i \in 1..Len(ev.obs)} ELSE {}

\* C07 (1): in every scope, the value served through the cache is the value the trie holds;
\* the object a Get / Query hands to the caller is that value too
C07_CacheAgreesWithTrie == IsStep => /\ \A o \in Obs : o.c = o.t
                                     /\ ev.got = ev.want
\* C07 (2): mutating an object that was handed out (or inserted) changes nothing any reader is served
C07_MutateInvisible == (IsStep /\ ev.op = "Mutate") =>
                         \A o \in Obs : o.id \in DOMAIN last => o.c = last[o.id]
\* C07 (3): after a failed transaction the readers of its block are served what they were served before it
C07_NoResidue == (IsStep /\ ev.op \in {"DiscardTxn", "RejectTxn"}) =>
                   \A o \in Obs : (o.cur /\ o.id \in DOMAIN pre) => o.c = pre[o.id]

\* harness: the operation itself went through (no unexpected error of the driver's own calls);
\* a failed transaction really failed and a committed one was applied
HarnessOpOk == ev.ev = "Step" => ev.err = ""
=============================================================================
