SPECIFICATION GSpec
CONSTANTS
  Dest = {"d1", "d2"}
  MaxAmt = 5
  MaxExtra = 2
  Durs = {2, 3, 5, 8}
  MaxDelay = 1
  MaxTime = 12
  MaxStep = 2
  GenLen = 10
INVARIANT GPrint
CHECK_DEADLOCK FALSE
