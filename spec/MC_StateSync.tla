----------------------------- MODULE MC_StateSync -----------------------------
(* Exhaustive: every chain of three states over Key x Val, every tamper class, *)
(* every concrete tampering of that class, for both blocks.                    *)
EXTENDS StateSync
A_None == /\ last.t = "init"
          /\ \E i \in 1..2 : Sync("none", i)
A_Drop == /\ last.t = "init"
          /\ \E i \in 1..2 : Sync("drop", i)
A_Extra == /\ last.t = "init"
          /\ \E i \in 1..2 : Sync("extra", i)
A_Alter == /\ last.t = "init"
          /\ \E i \in 1..2 : Sync("alter", i)
A_WrongRoot == /\ last.t = "init"
          /\ \E i \in 1..2 : Sync("wrongroot", i)
A_WrongHash == /\ last.t = "init"
          /\ \E i \in 1..2 : Sync("wronghash", i)
A_Replay == /\ last.t = "init"
          /\ \E i \in 1..2 : Sync("replay", i)
A_Swap == /\ last.t = "init"
          /\ \E i \in 1..2 : Sync("swap", i)
A_Relabel == /\ last.t = "init"
          /\ \E i \in 1..2 : Sync("relabel", i)
MCNext == A_Relabel \/ A_None \/ A_Drop \/ A_Extra \/ A_Alter \/ A_WrongRoot \/ A_WrongHash \/ A_Replay \/ A_Swap
MCSpec == Init /\ [][MCNext]_vars
(* the swap class does get accepted with a missing node somewhere (witness that the model reaches it) *)
SwapNeverIncomplete == ~(Synced /\ last.t = "swap" /\ last.accepted /\ \E k \in Key : Lookup(local, k) = Missing)
=============================================================================
