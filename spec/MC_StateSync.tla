----------------------------- MODULE MC_StateSync -----------------------------
(* Exhaustive: every chain of three states over Key x Val, every tamper class, *)
(* every concrete tampering of that class, for both blocks.                    *)
EXTENDS StateSync
A_None == \E i \in 1..2 : /\ Sync("none", i)
                           /\ last'.t = "none"
A_Drop == \E i \in 1..2 : /\ Sync("drop", i)
                           /\ last'.t = "drop"
A_Extra == \E i \in 1..2 : /\ Sync("extra", i)
                           /\ last'.t = "extra"
A_Alter == \E i \in 1..2 : /\ Sync("alter", i)
                           /\ last'.t = "alter"
A_WrongRoot == \E i \in 1..2 : /\ Sync("wrongroot", i)
                           /\ last'.t = "wrongroot"
A_WrongHash == \E i \in 1..2 : /\ Sync("wronghash", i)
                           /\ last'.t = "wronghash"
A_Replay == \E i \in 1..2 : /\ Sync("replay", i)
                           /\ last'.t = "replay"
A_Swap == \E i \in 1..2 : /\ Sync("swap", i)
                           /\ last'.t = "swap"
MCNext == A_None \/ A_Drop \/ A_Extra \/ A_Alter \/ A_WrongRoot \/ A_WrongHash \/ A_Replay \/ A_Swap
MCSpec == Init /\ [][MCNext]_vars
(* the swap class does get accepted with a missing node somewhere (witness that the model reaches it) *)
SwapNeverIncomplete == ~(Synced /\ last.t = "swap" /\ last.accepted /\ \E k \in Key : Lookup(local, k) = Missing)
=============================================================================
