SPECIFICATION GSpec
CHECK_DEADLOCK FALSE
