SPECIFICATION TraceSpec
CONSTANTS
  Miner = {"m1","m2","m3","m4"}
  Shs = {"s1","s2"}
  K0 = 3
  T0 = 3
  PRs <- PR_real
  MinN = 3
  CurK = 4
  MaxRound = 0
  MaxCycle = 0
  Flaky = {}
  LagOn = TRUE
  RestMayFail = TRUE
  StoreByNumber = TRUE
  MaxFaults = 0
INVARIANTS HarnessConfig HarnessThresholds HarnessPayFees HarnessClient HarnessLoopState HarnessTxn HarnessRPC HarnessContents HarnessNewMB HarnessNamed HarnessEnded C38_PhaseSchedule C38_ListsFollow C38_MagicBlock C38_MpkAccept C38_KeepAccept C38_ShareAccept C38_WaitAccept C38_ParticipantsHaveKeys
POSTCONDITION Accepted
CHECK_DEADLOCK FALSE
