SPECIFICATION Spec
CONSTANTS
  P = 11
  MaxN = 3
  MaxT = 3
  CoefVals = {0, 1, 4, 7, 10}
  MsgVals = {6}
  Kinds = {"ok", "bad", "wrongmsg", "other", "stale"}
  MaxArrivals = 6
  MaxPerParty = 2
  MaxInvalid = 6
VIEW MCView
INVARIANTS TypeOK C33_Cap C33_OnlyValidStored C33_SeedIffThreshold C33_SeedFunction
CHECK_DEADLOCK FALSE
