SPECIFICATION Spec
CONSTANTS
  Names = {"f1", "f3"}
  Rounds = {0, 1, 2}
  NoFork = NoFork
  Aliased = TRUE
  Inclusive = FALSE
  MaxOps = 6
INVARIANTS C43_MissingFork C43_BeforeFork C43_AfterFork
CHECK_DEADLOCK FALSE
