SPECIFICATION TraceSpec
CONSTANTS PropTol = 2
INVARIANTS HarnessStakeContinuity C11_NoPanic C11_Frame C11_Lock C11_Unlock C11_OwnerCanUnlock C11_Collect
POSTCONDITION Accepted
CHECK_DEADLOCK FALSE
