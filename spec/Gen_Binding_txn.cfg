SPECIFICATION MSpec
CONSTANTS
  Fields = {"time","nonce","recipient","value","data","fee","type"}
  MustBind = {"time","nonce","sender","recipient","value","data","fee","type"}
  HashInput = {"time","nonce","sender","recipient","value","data","fee","type"}
  KeyInObject = TRUE
  DupShapes <- ShapesNone
  MaxSteps = 3

INVARIANT GPrint
CHECK_DEADLOCK FALSE
