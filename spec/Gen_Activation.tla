--------------------------- MODULE Gen_Activation ---------------------------
(* Behaviours for C43, enumerated by TLC: for every fork round f in 0..4 or    *)
(* none, optionally re-recorded at g, optionally preceded by a non-owner       *)
(* attempt, probe BOTH names (f2 is never recorded) at every round 0..4.       *)
(* Two forks (f1, f3) recorded at different rounds and looked up one after the *)
(* other by one transaction, through a warm and through a cold state cache.    *)
EXTENDS Integers, Sequences, TLC, Json
VARIABLE g
R == 0..4
Rec(n, r, by) == [t |-> "rec", name |-> n, r |-> r, by |-> by, ctx |-> ""]
Probes == [i \in 1..10 |-> [t |-> "probe", name |-> IF i <= 5 THEN "f1" ELSE "f2", r |-> (i - 1) % 5, by |-> "", ctx |-> "new"]]
\* a node restart: the next block runs on an empty state cache
Cold == [t |-> "cold", name |-> "", r |-> 0, by |-> "", ctx |-> ""]
\* two forks looked up one after the other (twice) by ONE transaction, at every round 0..4
Pr(n, r, c) == [t |-> "probe", name |-> n, r |-> r, by |-> "", ctx |-> c]
Probes2 == [i \in 1..20 |-> Pr(IF i % 2 = 1 THEN "f1" ELSE "f3", (i - 1) \div 4, IF i % 4 = 1 THEN "new" ELSE "same")]
P(x) == PrintT(<<"BEHAVIOUR", ToJson([k |-> "act", ops |-> x])>>)
Printed ==
  /\ P(Probes)                                                               \* never recorded
  /\ \A f \in R : P(<<Rec("f1", f, "owner")>> \o Probes)                     \* recorded at f
  /\ \A f \in R : P(<<Rec("f1", f, "other")>> \o Probes)                     \* non-owner attempt only
  /\ \A f \in R : \A h \in R : f # h => P(<<Rec("f1", f, "owner"), Rec("f1", h, "owner")>> \o Probes)   \* re-recorded
  /\ \A f \in R : \A h \in R : f # h => P(<<Rec("f1", f, "owner"), Rec("f1", h, "other")>> \o Probes)   \* non-owner overwrite attempt
  /\ \A f \in R : P(<<Rec("f1", f, "owner")>> \o Probes \o <<Rec("f1", (f + 2) % 5, "owner")>> \o Probes) \* moved while probing
  \* two forks at different rounds: warm cache (entries written by add_hardfork), after a restart (cold
  \* cache), recorded in separate blocks with a restart after each, and only the second one recorded
  /\ \A f \in R : \A h \in R : f # h => P(<<Rec("f1", f, "owner"), Rec("f3", h, "owner")>> \o Probes2)
  /\ \A f \in R : \A h \in R : f # h => P(<<Rec("f1", f, "owner"), Rec("f3", h, "owner"), Cold>> \o Probes2 \o Probes2)
  /\ \A f \in R : \A h \in R : f # h => P(<<Rec("f3", h, "owner"), Cold, Rec("f1", f, "owner"), Cold>> \o Probes2)
  /\ \A h \in R : P(<<Rec("f3", h, "owner"), Cold>> \o Probes2)
GInit == g = IF Printed THEN 0 ELSE 1
GNext == UNCHANGED g
GSpec == GInit /\ [][GNext]_g
=============================================================================
