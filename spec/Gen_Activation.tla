--------------------------- MODULE Gen_Activation ---------------------------
(* Behaviours for C43, enumerated by TLC: for every fork round f in 0..4 or    *)
(* none, optionally re-recorded at g, optionally preceded by a non-owner       *)
(* attempt, probe BOTH names (f2 is never recorded) at every round 0..4.       *)
EXTENDS Integers, Sequences, TLC, Json
VARIABLE g
R == 0..4
Rec(n, r, by) == [t |-> "rec", name |-> n, r |-> r, by |-> by]
Probes == [i \in 1..10 |-> [t |-> "probe", name |-> IF i <= 5 THEN "f1" ELSE "f2", r |-> (i - 1) % 5, by |-> ""]]
P(x) == PrintT(<<"BEHAVIOUR", ToJson([k |-> "act", ops |-> x])>>)
Printed ==
  /\ P(Probes)                                                               \* never recorded
  /\ \A f \in R : P(<<Rec("f1", f, "owner")>> \o Probes)                     \* recorded at f
  /\ \A f \in R : P(<<Rec("f1", f, "other")>> \o Probes)                     \* non-owner attempt only
  /\ \A f \in R : \A h \in R : f # h => P(<<Rec("f1", f, "owner"), Rec("f1", h, "owner")>> \o Probes)   \* re-recorded
  /\ \A f \in R : \A h \in R : f # h => P(<<Rec("f1", f, "owner"), Rec("f1", h, "other")>> \o Probes)   \* non-owner overwrite attempt
  /\ \A f \in R : P(<<Rec("f1", f, "owner")>> \o Probes \o <<Rec("f1", (f + 2) % 5, "owner")>> \o Probes) \* moved while probing
GInit == g = IF Printed THEN 0 ELSE 1
GNext == UNCHANGED g
GSpec == GInit /\ [][GNext]_g
=============================================================================
