---------------------------- MODULE MC_MinerFees ----------------------------
EXTENDS MinerFees
A_NewBlock == \E g \in Miner, txs \in Blocks : NewBlock(g, txs)
A_PayFees == \E c \in Miner, r \in 0..MaxBlocks : PayFees(c, r)
A_ValidateBlock == ValidateBlock
MCNext == A_NewBlock \/ A_PayFees \/ A_ValidateBlock
MCSpec == Init /\ [][MCNext]_vars
MCRatios == {<<0, 1>>, <<1, 4>>, <<1, 2>>, <<1, 1>>}
\* bound the payFees calls per block so that the state space is finite
MCConstraint == blk.npay <= 2
=============================================================================
