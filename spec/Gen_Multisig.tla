------------------------------ MODULE Gen_Multisig ------------------------------
(* Behaviour generator: TLC -simulate walks Multisig.tla (T = 2) and prints      *)
(* every completed walk as the list of transactions [op, s, tr, ok, late, t];    *)
(* (late: the vote was created a few seconds before its block) vdriver           *)
(* replays each list on the real chain on wallet W1 (3 real threshold shares,    *)
(* amounts x1000, one time unit = half a week).  A walk alternates a clock step  *)
(* (0..MaxStep) and a transaction; pruning is internal to the contract.          *)
EXTENDS MC_Multisig, Sequences, Json
CONSTANT GenLen
VARIABLES hist, gphase
gvars == <<vars, hist, gphase>>
GInit == Init /\ hist = <<>> /\ gphase = "op"
NoTr == [to |-> "none", amt |-> 0]
G_Register == Register /\ hist' = Append(hist, [op |-> "register", s |-> "none", tr |-> NoTr, ok |-> TRUE, late |-> FALSE, t |-> now])
G_Vote == \E s \in Signer \cup Stranger, tr \in Transfers, ok, late \in BOOLEAN :
            /\ (s \in Stranger => ok)
            /\ Vote(s, tr, ok, late) /\ hist' = Append(hist, [op |-> "vote", s |-> s, tr |-> tr, ok |-> ok, late |-> late, t |-> now])
G_Clock == /\ gphase = "clock" /\ gphase' = "op" /\ Len(hist) < GenLen
           /\ \E d \in 0..MaxStep : now + d <= MaxTime /\ now' = now + d
           /\ UNCHANGED <<registered, bal, prop, execs, counted, last, hist>>
G_Prune == gphase = "op" /\ Prune /\ UNCHANGED <<hist, gphase>>
G_Op == /\ gphase = "op" /\ Len(hist) < GenLen /\ gphase' = "clock"
        \* the wallet is registered by the second transaction at the latest (a walk picks uniformly among the many
        \* votes and the one registration, so unregistered walks - every vote fails - would dominate otherwise)
        /\ IF ~registered /\ Len(hist) < 2 THEN (G_Register \/ (Len(hist) = 0 /\ G_Vote)) ELSE G_Vote
G_Done == /\ gphase = "clock" /\ Len(hist) = GenLen /\ gphase' = "done" /\ UNCHANGED <<vars, hist>>
GNext == G_Clock \/ G_Prune \/ G_Op \/ G_Done
GSpec == GInit /\ [][GNext]_gvars
GPrint == (gphase = "done") => PrintT(<<"BEHAVIOUR", ToJson(hist)>>)
=============================================================================
