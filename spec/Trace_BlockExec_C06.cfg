SPECIFICATION TraceSpec
INVARIANTS C06_Deterministic
POSTCONDITION Accepted
CHECK_DEADLOCK FALSE
