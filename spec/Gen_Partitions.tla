---------------------------- MODULE Gen_Partitions ----------------------------
(* Behaviour generator: TLC -simulate walks the Partitions model and prints the *)
(* operation list of every completed walk as JSON; vdriver replays each list on *)
(* the real partitions.Partitions (first element = the partition size).         *)
EXTENDS MC_Partitions, Json
CONSTANT MaxOps
VARIABLE hist
H(op, id, v) == hist' = Append(hist, [op |-> op, id |-> id, v |-> v])
GInit == Init /\ hist = <<[op |-> "Init", id |-> psize, v |-> 0]>>
\* bias the walk towards operations that apply: failing ones only in one canonical shape (id 1)
In(id) == id \in DOMAIN ref \/ id = 1
\* TLC evaluates GPrint on every successor it generates, so the last step is made deterministic (a final Save)
GNext == \/ Len(hist) = MaxOps /\ Save /\ H("Save", 0, 0)
         \/ /\ Len(hist) < MaxOps
            /\ \/ \E id \in Ids : (id \notin DOMAIN ref \/ id = 1) /\ Add(id, 0) /\ H("Add", id, 0)
               \/ \E id \in Ids : In(id) /\ Remove(id) /\ H("Remove", id, 0)
               \/ \E id \in Ids : In(id) /\ Get(id) /\ H("Get", id, 0)
               \/ \E id \in Ids : In(id) /\ Update(id, 1 - (IF id \in DOMAIN ref THEN ref[id] ELSE 0)) /\ H("Update", id, 1 - (IF id \in DOMAIN ref THEN ref[id] ELSE 0))
               \/ ForEach /\ H("ForEach", 0, 0)
               \/ Save /\ H("Save", 0, 0)
               \/ Reload /\ H("Reload", 0, 0)
GSpec == GInit /\ [][GNext]_<<vars, hist>>
GPrint == Len(hist) = MaxOps + 1 => PrintT(<<"BEHAVIOUR", ToJson(hist)>>)
=============================================================================
