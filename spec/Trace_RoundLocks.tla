-------------------------- MODULE Trace_RoundLocks --------------------------
(* Every `Pair` event is one scenario of RoundLocks (a pair of exported        *)
(* operations of round.Round / block.Block on one shared real object, or the   *)
(* worker pool of the real ValidateTransactions) executed concurrently `iters` *)
(* times in a binary built with the Go race detector.                          *)
(*   race     the detector reported a data race while the scenario ran         *)
(*   site     innermost repository frames of the two conflicting accesses      *)
(*   defect   the unsynchronised accessor involved (grouping of `site`)        *)
(*   pred_race the model's prediction (information only, never a verdict)      *)
(*   detector the binary really carried the race detector                      *)
EXTENDS TraceLib
VARIABLES l, ev
vars == <<l, ev>>
Null == [ev |-> "none"]
TraceInit == l = 1 /\ ev = Null
TraceStep == l <= Len(Trace) /\ l' = l + 1 /\ ev' = Trace[l]
TraceSpec == TraceInit /\ [][TraceStep]_vars

IsPair == ev.ev = "Pair"
\* harness limits: not verdicts
HarnessDetectorOn == IsPair => ev.detector
HarnessNoCrash    == IsPair => ~ev.crash
HarnessNoHang     == IsPair => ~ev.hang
(* C44 (RoundLocks!NoRace as observed by the race detector on the real objects) *)
C44_NoRace == (IsPair /\ ~IsKnown(ev)) => ~ev.race
=============================================================================
