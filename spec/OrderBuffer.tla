------------------------------ MODULE OrderBuffer ------------------------------
(***************************************************************************)
(* The ordered buffer of incoming blocks (core/util/orderbuffer), used by  *)
(* Chain.PushToBlockBuffer / the block worker in chaincore/chain/entity.go *)
(* (Add(b.Round, b), First, Pop).                                          *)
(*                                                                         *)
(* Two layers:                                                             *)
(*  - the operations AS CODED (binary search `search`, the repeat test on  *)
(*    the left neighbour of the insertion point, insertion, truncation to  *)
(*    `max`), explored exhaustively by TLC from MC_OrderBuffer;            *)
(*  - the step relation StepOK(pre, op, post) = what property C46 demands  *)
(*    of one call and leaves free otherwise (order among blocks of equal   *)
(*    round; whether a repeat that is NOT at its position is dropped).     *)
(*    TLC checks that the coded operations refine StepOK; recorded         *)
(*    executions of the real code are checked against StepOK by            *)
(*    Trace_OrderBuffer (sequentially, and as a linearizability check for  *)
(*    concurrent histories).                                               *)
(*                                                                         *)
(* A block carries its round (Add is only called as Add(b.Round, b)), so   *)
(* an item is a record [r |-> round, d |-> identity within the round];     *)
(* `Data ==` of the code is equality of the whole record.                  *)
(***************************************************************************)
EXTENDS Integers, Sequences, FiniteSets, TLC

Range(s) == {s[i] : i \in DOMAIN s}
BagOf(s) == [x \in Range(s) |-> Cardinality({i \in DOMAIN s : s[i] = x})]
SameBag(s, t) == BagOf(s) = BagOf(t)
RemoveAt(s, i) == SubSeq(s, 1, i - 1) \o SubSeq(s, i + 1, Len(s))
InsertAt(s, i, x) == SubSeq(s, 1, i) \o <<x>> \o SubSeq(s, i + 1, Len(s))   \* x becomes element i+1

SetMax(S) == CHOOSE x \in S : \A y \in S : y <= x
SetMin(S) == CHOOSE x \in S : \A y \in S : x <= y
RoundsOf(s) == {s[i].r : i \in DOMAIN s}
IsSorted(s) == \A i \in 1..(Len(s) - 1) : s[i].r <= s[i + 1].r

NoItem == [r |-> 0, d |-> 0]

-----------------------------------------------------------------------------
(* The operations as coded (orderbuffer.go).  Indices of the code are      *)
(* 0-based: code index i is s[i+1].                                        *)

RECURSIVE SearchLoop(_, _, _, _)
SearchLoop(s, r, left, right) ==                       \* orderbuffer.go search()
  IF left < right
    THEN LET m == (left + right) \div 2 IN
         IF s[m + 1].r <= r THEN SearchLoop(s, r, m + 1, right) ELSE SearchLoop(s, r, left, m)
    ELSE left
Search(s, r) == SearchLoop(s, r, 0, Len(s))

CodedAdd(s, x, max) ==                                  \* orderbuffer.go Add()
  LET idx == Search(s, x.r) IN
  IF Len(s) > 0 /\ idx > 0 /\ s[idx] = x                \* Buffer[index-1].Data == item.Data
    THEN s
    ELSE LET ins == InsertAt(s, idx, x) IN
         IF Len(ins) > max THEN SubSeq(ins, 1, max) ELSE ins

CodedFirst(s) == IF s = <<>> THEN [ok |-> FALSE, item |-> NoItem] ELSE [ok |-> TRUE, item |-> s[1]]
CodedPopRest(s) == IF s = <<>> THEN s ELSE Tail(s)

-----------------------------------------------------------------------------
(* What C46 demands of one call.  pre/post: sequences of items.            *)

(* "an exact repeat of the block it already holds at that position": the   *)
(* last entry whose round is not after x's round is x itself.              *)
MustIgnore(pre, x) ==
  LET S == {i \in DOMAIN pre : pre[i].r <= x.r} IN S # {} /\ pre[SetMax(S)] = x

AddOK(pre, x, post, max) ==
  LET ins == pre \o <<x>> IN
  IF MustIgnore(pre, x) THEN SameBag(post, pre)
  ELSE \/ (x \in Range(pre) /\ SameBag(post, pre))       \* dropping any exact repeat is left free
       \/ (Len(pre) < max /\ SameBag(post, ins))
       \/ (Len(pre) >= max /\ \E i \in DOMAIN ins :      \* full: only a highest-round entry may go
              ins[i].r = SetMax(RoundsOf(ins)) /\ SameBag(post, RemoveAt(ins, i)))

FirstOK(pre, ok, item, post) ==
  /\ SameBag(post, pre)
  /\ IF pre = <<>> THEN ~ok ELSE ok /\ item \in Range(pre) /\ item.r = SetMin(RoundsOf(pre))

PopOK(pre, ok, item, post) ==
  IF pre = <<>> THEN ~ok /\ post = <<>>
  ELSE /\ ok /\ item.r = SetMin(RoundsOf(pre))
       /\ \E i \in DOMAIN pre : pre[i] = item /\ SameBag(post, RemoveAt(pre, i))

-----------------------------------------------------------------------------
(* The sequential machine explored by TLC.                                  *)
CONSTANTS Rounds, Ids, Caps
Block == [r : Rounds, d : Ids]

VARIABLES buf, cap, last
vars == <<buf, cap, last>>

Init == buf = <<>> /\ cap \in Caps /\ last = [op |-> "none", x |-> NoItem, ok |-> FALSE, item |-> NoItem, pre |-> <<>>]

Add(x) == /\ buf' = CodedAdd(buf, x, cap)
          /\ last' = [op |-> "Add", x |-> x, ok |-> TRUE, item |-> NoItem, pre |-> buf]
          /\ UNCHANGED cap
First == /\ last' = [op |-> "First", x |-> NoItem, pre |-> buf] @@ CodedFirst(buf)
         /\ UNCHANGED <<buf, cap>>
Pop == /\ last' = [op |-> "Pop", x |-> NoItem, pre |-> buf] @@ CodedFirst(buf)
       /\ buf' = CodedPopRest(buf)
       /\ UNCHANGED cap

Next == (\E x \in Block : Add(x)) \/ First \/ Pop
Spec == Init /\ [][Next]_vars

TypeOK == buf \in Seq(Block) /\ cap \in Caps

-----------------------------------------------------------------------------
(* C46 on the model.                                                        *)
C46_Sorted == IsSorted(buf)
C46_Capacity == Len(buf) <= cap
C46_LowestFirst ==
  /\ last.op = "First" => FirstOK(last.pre, last.ok, last.item, buf)
  /\ last.op = "Pop" => PopOK(last.pre, last.ok, last.item, buf)
C46_AddDropsOnlyHighest == last.op = "Add" => AddOK(last.pre, last.x, buf, cap)
C46_RepeatIgnored == (last.op = "Add" /\ MustIgnore(last.pre, last.x)) => buf = last.pre

(* the coded binary search is the upper bound (number of entries with round <= r) *)
SearchIsUpperBound == \A r \in Rounds : Search(buf, r) = Cardinality({i \in DOMAIN buf : buf[i].r <= r})
(* as coded, blocks of one round leave in the order they came (not demanded by C46) *)
CodedFifoAmongEqual ==
  (last.op = "Add" /\ buf # last.pre /\ last.x \in Range(buf)) =>
     LET S == {i \in DOMAIN buf : buf[i].r = last.x.r} IN buf[SetMax(S)] = last.x
=============================================================================
