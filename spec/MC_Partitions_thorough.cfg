SPECIFICATION MCSpec
CONSTANTS
  Ids = {1, 2, 3, 4}
  PSizes = {1, 2, 3}
VIEW MCView
INVARIANTS TypeOK NoInternalError C25_NoDuplicates C25_IterationIsTheSet C25_AllButLastFull C25_SizeExact C25_Membership C25_RandomDistinctMembers C25_SetSemantics LocationsExact SavedIsCurrent
CHECK_DEADLOCK FALSE
