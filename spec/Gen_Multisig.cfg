SPECIFICATION GSpec
CONSTANTS
  Signer = {"s1", "s2", "s3"}
  Stranger = {"x"}
  T = 2
  Transfers <- MCTransfers
  Expiry = 2
  InitBal = 5
  MaxTime = 8
  MaxStep = 1
  GenLen = 12
INVARIANT GPrint
CHECK_DEADLOCK FALSE
