SPECIFICATION MCSpec
CONSTANTS
  Miner = {"m1", "m2"}
  Sharder = {"s1", "s2", "s3"}
  MaxFee = 5
  MaxTxns = 3
  MinFee = 1
  SkipExempt = FALSE
  Reward = 3
  Ratios <- MCRatios
  NSh = 3
  MaxBlocks = 2
CONSTRAINT MCConstraint
INVARIANTS C22_Exact C22_Split C22_OnlyGenerator C22_OncePerRound
CHECK_DEADLOCK FALSE
