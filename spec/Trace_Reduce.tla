----------------------------- MODULE Trace_Reduce -----------------------------
(***************************************************************************)
(* Trace spec for C39.  One `Reduce` event = one TLC-enumerated layout of  *)
(* Reduce.tla (stakes, previous set, limit, percentage) on which the REAL  *)
(* SimpleNodes.reduce was run for a family of seeds, under two id          *)
(* assignments (ord1 / ord2 = the names in ascending order of their real   *)
(* ids) and twice each (r1a,r1b / r2a,r2b: selected sets per seed, as      *)
(* bit masks over the names a,b,c,d,e).  s1a,s1b / s2a,s2b: the "one view  *)
(* change in one process" pass - per seed the neighbouring layout (the     *)
(* other selection of the view change) and then this layout twice are      *)
(* reduced back to back with the SAME seed; first / second result on this  *)
(* layout.  The invariants evaluate the operators of Reduce.tla on the     *)
(* recorded results.                                                       *)
(***************************************************************************)
EXTENDS TraceLib, Reduce

VARIABLES l, ev
vars == <<l, ev>>
Null == [ev |-> "none"]

AllNames == <<"a", "b", "c", "d", "e">>
Pow2(i) == CASE i = 0 -> 1 [] i = 1 -> 2 [] i = 2 -> 4 [] i = 3 -> 8 [] i = 4 -> 16
\* decoding table, evaluated once (constant-level definition)
Dec == [m \in 0..31 |-> {AllNames[i] : i \in {j \in 1..5 : (m \div Pow2(j - 1)) % 2 = 1}}]
FromMask(m) == Dec[m]

TraceInit == l = 1 /\ ev = Null
TraceNext == l <= Len(Trace) /\ l' = l + 1 /\ ev' = Trace[l]
TraceSpec == TraceInit /\ [][TraceNext]_vars

IsR == ev.ev = "Reduce"
Cands == {ev.stake[i].a : i \in 1..Len(ev.stake)}
Stake == [n \in Cands |-> PairOf(ev.stake, n, 0)]
Prev == {ev.prev[i] : i \in 1..Len(ev.prev)}
SeedIdx == 1..Len(ev.r1a)
Res(f) == [s \in SeedIdx |-> FromMask(f[s])]

\* the distinct results over all seeds, assignments and runs / of one run
Distinct(f) == {FromMask(m) : m \in {f[s] : s \in SeedIdx}}
AllDistinct == Distinct(ev.r1a) \cup Distinct(ev.r1b) \cup Distinct(ev.r2a) \cup Distinct(ev.r2b)
               \cup Distinct(ev.s1a) \cup Distinct(ev.s1b) \cup Distinct(ev.s2a) \cup Distinct(ev.s2b)

(* exactly min(limit, |candidates|) of the candidates, and that number is what the call returns *)
C39_Exact == IsR => /\ \A R \in AllDistinct : Exact(R, Cands, ev.limit)
                    /\ \A i \in 1..Len(ev.mx) : ev.mx[i] = MaxNodes(Cands, ev.limit)
(* the required number of highest-stake previous members is kept *)
C39_PrevQuota == IsR => \A R \in AllDistinct : QuotaKept(R, Cands, Stake, Prev, ev.limit, ev.pct)
(* the other places go by stake, descending *)
C39_StakeOrdered == IsR => \A R \in AllDistinct : StakeOrdered(R, Cands, Stake, Prev, ev.limit, ev.pct)
(* identical result for identical inputs (independent of map insertion / iteration order) *)
C39_Deterministic == IsR => ev.r1a = ev.r1b /\ ev.r2a = ev.r2b
(* ... and independent of the calls made before in the same process: the result is a function of *)
(* (candidates, previous set, limit, percentage, seed) = Reduce.tla's Reduce, which has no history *)
C39_HistoryFree == IsR => /\ ev.s1a = ev.r1a /\ ev.s1b = ev.r1a
                          /\ ev.s2a = ev.r2a /\ ev.s2b = ev.r2a
(* among the candidates tied at the cut the seed alone decides: none is in (or out) for every seed *)
C39_TieBySeedOnly == (IsR /\ ~IsKnown(ev)) =>
                    /\ TieBySeedOnly(Distinct(ev.r1a), Cands, Stake, Prev, ev.limit, ev.pct)
                    /\ TieBySeedOnly(Distinct(ev.r2a), Cands, Stake, Prev, ev.limit, ev.pct)
(* renaming the ids renames the choice: same positions of the tied set are taken, seed by seed *)
C39_RelabelInvariant == IsR => RelabelInvariant(Res(ev.r1a), ev.ord1, Res(ev.r2a), ev.ord2, SeedIdx,
                                                Cands, Stake, Prev, ev.limit, ev.pct)
(* the driver really used two different canonical orders and enough seeds *)
HarnessTwoOrders == IsR => (Len(ev.stake) >= 2 => ev.ord1 # ev.ord2) /\ Len(ev.r1a) >= 8
                           /\ Len(ev.r1b) = Len(ev.r1a) /\ Len(ev.r2a) = Len(ev.r1a) /\ Len(ev.r2b) = Len(ev.r1a)
                           /\ Len(ev.s1a) = Len(ev.r1a) /\ Len(ev.s1b) = Len(ev.r1a)
                           /\ Len(ev.s2a) = Len(ev.r1a) /\ Len(ev.s2b) = Len(ev.r1a)
=============================================================================
