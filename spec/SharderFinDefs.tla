--------------------------- MODULE SharderFinDefs ---------------------------
(***************************************************************************)
(* Pure operators shared by the sharder-finalization model (SharderFin)    *)
(* and its trace specification (Trace_SharderFin): the effect of every     *)
(* store operation of the sharder on its persistent stores, and the big    *)
(* step of one healthCheck(round) call.  They are parametrised by          *)
(*   info   block name -> [r, p, ntx, hasmb, resp, others]                 *)
(*          r round, p parent, ntx number of transactions, hasmb carries a *)
(*          magic block, resp = this sharder is a replicator of the block  *)
(*          (Chain.IsBlockSharder), others = number of OTHER replicators   *)
(*          (the nodes requestForBlock asks)                               *)
(*   canon  round -> canonical (finalized by the miners) block of it       *)
(* so that the model instantiates them with constants and the trace spec   *)
(* with what the driver logged about the blocks the real chain produced.   *)
(*                                                                         *)
(* Persistent state of a sharder (sharder/protocol_block.go, block.go,     *)
(* transaction.go, round.go, blockstore):                                  *)
(*   rdb  round -> block | None | Empty   round store (RocksDB)            *)
(*        Empty = a round object without block hash                        *)
(*   sums set of blocks                   block summary store              *)
(*   txb  set of blocks whose transaction summaries are stored             *)
(*   cnt  round -> per-round transaction counter (merge operator: +)       *)
(*   blks set of blocks in the file block store                            *)
(*   mbm  set of blocks recorded in the magic block map                    *)
(***************************************************************************)
EXTENDS Integers, FiniteSets, Sequences

None  == "none"
Empty == "empty"
Max(a, b) == IF a > b THEN a ELSE b
Min(a, b) == IF a < b THEN a ELSE b

IsBlockName(x) == x \notin {None, Empty}

(* ---- the four independent stores of UpdateFinalizedBlock and StoreRound ---- *)
(* StoreTransactions: MultiWrite of the summaries + Merge(+n) of the round's counter, one commit.   *)
(* As coded the counter is ADDED to on every call (CounterMergeOperator); Exact = the intended      *)
(* "the counter is the number of transactions of the round".                                        *)
StoreTxns(st, b, info, merges) ==
    [st EXCEPT !.txb = @ \cup {b},
               !.cnt[info[b].r] = IF merges THEN @ + info[b].ntx ELSE info[b].ntx]
StoreSummary(st, b)      == [st EXCEPT !.sums = @ \cup {b}]
StoreMBMap(st, b, info)  == IF info[b].hasmb THEN [st EXCEPT !.mbm = @ \cup {b}] ELSE st
StoreBlockFile(st, b)    == [st EXCEPT !.blks = @ \cup {b}]
StoreRound(st, b, info)  == [st EXCEPT !.rdb[info[b].r] = b]

(* one step of UpdateFinalizedBlock, by name (the driver's crash points use the same names) *)
UFBStep(st, b, info, merges, s) ==
    CASE s = "txns"    -> StoreTxns(st, b, info, merges)
      [] s = "summary" -> StoreSummary(st, b)
      [] s = "mbmap"   -> StoreMBMap(st, b, info)
      [] s = "block"   -> IF info[b].resp THEN StoreBlockFile(st, b) ELSE st
      [] s = "round"   -> StoreRound(st, b, info)

UFBSteps == <<"txns", "summary", "mbmap", "block">>     \* run in parallel; "round" only after all of them

RECURSIVE ApplySteps(_, _, _, _, _, _)
ApplySteps(st, b, info, merges, steps, i) ==
    IF i > Len(steps) THEN st
    ELSE ApplySteps(UFBStep(st, b, info, merges, steps[i]), b, info, merges, steps, i + 1)

(* the whole UpdateFinalizedBlock *)
UFBAll(st, b, info, merges) ==
    StoreRound(ApplySteps(st, b, info, merges, UFBSteps, 1), b, info)

(* storeBlock (repair / SaveMagicBlockHandler / SetupGenesisBlock): block file + magic block map *)
RepairStoreBlock(st, b, info) == StoreMBMap(StoreBlockFile(st, b), b, info)

(* ---- what the read side and the health check see ---- *)
(* hasRoundSummary: the round can be read, its number is > 0 and it names a block *)
HasRound(st, r) == r > 0 /\ r \in DOMAIN st.rdb /\ IsBlockName(st.rdb[r])

(* a peer that finalized up to round plfb answers a round request like RoundSummariesHandler does: the     *)
(* stored round, or a round object without hash when it has none (GetRoundFromStore never returns nil)     *)
PeerRound(n, plfb, canon) == IF n <= plfb /\ n \in DOMAIN canon THEN canon[n] ELSE Empty

(* GetRangeBounds(edge, -batch) *)
RangeLo(r, batch) == Max(1, r - batch)
RangeHi(r)        == Max(1, r)

RECURSIVE FillRounds(_, _, _, _, _)
FillRounds(st, n, hi, plfb, canon) ==       \* storeRoundSummaries: only rounds that are not present
    IF n > hi THEN st
    ELSE FillRounds(IF ~HasRound(st, n) /\ n \in DOMAIN st.rdb
                       THEN [st EXCEPT !.rdb[n] = PeerRound(n, plfb, canon)] ELSE st,
                    n + 1, hi, plfb, canon)

RECURSIVE FillSums(_, _, _, _, _)
FillSums(st, n, hi, plfb, canon) ==         \* storeBlockSummaries: only summaries that are not present
    IF n > hi THEN st
    ELSE FillSums(IF n <= plfb /\ n \in DOMAIN canon THEN StoreSummary(st, canon[n]) ELSE st,
                  n + 1, hi, plfb, canon)

(* ---- healthCheck(r): the three stages; each returns [st, ok, ...counters] ---- *)
(* stage 1: the round summary (health_check.go:420-441, syncRoundSummary) *)
HCRound(st, r, up, plfb, canon, batch) ==
    IF HasRound(st, r) THEN [st |-> st, ok |-> TRUE, missing |-> 0, repaired |-> 0]
    ELSE IF ~up THEN [st |-> st, ok |-> FALSE, missing |-> 1, repaired |-> 0]
    ELSE LET st1 == FillRounds(st, RangeLo(r, batch), RangeHi(r), plfb, canon)
         IN  [st |-> st1, ok |-> HasRound(st1, r), missing |-> 1, repaired |-> IF HasRound(st1, r) THEN 1 ELSE 0]

(* stage 2: the block summary of the block the round names (syncBlockSummary) *)
HCSummary(st, r, up, plfb, canon, batch) ==
    LET b == st.rdb[r] IN
    IF b \in st.sums THEN [st |-> st, ok |-> TRUE, missing |-> 0, repaired |-> 0]
    ELSE IF ~up THEN [st |-> st, ok |-> FALSE, missing |-> 1, repaired |-> 0]
    ELSE LET st1 == FillSums(st, RangeLo(r, batch), RangeHi(r), plfb, canon)
             \* requestForBlockSummary(hash): any peer that has the block's summary
             have == \E n \in DOMAIN canon : n <= plfb /\ canon[n] = b
             st2 == IF b \notin st1.sums /\ have THEN StoreSummary(st1, b) ELSE st1
         IN  [st |-> st2, ok |-> b \in st2.sums, missing |-> 1, repaired |-> IF b \in st2.sums THEN 1 ELSE 0]

(* stage 3: the block file and the transaction summaries (health_check.go:466-541) *)
HCBlock(st, r, up, plfb, canon, info, merges) ==
    LET b        == st.rdb[r]
        canShard == info[b].resp
        needTxn  == info[b].ntx > 0 /\ st.cnt[r] # info[b].ntx
        found    == b \in st.blks
        mustGet  == ~found /\ (needTxn \/ canShard)
        \* requestBlock asks the OTHER replicators of the block, one after the other
        got      == up /\ info[b].others > 0 /\ \E n \in DOMAIN canon : n <= plfb /\ canon[n] = b
        store    == ~found /\ (canShard \/ (mustGet /\ got /\ info[b].hasmb))
        st1      == IF store THEN RepairStoreBlock(st, b, info) ELSE st
        st2      == IF needTxn THEN StoreTxns(st1, b, info, merges) ELSE st1
    IN  IF mustGet /\ ~got
          THEN [st |-> st, ok |-> FALSE, bmissing |-> 1, brepaired |-> 0, tmissing |-> IF needTxn THEN 1 ELSE 0, trepaired |-> 0]
          ELSE [st |-> st2, ok |-> TRUE, bmissing |-> IF mustGet THEN 1 ELSE 0, brepaired |-> IF store THEN 1 ELSE 0,
                tmissing |-> IF needTxn THEN 1 ELSE 0, trepaired |-> IF needTxn THEN 1 ELSE 0]

(* the whole call with the peers' availability unchanged during it *)
HCAll(st, r, up, plfb, canon, info, batch, merges) ==
    LET a == HCRound(st, r, up, plfb, canon, batch) IN
    IF ~a.ok THEN [st |-> a.st, ok |-> FALSE, rm |-> a.missing, rr |-> a.repaired, sm |-> 0, sr |-> 0, bm |-> 0, br |-> 0, tm |-> 0, tr |-> 0]
    ELSE LET s == HCSummary(a.st, r, up, plfb, canon, batch) IN
    IF ~s.ok THEN [st |-> s.st, ok |-> FALSE, rm |-> a.missing, rr |-> a.repaired, sm |-> s.missing, sr |-> s.repaired, bm |-> 0, br |-> 0, tm |-> 0, tr |-> 0]
    ELSE LET k == HCBlock(s.st, r, up, plfb, canon, info, merges) IN
         [st |-> k.st, ok |-> k.ok, rm |-> a.missing, rr |-> a.repaired, sm |-> s.missing, sr |-> s.repaired,
          bm |-> k.bmissing, br |-> k.brepaired, tm |-> k.tmissing, tr |-> k.trepaired]

(* ---- completeness of a finalized round in the stores ---- *)
(* everything UpdateFinalizedBlock leaves behind for block b of round r *)
CompleteFor(st, b, info, exact, withmb) ==
    /\ st.rdb[info[b].r] = b
    /\ b \in st.sums
    /\ info[b].ntx > 0 => (b \in st.txb /\ IF exact THEN st.cnt[info[b].r] = info[b].ntx ELSE st.cnt[info[b].r] >= info[b].ntx)
    /\ info[b].resp => b \in st.blks
    /\ (withmb /\ info[b].hasmb) => b \in st.mbm
=============================================================================
