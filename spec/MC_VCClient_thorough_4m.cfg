SPECIFICATION RTCSpec
CONSTANTS
  Miner = {"m1","m2","m3","m4"}
  Shs = {"s1"}
  K0 = 3
  T0 = 3
  PRs <- PR_ones
  MinN = 3
  CurK = 4
  MaxRound = 7
  MaxCycle = 1
  Flaky = {"m4"}
  LagOn = FALSE
  RestMayFail = FALSE
  StoreByNumber = TRUE
  MaxFaults = 1
INVARIANTS TypeOK KeyShareConsistent SameSwitch MagicBlockComplete SosOfStoredVector NoCrash AllWaitedAllInstall AckMeansShare
CHECK_DEADLOCK FALSE
