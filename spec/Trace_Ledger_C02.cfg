SPECIFICATION TraceSpec
INVARIANTS NoPanic HarnessRange C02_FailOnlyFee
POSTCONDITION Accepted
CHECK_DEADLOCK FALSE
