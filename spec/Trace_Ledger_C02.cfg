SPECIFICATION TraceSpec
INVARIANTS NoPanic HarnessRange C02_FailOnlyFee C02_TwinEqual
POSTCONDITION Accepted
CHECK_DEADLOCK FALSE
