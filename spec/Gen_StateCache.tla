--------------------------- MODULE Gen_StateCache ---------------------------
(* Behaviour generator for C07: TLC -simulate walks StateCache.tla and prints the *)
(* operation list of every completed walk as JSON; vdriver replays each list on   *)
(* the real StateContext / statecache / MPT for every cacheable entity type.      *)
(* A walk alternates "pick an enabled action class" / "take an action of that     *)
(* class", so that the classes (not their numbers of instances) are drawn          *)
(* uniformly, with the weights of Classes.                                        *)
EXTENDS StateCache, Sequences, Json
CONSTANT MaxOps
VARIABLES hist, cls
gvars == <<vars, hist, cls>>

H(op, k, v, h, b, p) == hist' = Append(hist, [op |-> op, k |-> k, v |-> v, h |-> h, b |-> b, p |-> p])

G_NewBlock    == \E b \in Blocks, p \in BlocksG : NewBlock(b, p) /\ H("NewBlock", "", 0, "", b, p)
G_CommitBlock == \E b \in Blocks : CommitBlock(b) /\ H("CommitBlock", "", 0, "", b, "")
G_Abandon     == \E b \in Blocks : AbandonBlock(b) /\ H("AbandonBlock", "", 0, "", b, "")
G_BeginTxn    == \E b \in Blocks : BeginTxn(b) /\ H("BeginTxn", "", 0, "", b, "")
G_Get         == \E k \in Keys, h \in Handles : Get(k, h) /\ H("Get", k, 0, h, "", "")
G_Insert      == \E k \in Keys, v \in Vals, h \in Handles : Insert(k, v, h) /\ H("Insert", k, v, h, "", "")
G_Save        == \E h \in Handles : Save(h) /\ H("Save", "", 0, h, "", "")
G_Delete      == \E k \in Keys : Delete(k) /\ H("Delete", k, 0, "", "", "")
G_Mutate      == \E h \in Handles : (\E v \in Vals : Mutate(h, v)) /\ H("Mutate", "", 0, h, "", "")
G_CommitTxn   == CommitTxn /\ H("CommitTxn", "", 0, "", "", "")
G_DiscardTxn  == DiscardTxn /\ H("DiscardTxn", "", 0, "", "", "")
G_RejectTxn   == DiscardTxn /\ H("RejectTxn", "", 0, "", "", "")   \* same abstract step, the other failure path of updateState
G_Query       == \E b \in Blocks, k \in Keys, h \in Handles : Query(b, k, h) /\ H("Query", k, 0, h, b, "")

Classes == <<"NewBlock", "CommitBlock", "CommitBlock", "Abandon", "BeginTxn", "BeginTxn", "BeginTxn",
             "Get", "Get", "Get", "Insert", "Insert", "Insert", "Save", "Save", "Delete", "Delete",
             "Mutate", "Mutate", "Mutate", "CommitTxn", "CommitTxn", "DiscardTxn", "RejectTxn", "Query">>
Act(c) == CASE c = "NewBlock" -> G_NewBlock [] c = "CommitBlock" -> G_CommitBlock [] c = "Abandon" -> G_Abandon
            [] c = "BeginTxn" -> G_BeginTxn [] c = "Get" -> G_Get [] c = "Insert" -> G_Insert [] c = "Save" -> G_Save
            [] c = "Delete" -> G_Delete [] c = "Mutate" -> G_Mutate [] c = "CommitTxn" -> G_CommitTxn
            [] c = "DiscardTxn" -> G_DiscardTxn [] c = "RejectTxn" -> G_RejectTxn [] c = "Query" -> G_Query

\* Mutate of the same object twice in a row adds nothing
Useful(c) == ~(c = "Mutate" /\ Len(hist) > 0 /\ hist[Len(hist)].op = "Mutate")

GInit == Init /\ hist = <<>> /\ cls = ""
GNext == \/ /\ cls = "" /\ Len(hist) < MaxOps
            /\ \E i \in 1..Len(Classes) : Useful(Classes[i]) /\ (ENABLED Act(Classes[i])) /\ cls' = Classes[i]
            /\ UNCHANGED <<vars, hist>>
         \/ /\ cls \notin {"", "done"} /\ Act(cls) /\ cls' = ""
         \* a single closing step, so that exactly one behaviour is printed per walk
         \/ /\ cls = "" /\ Len(hist) = MaxOps /\ cls' = "done" /\ UNCHANGED <<vars, hist>>
GSpec == GInit /\ [][GNext]_gvars
GPrint == cls = "done" => PrintT(<<"BEHAVIOUR", ToJson(hist)>>)
=============================================================================
