SPECIFICATION Spec
CONSTANTS
  P = 11
  MaxN = 2
  MaxT = 2
  IdVals = {1, 3, 7, 10}
  IdOrder = "all"
  IdSeqs <- MC_IdSeqs
  CoefVals = {0, 2, 6, 9}
  Msgs = {5}
  Kinds = {"dkg", "client"}
  TamperBy = {4}
INVARIANTS TypeOK HonestSharesValidate AlteredSharesFail PartyKeysVerify EnoughSharesRecover FewerSharesUndetermined SplitNeedsAll SosExact
CHECK_DEADLOCK FALSE
