------------------------------- MODULE Binding -------------------------------
(***************************************************************************)
(* Hash / signature binding of a signed object (a transaction: C30, a      *)
(* block: C29).  The object has named fields; its hash covers HashInput;   *)
(* its signature is made by a key over the hash; the receiver validates    *)
(*   hash = H(contents)  /\  signature verifies under the key bound to the *)
(*   claimed identity.                                                      *)
(* An attacker who owns only his own key applies any sequence of tamper    *)
(* steps.  Property: an object that differs from the genuine one in a      *)
(* field of MustBind is accepted only as the attacker's own object.        *)
(*                                                                         *)
(* Abstraction: the hash of the contents is the set of altered fields that *)
(* are part of the hash input (an injective image of the contents), and a  *)
(* signature is the pair (signing key, signed hash).                        *)
(***************************************************************************)
EXTENDS Integers, Sequences, FiniteSets, TLC

CONSTANTS Fields,        \* tamperable content fields (not identity, hash, signature)
          MustBind,      \* fields the property requires to be bound (subset of Fields \cup {"sender"})
          HashInput,     \* fields covered by the hash (model parameter: intended or as coded)
          KeyInObject,   \* TRUE: the public key travels in the object and must hash to the identity (txn)
                         \* FALSE: the key is looked up in a registry by identity (block generator)
          DupShapes,     \* blocks only: set of <<n, i>> = "the block carries n transactions and the i-th one is
                         \* repeated (appended once more)"; {} for objects that carry no list (txn)
          MaxSteps

VARIABLES alt,        \* content fields whose value differs from the genuine object
          cid,        \* claimed identity: "victim" | "attacker"
          pub,        \* key the receiver will verify under
          hashed,     \* the hash field = contents hashed at the last (re)hash
          sigKey, sigHash, sigBroken,
          dup,        \* a transaction is repeated inside the object (blocks only)
          ntx,        \* number of transactions the block carried when one was repeated (0 = nothing repeated yet:
                      \* the size of the block is the environment's free choice and matters only for a repetition)
          steps

vars == <<alt, cid, pub, hashed, sigKey, sigHash, sigBroken, dup, ntx, steps>>

(* The transaction list is hashed as a Merkle tree that pads a level of odd length by pairing its last   *)
(* node with itself (core/util MerkleTree.ComputeTree; a single leaf t gives the root MHash(t,t)).  So   *)
(* appending once more the LAST transaction of a block with an odd number of transactions gives the very *)
(* same transaction root and receipts root: [t] and [t,t], [a,b,c] and [a,b,c,c].  Such a repetition is  *)
(* invisible to the hash (and therefore to the generator signature); every other repetition changes the  *)
(* roots like any other alteration of the transaction list.                                               *)
MerkleNeutral(n, i) == i = n /\ n % 2 = 1

Altered == alt \cup (IF cid = "victim" THEN {} ELSE {"sender"})
Contents(hi) == Altered \cap hi

Init == /\ alt = {} /\ cid = "victim" /\ pub = "victim" /\ hashed = {}
        /\ sigKey = "victim" /\ sigHash = {} /\ sigBroken = FALSE /\ dup = FALSE /\ ntx = 0 /\ steps = 0

Step == steps < MaxSteps /\ steps' = steps + 1

Tamper(f) == Step /\ f \in Fields /\ f \notin alt /\ alt' = alt \cup {f}
             /\ UNCHANGED <<cid, pub, hashed, sigKey, sigHash, sigBroken, dup, ntx>>
SetSender == Step /\ cid = "victim" /\ cid' = "attacker"
             /\ pub' = (IF KeyInObject THEN pub ELSE "attacker")     \* registry lookup follows the identity
             /\ UNCHANGED <<alt, hashed, sigKey, sigHash, sigBroken, dup, ntx>>
SetPub == Step /\ KeyInObject /\ pub = "victim" /\ pub' = "attacker"
          /\ UNCHANGED <<alt, cid, hashed, sigKey, sigHash, sigBroken, dup, ntx>>
Rehash == Step /\ hashed' = Contents(HashInput)
          /\ UNCHANGED <<alt, cid, pub, sigKey, sigHash, sigBroken, dup, ntx>>
Resign == Step /\ sigKey' = "attacker" /\ sigHash' = hashed /\ sigBroken' = FALSE   \* only with his own key
          /\ UNCHANGED <<alt, cid, pub, hashed, dup, ntx>>
BreakSig == Step /\ ~sigBroken /\ sigBroken' = TRUE
          /\ UNCHANGED <<alt, cid, pub, hashed, sigKey, sigHash, dup, ntx>>
(* a block that carries n transactions is re-sent with its i-th transaction appended once more *)
Duplicate(n, i) == Step /\ ~KeyInObject /\ ~dup /\ <<n, i>> \in DupShapes /\ dup' = TRUE /\ ntx' = n
          /\ alt' = (IF MerkleNeutral(n, i) THEN alt ELSE alt \cup {"txns"})
          /\ UNCHANGED <<cid, pub, hashed, sigKey, sigHash, sigBroken>>

Next == (\E f \in Fields : Tamper(f)) \/ SetSender \/ SetPub \/ Rehash \/ Resign \/ BreakSig
        \/ (\E sh \in DupShapes : Duplicate(sh[1], sh[2]))
Spec == Init /\ [][Next]_vars

(* the receiver's verdict, for a given hash input *)
Valid(hi) == /\ hashed = Contents(hi)
             /\ sigHash = hashed /\ ~sigBroken /\ sigKey = pub
             /\ (KeyInObject => pub = cid)
             /\ ~dup

Genuine == Altered = {} /\ ~dup /\ hashed = {} /\ sigKey = "victim" /\ sigHash = {} /\ ~sigBroken /\ pub = "victim"

(* The property, on the model *)
Binds == (Valid(HashInput) /\ Altered \cap MustBind # {}) => (cid = "attacker" /\ pub = "attacker")
GenuineAccepted == Genuine => Valid(HashInput)
(* equivalent formulation used on recorded executions: whatever the code accepts *)
(* must be valid when the hash covers every MustBind field                        *)
AcceptedOnlyIfIntended == Valid(HashInput) => Valid(MustBind \cup HashInput)
(* "... or that repeats a transaction, is rejected" *)
RepeatRejected == dup => ~Valid(HashInput)
(* what the receiver would decide WITHOUT the repetition check: hash and signature alone *)
ValidHashSig(hi) == /\ hashed = Contents(hi) /\ sigHash = hashed /\ ~sigBroken /\ sigKey = pub
                    /\ (KeyInObject => pub = cid)
(* hash and signature cannot stand in for the repetition check: a Merkle-neutral repetition of the      *)
(* otherwise genuine block (e.g. the one-step behaviour Duplicate(1,1): [t] re-sent as [t,t]) passes      *)
(* both, so the repetition check is the only thing that rejects it.                                       *)
NeutralRepeatPassesHashSig ==
  (dup /\ Altered = {} /\ hashed = {} /\ sigKey = "victim" /\ sigHash = {} /\ ~sigBroken /\ pub = "victim")
     => (ValidHashSig(HashInput) /\ ~Valid(HashInput))
(* ... and a repetition that is not Merkle-neutral is an alteration of the transaction list *)
RepeatAltersUnlessNeutral == (dup /\ ntx > 0) => (("txns" \in alt) \/ ntx % 2 = 1)
=============================================================================
