------------------------------- MODULE Binding -------------------------------
(***************************************************************************)
(* Hash / signature binding of a signed object (a transaction: C30, a      *)
(* block: C29).  The object has named fields; its hash covers HashInput;   *)
(* its signature is made by a key over the hash; the receiver validates    *)
(*   hash = H(contents)  /\  signature verifies under the key bound to the *)
(*   claimed identity.                                                      *)
(* An attacker who owns only his own key applies any sequence of tamper    *)
(* steps.  Property: an object that differs from the genuine one in a      *)
(* field of MustBind is accepted only as the attacker's own object.        *)
(*                                                                         *)
(* Abstraction: the hash of the contents is the set of altered fields that *)
(* are part of the hash input (an injective image of the contents), and a  *)
(* signature is the pair (signing key, signed hash).                        *)
(***************************************************************************)
EXTENDS Integers, Sequences, FiniteSets, TLC

CONSTANTS Fields,        \* tamperable content fields (not identity, hash, signature)
          MustBind,      \* fields the property requires to be bound (subset of Fields \cup {"sender"})
          HashInput,     \* fields covered by the hash (model parameter: intended or as coded)
          KeyInObject,   \* TRUE: the public key travels in the object and must hash to the identity (txn)
                         \* FALSE: the key is looked up in a registry by identity (block generator)
          MaxSteps

VARIABLES alt,        \* content fields whose value differs from the genuine object
          cid,        \* claimed identity: "victim" | "attacker"
          pub,        \* key the receiver will verify under
          hashed,     \* the hash field = contents hashed at the last (re)hash
          sigKey, sigHash, sigBroken,
          dup,        \* a transaction is repeated inside the object (blocks only)
          steps

vars == <<alt, cid, pub, hashed, sigKey, sigHash, sigBroken, dup, steps>>

Altered == alt \cup (IF cid = "victim" THEN {} ELSE {"sender"})
Contents(hi) == Altered \cap hi

Init == /\ alt = {} /\ cid = "victim" /\ pub = "victim" /\ hashed = {}
        /\ sigKey = "victim" /\ sigHash = {} /\ sigBroken = FALSE /\ dup = FALSE /\ steps = 0

Step == steps < MaxSteps /\ steps' = steps + 1

Tamper(f) == Step /\ f \in Fields /\ f \notin alt /\ alt' = alt \cup {f}
             /\ UNCHANGED <<cid, pub, hashed, sigKey, sigHash, sigBroken, dup>>
SetSender == Step /\ cid = "victim" /\ cid' = "attacker"
             /\ pub' = (IF KeyInObject THEN pub ELSE "attacker")     \* registry lookup follows the identity
             /\ UNCHANGED <<alt, hashed, sigKey, sigHash, sigBroken, dup>>
SetPub == Step /\ KeyInObject /\ pub = "victim" /\ pub' = "attacker"
          /\ UNCHANGED <<alt, cid, hashed, sigKey, sigHash, sigBroken, dup>>
Rehash == Step /\ hashed' = Contents(HashInput)
          /\ UNCHANGED <<alt, cid, pub, sigKey, sigHash, sigBroken, dup>>
Resign == Step /\ sigKey' = "attacker" /\ sigHash' = hashed /\ sigBroken' = FALSE   \* only with his own key
          /\ UNCHANGED <<alt, cid, pub, hashed, dup>>
BreakSig == Step /\ ~sigBroken /\ sigBroken' = TRUE
          /\ UNCHANGED <<alt, cid, pub, hashed, sigKey, sigHash, dup>>
Duplicate == Step /\ ~KeyInObject /\ ~dup /\ dup' = TRUE
          /\ UNCHANGED <<alt, cid, pub, hashed, sigKey, sigHash, sigBroken>>

Next == (\E f \in Fields : Tamper(f)) \/ SetSender \/ SetPub \/ Rehash \/ Resign \/ BreakSig \/ Duplicate
Spec == Init /\ [][Next]_vars

(* the receiver's verdict, for a given hash input *)
Valid(hi) == /\ hashed = Contents(hi)
             /\ sigHash = hashed /\ ~sigBroken /\ sigKey = pub
             /\ (KeyInObject => pub = cid)
             /\ ~dup

Genuine == Altered = {} /\ ~dup /\ hashed = {} /\ sigKey = "victim" /\ sigHash = {} /\ ~sigBroken /\ pub = "victim"

(* The property, on the model *)
Binds == (Valid(HashInput) /\ Altered \cap MustBind # {}) => (cid = "attacker" /\ pub = "attacker")
GenuineAccepted == Genuine => Valid(HashInput)
(* equivalent formulation used on recorded executions: whatever the code accepts *)
(* must be valid when the hash covers every MustBind field                        *)
AcceptedOnlyIfIntended == Valid(HashInput) => Valid(MustBind \cup HashInput)
=============================================================================
