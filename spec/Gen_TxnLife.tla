---------------------------- MODULE Gen_TxnLife ----------------------------
(* Behaviour generator of the transaction-life family: TLC -simulate walks the big-step form of  *)
(* TxnLife (each driver-observable call is one step: GenStart..GenSeal.DeleteInvalid = Gen,       *)
(* Finalize.PoolFinalized = Fin, Receive = Forge) and prints the operation list of every walk as *)
(* JSON; vdriver executes it on the real miner.  The fields w only give rare operations more     *)
(* weight in the uniform choice of the simulator.                                                *)
EXTENDS TxnLifeDefs, TLC, Json

CONSTANTS Sender, MaxNonce, Tol, FutureNonce, MaxTx, Kinds, MaxClock, MaxTxns, MaxBlocks, MaxOps, WGen, WFin, WTick, WOk
CtOffsets == {0, 0 - 1}   \* an honest clock, and one that is a unit behind

C == [tol |-> Tol, fn |-> FutureNonce, maxtx |-> MaxTx, margin |-> 1]
VARIABLES clock, tx, pool, ents, blocks, lfb, hist, cleaned, done
vars == <<clock, tx, pool, ents, blocks, lfb, hist, cleaned, done>>
Ids == 1..Len(tx)
Base == [p |-> 0, bt |-> 0, x |-> <<>>, st |-> [s \in Sender |-> 0], own |-> FALSE]
Name(i) == "b" \o ToString(i - 1)
TxJ(id) == [id |-> id, s |-> tx[id].s, n |-> tx[id].n, ct |-> tx[id].ct, f |-> tx[id].f, k |-> tx[id].k]
More == Len(hist) < MaxOps
RECURSIVE Path(_)
Path(b) == IF b = 0 THEN {} ELSE {b} \cup Path(blocks[b].p)
Live(b) == lfb \in Path(b)
LiveSet == {b \in 1..Len(blocks) : Live(b)}

GInit == /\ clock = 0 /\ tx = <<>> /\ pool = {} /\ ents = {} /\ blocks = <<Base>> /\ lfb = 1 /\ hist = <<>> /\ cleaned = FALSE /\ done = FALSE

G_Tick == /\ More /\ clock < MaxClock /\ clock' = clock + 1
          /\ \E w \in 1..WTick : hist' = Append(hist, [op |-> "Tick", w |-> w])
          /\ UNCHANGED <<tx, pool, ents, blocks, lfb, cleaned>>

FreeFees == (1..MaxTxns) \ {tx[i].f : i \in Ids}
\* a client signs a transaction and submits it to this miner; nonces near the state of some live block
G_SubmitNew(s, n, k, off) ==
  /\ More /\ Len(tx) < MaxTxns
  /\ \E b \in LiveSet : n \in {blocks[b].st[s], blocks[b].st[s] + 1, blocks[b].st[s] + 2} \cap 1..MaxNonce
  /\ \E f \in {RandomElement(FreeFees)} :   \* any free fee rank (drawn, not enumerated: the simulator is uniform over successors)
       LET t == [s |-> s, n |-> n, ct |-> clock + off, f |-> f, k |-> k]
           id == Len(tx) + 1 IN
       /\ tx' = Append(tx, t)
       /\ IF SubmitOK(C, t, clock, blocks[lfb].st) THEN pool' = pool \cup {id} /\ ents' = ents \cup {id} ELSE UNCHANGED <<pool, ents>>
       /\ \E w \in 1..(IF k = "ok" THEN WOk ELSE 1) : hist' = Append(hist, [op |-> "Submit", t |-> [id |-> id] @@ t, w |-> w])
  /\ UNCHANGED <<clock, blocks, lfb, cleaned>>

G_Resubmit(id) ==
  /\ More /\ id \in Ids
  /\ IF SubmitOK(C, tx[id], clock, blocks[lfb].st) THEN pool' = pool \cup {id} /\ ents' = ents \cup {id} ELSE UNCHANGED <<pool, ents>>
  /\ hist' = Append(hist, [op |-> "Submit", t |-> TxJ(id)])
  /\ UNCHANGED <<clock, tx, blocks, lfb, cleaned>>

\* a client signs a transaction that reaches only other miners (it can still come back inside a block)
G_SignElsewhere(s, n, k, off) ==
  /\ More /\ Len(tx) < MaxTxns
  /\ \E b \in LiveSet : n \in {blocks[b].st[s], blocks[b].st[s] + 1, blocks[b].st[s] + 2} \cap 1..MaxNonce
  /\ \E f \in {RandomElement(FreeFees)} : tx' = Append(tx, [s |-> s, n |-> n, ct |-> clock + off, f |-> f, k |-> k])
  /\ UNCHANGED <<clock, pool, ents, blocks, lfb, hist, cleaned>>

G_Gen(p) ==
  /\ More /\ Len(blocks) < MaxBlocks /\ p \in LiveSet
  /\ LET bt == MaxOf(clock, blocks[p].bt)
         G == GenRun(C, tx, blocks[p].st, bt, SortByFee(tx, pool), pool \cap ents)
         far == TooFar(C, tx, G) IN
       /\ pool' = ((pool \ far) \cup Range(G.blk)) \ G.invalid
       /\ ents' = (ents \ far) \ G.invalid
       /\ blocks' = Append(blocks, [p |-> p, bt |-> bt, x |-> G.blk, st |-> G.nonce, own |-> TRUE])
  /\ \E w \in 1..WGen : hist' = Append(hist, [op |-> "Gen", p |-> Name(p), w |-> w])
  /\ UNCHANGED <<clock, tx, lfb, cleaned>>

G_Forge(p, bt, x) ==
  /\ More /\ Len(blocks) < MaxBlocks /\ p \in LiveSet /\ Len(x) > 0
  /\ IF VerifyOK(C, tx, blocks[p].st, bt, x)
       THEN blocks' = Append(blocks, [p |-> p, bt |-> bt, x |-> x, st |-> Replay(tx, x, 1, blocks[p].st).st, own |-> FALSE])
       ELSE UNCHANGED blocks
  /\ hist' = Append(hist, [op |-> "Forge", p |-> Name(p), bt |-> bt, x |-> [i \in 1..Len(x) |-> TxJ(x[i])]])
  /\ UNCHANGED <<clock, tx, pool, ents, lfb, cleaned>>

G_Fin(b) ==
  /\ More /\ b \in 1..Len(blocks) /\ blocks[b].p = lfb
  /\ lfb' = b
  /\ pool' = FinPool(tx, blocks[b].x, blocks[b].own, pool)
  /\ ents' = FinEnts(blocks[b].x, ents)
  /\ \E w \in 1..WFin : hist' = Append(hist, [op |-> "Fin", b |-> Name(b), w |-> w])
  /\ UNCHANGED <<clock, tx, blocks, cleaned>>

\* the clean-up worker passes one second after it starts: the driver waits for it, the clock moves on
G_Cleanup ==
  /\ More /\ ~cleaned /\ clock < MaxClock /\ pool # {}
  /\ clock' = clock + 1 /\ cleaned' = TRUE
  /\ pool' = CleanPool(C, tx, clock + 1, pool, ents)
  /\ ents' = CleanEnts(C, tx, clock + 1, pool, ents)
  /\ hist' = Append(hist, [op |-> "Cleanup"])
  /\ UNCHANGED <<tx, blocks, lfb>>

\* the walk is complete: one successor only, so that the behaviour is printed once
G_Done == ~More /\ ~done /\ done' = TRUE /\ UNCHANGED <<clock, tx, pool, ents, blocks, lfb, hist, cleaned>>

GStep ==
  \/ G_Tick \/ G_Cleanup
  \/ \E s \in Sender, n \in 1..MaxNonce, k \in Kinds, off \in CtOffsets : G_SubmitNew(s, n, k, off) \/ G_SignElsewhere(s, n, k, off)
  \/ \E id \in Ids : G_Resubmit(id)
  \/ \E p \in 1..Len(blocks) : G_Gen(p)
  \/ \E p \in 1..Len(blocks), id \in Ids, late \in BOOLEAN :
        G_Forge(p, IF late THEN tx[id].ct + Tol + 1 ELSE MaxOf(clock, blocks[p].bt), <<id>>)
  \/ \E p \in 1..Len(blocks), i, j \in Ids : tx[i].s = tx[j].s /\ tx[i].n <= tx[j].n /\ G_Forge(p, MaxOf(clock, blocks[p].bt), <<i, j>>)
  \/ \E b \in 1..Len(blocks) : G_Fin(b)
GNext == (GStep /\ done' = done) \/ G_Done
GSpec == GInit /\ [][GNext]_vars
GPrint == done => PrintT(<<"BEHAVIOUR", ToJson(hist)>>)
=============================================================================
