SPECIFICATION CSpec
CONSTANTS
  NVersions = 3
  FieldNames = {"a", "b", "c", "d"}
  FieldsOf <- MCFieldsOf
  MVals = {"zero", "one", "max"}
  DropOnMigrate = {}
  DispatchByTag = TRUE
INVARIANTS C08_RoundTrip C08_Canonical C08_MigrationPreserves C08_Dispatch
CHECK_DEADLOCK FALSE
