SPECIFICATION Spec
CONSTANTS
  P = 5
  MaxN = 3
  KeyVals = {1, 2}
  MsgVals = {3}
  WrongKeys = {4}
  WrongMsgs = {2}
  Deltas = {1, 4}
  SameModes = {TRUE, FALSE}
  MaxTouched = 2
  GenMaxMixed = 2
  GenWithRepeat = FALSE
  MaxPasses = 3
  ReKeys = {1, 2, 4}
  AsCoded = TRUE
INVARIANTS TypeOK ObjectsCurrent Completeness SoundNonCancelling SingleFaultDetected BatchSplitIndependent OnlyGapIsCancelling
CHECK_DEADLOCK FALSE
