SPECIFICATION GSpec
CONSTANTS
  Genesis = "g"
  MaxRound = 6
  PerRound = 2
  Ahead = 5
  Confirm = 3
  FetchOK = FALSE
  MaxUnnotarized = 2
  GenLen = 16
  Block <- MCBlock
  RoundOf <- MCRoundOf
  Idx <- MCIdx
INVARIANT GPrint
CHECK_DEADLOCK FALSE
