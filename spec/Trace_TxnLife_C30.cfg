SPECIFICATION TraceSpec
INVARIANTS
  C30_SubmitBound C30_BlockBound
  HarnessEnv HarnessClock HarnessSubmit HarnessGenerated HarnessBlockTime HarnessGenBlock HarnessVerify HarnessNoExpired HarnessPool
POSTCONDITION Accepted
CHECK_DEADLOCK FALSE
