SPECIFICATION Spec
CONSTANTS
  Names = {"f1", "f2"}
  Rounds = {0, 1, 2, 3, 4}
  NoFork = NoFork
  Aliased = FALSE
  Inclusive = TRUE
  MaxOps = 3
INVARIANTS CacheCoherent C43_MissingFork C43_BeforeFork C43_AfterFork
PROPERTIES C43_OnlyOwnerRecords
CHECK_DEADLOCK FALSE
