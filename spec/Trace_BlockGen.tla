--------------------------- MODULE Trace_BlockGen ---------------------------
(* Every `Block` event is one block produced by the REAL GenerateRoundBlock of  *)
(* miner m1 from a real transaction pool, JSON round-tripped and given to the   *)
(* REAL VerifyBlock of miner m2 on the same previous state.                     *)
(*   txns   the block, projected: sender name, nonce, built-in function name    *)
(*          ("" if none) as classified by the verifier's own isBuildInTxn,      *)
(*          cost as estimated by the real EstimateTransactionCost, hash prefix  *)
(*   st     previous-state nonce of every sender that can appear, read from     *)
(*          the real previous block's state                                     *)
(*   maxcost the chain's block cost limit                                       *)
(*   accepted / gen_root, ver_root / gen_changes, ver_changes / gen_outs,       *)
(*          ver_outs: the verifier's verdict and what it recomputed             *)
(* Which transactions the generator chooses is left free.                       *)
EXTENDS TraceLib
VARIABLES l, ev
vars == <<l, ev>>
Null == [ev |-> "none"]
TraceInit == l = 1 /\ ev = Null
TraceStep == l <= Len(Trace) /\ l' = l + 1 /\ ev' = Trace[l]
TraceSpec == TraceInit /\ [][TraceStep]_vars

IsBlock == ev.ev = "Block" /\ ev.gen_err = "" /\ ~IsKnown(ev)
T == ev.txns
Of(s) == SelectSeq(T, LAMBDA e : e.s = s)
Senders == {T[i].s : i \in 1..Len(T)}
RECURSIVE SumC(_)
SumC(i) == IF i > Len(T) THEN 0 ELSE T[i].c + SumC(i + 1)

HarnessSendersKnown == IsBlock => \A s \in Senders : \E i \in 1..Len(ev.st) : ev.st[i].a = s
(* C45 (BlockGen!NoDuplicate .. VerifierAgrees on the real block) *)
C45_NoDuplicate == IsBlock => \A i, j \in 1..Len(T) : i # j => T[i].h # T[j].h
C45_ConsecutiveNonces == IsBlock => \A s \in Senders : \A k \in 1..Len(Of(s)) : Of(s)[k].n = PairOf(ev.st, s, 0 - 1000) + k
C45_CostLimit == IsBlock => SumC(1) <= ev.maxcost
C45_BuiltinsOnce == IsBlock => \A i, j \in 1..Len(T) : (i # j /\ T[i].bi # "") => T[i].bi # T[j].bi
C45_VerifierAgrees == IsBlock => /\ ev.accepted
                                 /\ ev.ver_root = ev.gen_root
                                 /\ ev.ver_changes = ev.gen_changes
                                 /\ ev.ver_outs = ev.gen_outs
=============================================================================
