SPECIFICATION GSpec
CONSTANTS
  Canon <- MCCanon6
  Fork <- MCForks2
  Info <- MCInfo
  Genesis = "g"
  Batch = 2
  Confirmations = 3
  CountMerges = TRUE
  MaxFaults = 4
  MaxCnt = 100
  HCAhead = FALSE
  Concurrent = FALSE
  MaxLag = 1
  GenLen = 45
INVARIANT GPrint
CHECK_DEADLOCK FALSE
