SPECIFICATION MCSpec
CONSTANTS
  MaxRound = 3
  MaxInputs = 3
  VerifyRegistered = FALSE
INVARIANTS C41_Authentic AuthenticRegistered
PROPERTIES C41_Monotone
CHECK_DEADLOCK FALSE
