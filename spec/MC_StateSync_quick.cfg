SPECIFICATION MCSpec
CONSTANTS
  Key = {"k1", "k2"}
  Val = {1, 2}
  Tamper = {"none", "drop", "extra", "alter", "wrongroot", "wronghash", "replay", "swap", "relabel"}
INVARIANTS C28_HonestReproduces C28_MismatchRejected C28_RejectedUntouched C28_AcceptedIsComputed IncompleteOnlyBySwap
CHECK_DEADLOCK FALSE
