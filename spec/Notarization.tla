---------------------------- MODULE Notarization ----------------------------
(***************************************************************************)
(* C31: how verification tickets reach a miner and when it treats a block  *)
(* as notarized.  Three arrival paths, each with the verification the code *)
(* performs on that path:                                                  *)
(*   VB(S)  a block proposal whose object carries the ticket set S         *)
(*          (miner/protocol_receive.go processVerifyBlock)                 *)
(*   TK(t)  a verification-ticket message (handleVerificationTicketMessage)*)
(*   NZ(S)  a notarization message (notarizationProcess / MergeNotarization)*)
(* A ticket is a pair (verifier, quality): quality "ok" = a valid signature *)
(* of that verifier on the block hash; "bad" = anything else.  Verifiers   *)
(* are miners of the round's magic block or outsiders.                     *)
(* VerifyAttached = TRUE: tickets attached to a proposal are verified and  *)
(* dropped if any of them fails (the code after the fix); FALSE = they are *)
(* merged and counted unverified (the code as found).                      *)
(* Arrival order: a proposal may reach the node BEFORE the node has started *)
(* the block's round (`started` = FALSE; processVerifyBlock, "got block     *)
(* proposal before starting round"): the node then creates the round and   *)
(* only stores/queues the block WITH the tickets it kept (VBE) - no merge,  *)
(* no notarization check; whatever tickets stay on the stored block count  *)
(* as soon as the next ticket arrives.  VerifyEarly = TRUE: the attached   *)
(* tickets are verified on that path too (the code); FALSE = only on the   *)
(* path of a started round (MC_Notarization_lateverify_demo.cfg shows the  *)
(* violation).  A ticket message for a round not started yet starts it     *)
(* (VerificationTicketReceiptHandler: getOrCreateRound).                   *)
(***************************************************************************)
EXTENDS Integers, Sequences, FiniteSets, TLC

CONSTANTS Miner, Outsider, T, VerifyAttached, VerifyEarly, MaxMsgs, MaxSet,
          Rep      \* how many times each ticket of a message is repeated on the wire (a byzantine sender
                   \* may repeat tickets; merging de-duplicates by verifier, so repetition must not matter)

Ticket == [v : Miner \cup Outsider, q : {"ok", "bad"}]
Good(t) == t.v \in Miner /\ t.q = "ok"
TicketSets == {S \in SUBSET Ticket : Cardinality(S) <= MaxSet}

VARIABLES started,  \* the node has started (created) the block's round
          known,    \* the node holds the block object
          blockT,   \* tickets on the block object
          roundT,   \* verified tickets collected for a block the node does not hold yet
          notar,    \* the node treats the block as notarized
          msgs, hist
vars == <<started, known, blockT, roundT, notar, msgs, hist>>

Init == started \in BOOLEAN /\ known = FALSE /\ blockT = {} /\ roundT = {} /\ notar = FALSE /\ msgs = 0 /\ hist = <<>>

Verifiers(S) == {t.v : t \in S}
\* merging dedups by verifier id, keeping what the block already has
Merge(have, recv) == have \cup {t \in recv : t.v \notin Verifiers(have)}
Count(S) == Cardinality(Verifiers(S))
\* VerifyTickets: every verifier must be a miner of the round and every signature valid
AllVerify(S) == \A t \in S : Good(t)

Sent == msgs < MaxMsgs /\ msgs' = msgs + 1

Kept(S, rep, verify) == IF verify THEN (IF AllVerify(S) /\ rep = 1 THEN S ELSE {}) ELSE S   \* repeated tickets are rejected

VB(S, rep) ==
  /\ Sent /\ ~known /\ started
  /\ LET kept == Kept(S, rep, VerifyAttached)
         all  == Merge(kept, roundT) IN
       /\ blockT' = all /\ known' = TRUE
       /\ notar' = (Count(all) >= T)
  /\ hist' = Append(hist, [m |-> "VB", s |-> S, rep |-> rep, early |-> FALSE])
  /\ UNCHANGED <<roundT, started>>

\* the proposal arrives before the node started the round: the round is created and the block is stored
\* and queued for verification with the attached tickets that were kept (roundT is empty: no round yet)
VBE(S, rep) ==
  /\ Sent /\ ~known /\ ~started
  /\ started' = TRUE /\ known' = TRUE
  /\ blockT' = Kept(S, rep, VerifyEarly)
  /\ hist' = Append(hist, [m |-> "VB", s |-> S, rep |-> rep, early |-> TRUE])
  /\ UNCHANGED <<roundT, notar>>

TK(t) ==
  /\ Sent
  /\ IF ~Good(t) THEN UNCHANGED <<blockT, roundT, notar>>
     ELSE IF ~known THEN roundT' = roundT \cup {t} /\ UNCHANGED <<blockT, notar>>
     ELSE /\ blockT' = Merge(blockT, {t}) /\ UNCHANGED roundT
          /\ notar' = (notar \/ Count(blockT') >= T)
  /\ started' = TRUE      \* the receipt handler creates the round if need be
  /\ hist' = Append(hist, [m |-> "TK", s |-> {t}, rep |-> 1, early |-> ~started])
  /\ UNCHANGED known

NZ(S, rep) ==
  /\ Sent /\ known
  /\ IF notar THEN UNCHANGED <<blockT, notar>>
     ELSE LET unk == {t \in S : t.v \notin Verifiers(blockT)} IN
          IF unk = {} THEN
               \* VerifyBlockNotarization over the block's own tickets
               /\ UNCHANGED blockT
               /\ notar' = (Count(blockT) >= T /\ AllVerify(blockT))
          ELSE IF AllVerify(unk) THEN
               /\ blockT' = Merge(blockT, unk)
               /\ notar' = (Count(blockT') >= T)
          ELSE UNCHANGED <<blockT, notar>>
  /\ hist' = Append(hist, [m |-> "NZ", s |-> S, rep |-> rep, early |-> FALSE])
  /\ UNCHANGED <<known, roundT, started>>

Next == (\E S \in TicketSets, rep \in Rep : VB(S, rep) \/ VBE(S, rep) \/ NZ(S, rep)) \/ (\E t \in Ticket : TK(t))
Spec == Init /\ [][Next]_vars

GoodCount(S) == Cardinality({t.v : t \in {x \in S : Good(x)}})
(* C31 *)
NotarizedOnlyWithQuorum == notar => GoodCount(blockT) >= T
View == <<started, known, blockT, roundT, notar, msgs>>
=============================================================================
