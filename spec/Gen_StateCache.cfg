SPECIFICATION GSpec
CONSTANTS
  Keys = {"k1", "k2"}
  Vals = {1, 2, 3}
  Blocks = {"b1", "b2", "b3", "b4", "b5", "b6"}
  Handles = {"h1", "h2"}
  DeepClone = TRUE
  CommitOnFail = FALSE
  RemoveOnDelete = TRUE
  MigrateWipes = TRUE
  MaxOps = 26
INVARIANT GPrint
CHECK_DEADLOCK FALSE
