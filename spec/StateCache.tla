------------------------------ MODULE StateCache ------------------------------
(***************************************************************************)
(* C07 -- the state cache never disagrees with the state trie.             *)
(*                                                                         *)
(* Design of 0chain's three-level cache of decoded state entities as it is *)
(* used by chaincore/chain/state.StateContext (GetTrieNode /               *)
(* InsertTrieNode / DeleteTrieNode) and chaincore/chain.updateState:       *)
(*                                                                         *)
(*   txnC            statecache.TransactionCache of the running txn         *)
(*   blkC[b]         statecache.BlockCache of block b (pre-commit)          *)
(*   glob[k][b]      statecache.StateCache: per key a table block-hash ->   *)
(*                   entry; a lookup for block b starts at parent[b] and    *)
(*                   walks the prev-hash chain of the blocks whose cache    *)
(*                   was committed (`committed`, the library's hashCache);  *)
(*                   an answer found at a proper ancestor REPLACES the      *)
(*                   per-key table by the single migrated entry             *)
(*   state[b]        the block's trie;  txnState = trie of the running txn  *)
(*   hnd[h]          objects held by callers: what a Get handed out or what *)
(*                   the caller built and passed to Insert                  *)
(*                                                                         *)
(* Objects are (value, identity).  With DeepClone (the code as written:    *)
(* Clone/CopyFrom copy everything, the library clones on Set and on Get)   *)
(* every copy is independent, identity 0.  With DeepClone = FALSE a Clone  *)
(* shares storage with its source (same identity), so that TLC exhibits    *)
(* what a shallow Clone/CopyFrom would do: Mutate(h) then changes every    *)
(* cache entry of the same identity.                                       *)
(* CommitOnFail / RemoveOnDelete name two more deviations (both as         *)
(* written: FALSE / TRUE).  MigrateWipes (as written: TRUE) is a defect of *)
(* the library found with this model: with >= 3 blocks on a chain TLC      *)
(* shows a stale read (known finding KF-C07-migrate); the exhaustive       *)
(* configurations run as-written where it cannot bite (<= 2 blocks) and    *)
(* the intended variant with 3 blocks.                                     *)
(***************************************************************************)
EXTENDS Integers, FiniteSets, TLC

CONSTANTS Keys,            \* state keys
          Vals,            \* entity values: a set of positive integers
          Blocks,          \* block identifiers (besides the genesis block)
          Handles,         \* caller-held objects
          DeepClone,       \* TRUE = code as written
          CommitOnFail,    \* FALSE = code as written (txn cache committed only on success)
          RemoveOnDelete,  \* TRUE = code as written (DeleteTrieNode removes the key from the cache)
          MigrateWipes     \* TRUE = library as written: StateCache.Get, finding the answer at a proper ancestor,
                           \* REPLACES the key's table by the single migrated entry (entries of all other
                           \* blocks, newer ones included, are lost); FALSE = the entry is added to the table

G == "g"                   \* genesis: sealed from the start, its cache was never committed
BlocksG == Blocks \cup {G}
Absent == 0                \* trie: no value at the key
Miss == -1                 \* cache: no answer (absent entry or tombstone) => the reader falls through to the trie

VARIABLES status,          \* [BlocksG -> {"unused","open","sealed","abandoned"}]
          parent,          \* [BlocksG -> BlocksG]
          state,           \* [BlocksG -> [Keys -> Vals \cup {Absent}]]   block tries
          blkC,            \* [BlocksG -> [Keys -> Entry]]
          glob,            \* [Keys -> [BlocksG -> Entry]]
          committed,       \* blocks whose BlockCache.Commit() ran (hashCache)
          inTxn, cur,      \* a transaction is running on block cur
          txnState,        \* [Keys -> Vals \cup {Absent}]  the txn's trie (level db over the block trie)
          txnC,            \* [Keys -> Entry]
          hnd,             \* [Handles -> Handle]
          nextId           \* next object identity (only used when ~DeepClone)
vars == <<status, parent, state, blkC, glob, committed, inTxn, cur, txnState, txnC, hnd, nextId>>

NoEntry == [has |-> FALSE, del |-> FALSE, v |-> 0, id |-> 0]
NoHandle == [has |-> FALSE, k |-> "", v |-> 0, id |-> 0]
Ent(v, id) == [has |-> TRUE, del |-> FALSE, v |-> v, id |-> id]
CloneId(id) == IF DeepClone THEN 0 ELSE id            \* Value.Clone(): deep = independent copy
FreshId == IF DeepClone THEN 0 ELSE nextId            \* a newly built / newly decoded object
Bump == nextId' = IF DeepClone THEN nextId ELSE nextId + 1
NoKeys == [k \in Keys |-> NoEntry]

Init == /\ status = [b \in BlocksG |-> IF b = G THEN "sealed" ELSE "unused"]
        /\ parent = [b \in BlocksG |-> G]
        /\ state = [b \in BlocksG |-> [k \in Keys |-> Absent]]
        /\ blkC = [b \in BlocksG |-> NoKeys]
        /\ glob = [k \in Keys |-> [b \in BlocksG |-> NoEntry]]
        /\ committed = {}
        /\ inTxn = FALSE /\ cur = G
        /\ txnState = [k \in Keys |-> Absent]
        /\ txnC = NoKeys
        /\ hnd = [h \in Handles |-> NoHandle]
        /\ nextId = 1

---------------------------------------------------------------------------
(* lookups (pure) *)

\* StateCache.Get(k, start): direct entry, else walk the prev-hash chain of committed blocks
RECURSIVE Nearest(_, _)
Nearest(k, b) == IF glob[k][b].has THEN b
                 ELSE IF b \in committed THEN Nearest(k, parent[b]) ELSE "none"
GlobEntry(k, start) == LET a == Nearest(k, start) IN IF a = "none" THEN NoEntry ELSE glob[k][a]
\* its side effect: an answer found at a proper ancestor becomes the only entry of the key's table
GlobAfterGet(k, start) ==
  LET a == Nearest(k, start) IN
  IF a = "none" \/ a = start THEN glob
  ELSE IF MigrateWipes THEN [glob EXCEPT ![k] = [b \in BlocksG |-> IF b = start THEN glob[k][a] ELSE NoEntry]]
  ELSE [glob EXCEPT ![k][start] = glob[k][a]]

BlkEntry(b, k) == IF blkC[b][k].has THEN blkC[b][k] ELSE GlobEntry(k, parent[b])
TxnEntry(k) == IF txnC[k].has THEN txnC[k] ELSE BlkEntry(cur, k)
Served(e) == IF e.has /\ ~e.del THEN e.v ELSE Miss
Through(e, trie) == IF Served(e) = Miss THEN trie ELSE Served(e)   \* GetTrieNode: cache answer, else the trie

\* what a reader is served: inside the running txn / by the next txn of an open block / by a query on a sealed block
TxnRead(k) == Through(TxnEntry(k), txnState[k])
BlkRead(b, k) == Through(BlkEntry(b, k), state[b][k])
QryRead(b, k) == Through(GlobEntry(k, b), state[b][k])

---------------------------------------------------------------------------
(* blocks *)

NewBlock(b, p) ==
  /\ status[b] = "unused" /\ status[p] = "sealed"
  /\ status' = [status EXCEPT ![b] = "open"]
  /\ parent' = [parent EXCEPT ![b] = p]
  /\ state' = [state EXCEPT ![b] = state[p]]
  /\ blkC' = [blkC EXCEPT ![b] = NoKeys]
  /\ UNCHANGED <<glob, committed, inTxn, cur, txnState, txnC, hnd, nextId>>

\* BlockCache.Commit(): every pre-commit entry goes (cloned) to glob[k][b]; the block enters the hash chain
CommitBlock(b) ==
  /\ status[b] = "open" /\ ~(inTxn /\ cur = b)
  /\ glob' = [k \in Keys |-> IF blkC[b][k].has
                              THEN [glob[k] EXCEPT ![b] = [blkC[b][k] EXCEPT !.id = CloneId(@)]]
                              ELSE glob[k]]
  /\ committed' = committed \cup {b}
  /\ blkC' = [blkC EXCEPT ![b] = NoKeys]
  /\ status' = [status EXCEPT ![b] = "sealed"]
  /\ UNCHANGED <<parent, state, inTxn, cur, txnState, txnC, hnd, nextId>>

\* the block is dropped (failed verification, lost the round): its cache is never committed
AbandonBlock(b) ==
  /\ status[b] = "open" /\ ~(inTxn /\ cur = b)
  /\ status' = [status EXCEPT ![b] = "abandoned"]
  /\ blkC' = [blkC EXCEPT ![b] = NoKeys]
  /\ UNCHANGED <<parent, state, glob, committed, inTxn, cur, txnState, txnC, hnd, nextId>>

---------------------------------------------------------------------------
(* transactions (Chain.updateState): one at a time (stateMutex) *)

BeginTxn(b) ==
  /\ ~inTxn /\ status[b] = "open"
  /\ inTxn' = TRUE /\ cur' = b
  /\ txnState' = state[b] /\ txnC' = NoKeys
  /\ UNCHANGED <<status, parent, state, blkC, glob, committed, hnd, nextId>>

\* GetTrieNode(k, obj): cache answer => obj.CopyFrom(clone); otherwise trie read and Cache().Set
Get(k, h) ==
  /\ inTxn
  /\ LET e == TxnEntry(k) IN
     /\ glob' = IF txnC[k].has \/ blkC[cur][k].has THEN glob ELSE GlobAfterGet(k, parent[cur])
     /\ IF Served(e) # Miss
        THEN /\ hnd' = [hnd EXCEPT ![h] = [has |-> TRUE, k |-> k, v |-> e.v, id |-> CloneId(e.id)]]
             /\ UNCHANGED <<txnC, nextId>>
        ELSE IF txnState[k] = Absent
             THEN UNCHANGED <<hnd, txnC, nextId>>          \* ErrValueNotPresent, nothing cached
             ELSE /\ hnd' = [hnd EXCEPT ![h] = [has |-> TRUE, k |-> k, v |-> txnState[k], id |-> FreshId]]
                  /\ txnC' = [txnC EXCEPT ![k] = Ent(txnState[k], CloneId(FreshId))]
                  /\ Bump
  /\ UNCHANGED <<status, parent, state, blkC, committed, inTxn, cur, txnState>>

\* the caller builds an object and inserts it (and keeps it)
Insert(k, v, h) ==
  /\ inTxn
  /\ txnState' = [txnState EXCEPT ![k] = v]
  /\ txnC' = [txnC EXCEPT ![k] = Ent(v, CloneId(FreshId))]
  /\ hnd' = [hnd EXCEPT ![h] = [has |-> TRUE, k |-> k, v |-> v, id |-> FreshId]]
  /\ Bump
  /\ UNCHANGED <<status, parent, state, blkC, glob, committed, inTxn, cur>>

\* the caller saves back an object it holds (the usual get - modify - save of the contracts)
Save(h) ==
  /\ inTxn /\ hnd[h].has
  /\ txnState' = [txnState EXCEPT ![hnd[h].k] = hnd[h].v]
  /\ txnC' = [txnC EXCEPT ![hnd[h].k] = Ent(hnd[h].v, CloneId(hnd[h].id))]
  /\ UNCHANGED <<status, parent, state, blkC, glob, committed, inTxn, cur, hnd, nextId>>

\* DeleteTrieNode(k) of a present key: trie delete + Cache().Remove (tombstone)
Delete(k) ==
  /\ inTxn /\ txnState[k] # Absent
  /\ txnState' = [txnState EXCEPT ![k] = Absent]
  /\ txnC' = IF RemoveOnDelete
             THEN [txnC EXCEPT ![k] = [has |-> TRUE, del |-> TRUE, v |-> @.v, id |-> CloneId(@.id)]]
             ELSE txnC
  /\ UNCHANGED <<status, parent, state, blkC, glob, committed, inTxn, cur, hnd, nextId>>

\* the caller changes, in place, an object it was given or that it inserted -- at any time
MutEnt(e, id, v) == IF e.has /\ id # 0 /\ e.id = id THEN [e EXCEPT !.v = v] ELSE e
Mutate(h, v) ==
  /\ hnd[h].has /\ v # hnd[h].v
  /\ LET id == hnd[h].id IN
     /\ hnd' = [x \in Handles |-> IF x = h \/ (hnd[x].has /\ id # 0 /\ hnd[x].id = id)
                                   THEN [hnd[x] EXCEPT !.v = v] ELSE hnd[x]]
     /\ txnC' = [k \in Keys |-> MutEnt(txnC[k], id, v)]
     /\ blkC' = [b \in BlocksG |-> [k \in Keys |-> MutEnt(blkC[b][k], id, v)]]
     /\ glob' = [k \in Keys |-> [b \in BlocksG |-> MutEnt(glob[k][b], id, v)]]
  /\ UNCHANGED <<status, parent, state, committed, inTxn, cur, txnState, nextId>>

\* TransactionCache.Commit(): every txn entry (tombstones too) is set, cloned, in the block cache
Merged == [k \in Keys |-> IF txnC[k].has THEN [txnC[k] EXCEPT !.id = CloneId(@)] ELSE blkC[cur][k]]

\* success: MergeMPTChanges + txnStateCache.Commit()
CommitTxn ==
  /\ inTxn
  /\ state' = [state EXCEPT ![cur] = txnState]
  /\ blkC' = [blkC EXCEPT ![cur] = Merged]
  /\ inTxn' = FALSE /\ txnC' = NoKeys
  /\ UNCHANGED <<status, parent, glob, committed, cur, txnState, hnd, nextId>>

\* failure (chargeable contract error or rejected txn): txn trie and txn cache are dropped
DiscardTxn ==
  /\ inTxn
  /\ blkC' = IF CommitOnFail THEN [blkC EXCEPT ![cur] = Merged] ELSE blkC
  /\ inTxn' = FALSE /\ txnC' = NoKeys
  /\ UNCHANGED <<status, parent, state, glob, committed, cur, txnState, hnd, nextId>>

\* a read-only query (REST handlers, fee estimation) on a sealed block: QueryBlockCache starts at the block itself
Query(b, k, h) ==
  /\ status[b] = "sealed" /\ b # G
  /\ LET e == GlobEntry(k, b) IN
     /\ glob' = GlobAfterGet(k, b)
     /\ IF Served(e) # Miss
        THEN /\ hnd' = [hnd EXCEPT ![h] = [has |-> TRUE, k |-> k, v |-> e.v, id |-> CloneId(e.id)]]
             /\ UNCHANGED nextId
        ELSE IF state[b][k] = Absent THEN UNCHANGED <<hnd, nextId>>
             ELSE /\ hnd' = [hnd EXCEPT ![h] = [has |-> TRUE, k |-> k, v |-> state[b][k], id |-> FreshId]] /\ Bump
  /\ UNCHANGED <<status, parent, state, blkC, committed, inTxn, cur, txnState, txnC>>

Next == \/ \E b \in Blocks, p \in BlocksG : NewBlock(b, p)
        \/ \E b \in Blocks : CommitBlock(b) \/ AbandonBlock(b) \/ BeginTxn(b)
        \/ \E k \in Keys, h \in Handles : Get(k, h)
        \/ \E k \in Keys, v \in Vals, h \in Handles : Insert(k, v, h)
        \/ \E h \in Handles : Save(h)
        \/ \E k \in Keys : Delete(k)
        \/ \E h \in Handles, v \in Vals : Mutate(h, v)
        \/ CommitTxn \/ DiscardTxn
        \/ \E b \in Blocks, k \in Keys, h \in Handles : Query(b, k, h)
Spec == Init /\ [][Next]_vars

---------------------------------------------------------------------------
(* properties *)

TypeOK == /\ status \in [BlocksG -> {"unused", "open", "sealed", "abandoned"}]
          /\ \A b \in BlocksG, k \in Keys : state[b][k] \in Vals \cup {Absent}
          /\ \A k \in Keys : txnState[k] \in Vals \cup {Absent}
          /\ committed \subseteq Blocks

\* C07 (1): whatever a reader is served through the cache equals what the trie holds, in every scope
AllReads == [txn |-> [k \in Keys |-> IF inTxn THEN TxnRead(k) ELSE Absent],
             blk |-> [b \in Blocks |-> [k \in Keys |-> IF status[b] = "open" THEN BlkRead(b, k) ELSE Absent]],
             qry |-> [b \in Blocks |-> [k \in Keys |-> IF status[b] = "sealed" THEN QryRead(b, k) ELSE Absent]]]
C07_CacheAgreesWithTrie ==
  /\ inTxn => \A k \in Keys : TxnRead(k) = txnState[k]
  /\ \A b \in Blocks : status[b] = "open" => \A k \in Keys : BlkRead(b, k) = state[b][k]
  /\ \A b \in Blocks : status[b] = "sealed" => \A k \in Keys : QryRead(b, k) = state[b][k]

\* C07 (2): mutating a held object never changes what any reader is served
C07_MutateInvisible == [][(\E h \in Handles, v \in Vals : Mutate(h, v)) => AllReads' = AllReads]_vars

\* C07 (3): after a failed txn the block's readers are served exactly the block's (unchanged) trie
C07_NoResidue == [][DiscardTxn => (state' = state /\ \A k \in Keys : BlkRead(cur, k)' = state[cur][k])]_vars
=============================================================================
