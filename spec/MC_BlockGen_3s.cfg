SPECIFICATION Spec
CONSTANTS
  Sender = {"s1", "s2", "s3"}
  MaxNonce = 2
  StateNonce = {0, 1}
  MaxCost = 8
  BuiltIn <- MCBuiltIn
  BiName = "payFees"
  Class = {"ok", "fail"}
  MaxPool = 4
  FilterBuiltins = TRUE
VIEW View
INVARIANTS NoDuplicate ConsecutiveNonces CostLimit BuiltinsOnce VerifierAgrees
CHECK_DEADLOCK FALSE
