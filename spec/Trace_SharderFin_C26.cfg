SPECIFICATION TraceSpec
INVARIANTS
  C26_StoreReadBack C26_ServedBlockExact C26_ConfirmationTxnExact
  HarnessCalls HarnessRounds HarnessSums HarnessBlocks HarnessTxns HarnessCount HarnessMBMap HarnessLFB HarnessHC
  HarnessConfirmation HarnessReads
POSTCONDITION Accepted
CHECK_DEADLOCK FALSE
