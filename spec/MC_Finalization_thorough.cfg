SPECIFICATION MCSpec
CONSTANTS
  Genesis = "g"
  MaxRound = 5
  PerRound = 2
  Ahead = 5
  Confirm = 3
  FetchOK = FALSE
  MaxUnnotarized = 1
  Block <- MCBlock
  RoundOf <- MCRoundOf
  Idx <- MCIdx
INVARIANTS TypeOK C36_WalkIsCommonAncestor C36_EarlierRound FinalizedRoundsAgree
PROPERTIES C36_SingleChain C36_UpToChosen RollbackOnlyOnDeepFork
CHECK_DEADLOCK FALSE
