----------------------------- MODULE MC_AggSig -----------------------------
(* Exhaustive configurations of AggSig.tla and the behaviour generator of C32. *)
EXTENDS AggSig, Json

(* ---- generator: every corruption pattern x batch size over canonical claims; one BEHAVIOUR line ---- *)
(* per reachable scenario (printed when the verifier starts), replayed by harness/drivers/crypto      *)
CONSTANT GenWithRepeat                            \* also claims where one signer appears twice (two txns of a client)
GenKeys == {<<1, 2, 3, 4>>} \cup (IF GenWithRepeat THEN {<<1, 1, 3, 4>>} ELSE {})
GenMsgs == <<1, 2, 4, 6>>
GenInit ==
  /\ Init
  /\ \E kv \in GenKeys : ck = SubSeq(kv, 1, n)
  /\ same => Distinct(ck)
  /\ cm = IF same THEN [i \in 1..n |-> 1] ELSE SubSeq(GenMsgs, 1, n)
(* mixed corruptions of at most GenMaxMixed positions; beyond that only purely additive errors (the *)
(* three-way cancelling family sigma_1 + D, sigma_2 + D, sigma_3 - 2D), up to MaxTouched positions   *)
CONSTANT GenMaxMixed
GenMixedOK == Cardinality(touched) < GenMaxMixed
GenDeltaOK == GenMixedOK \/ \A i \in touched : dl[i] # 0
GenNext == \/ \E i \in 1..MaxN : \/ GenDeltaOK /\ \E d \in Deltas : CorruptDelta(i, d)
                                 \/ GenMixedOK /\ \E k \in WrongKeys : WrongKey(i, k)
                                 \/ GenMixedOK /\ \E m \in WrongMsgs : WrongMsg(i, m)
                                 \/ GenMixedOK /\ \E j \in 1..MaxN : TakeOther(i, j)
           \/ \E b \in 1..n : StartVerify(b)
GenSpec == GenInit /\ [][GenNext]_vars
GPrint == phase = "agg" =>
  PrintT(<<"BEHAVIOUR", ToJson([p |-> P, n |-> n, same |-> same, bs |-> bs, ck |-> ck, cm |-> cm,
                                 sk |-> sk, sm |-> sm, dl |-> dl])>>)
=============================================================================
