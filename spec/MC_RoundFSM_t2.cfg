SPECIFICATION Spec
CONSTANTS
  Miner = {"m1", "m2", "m3"}
  SelfMiner = "m1"
  Thr = 2
  Cap = 1
  LeakChoices = {FALSE}
  CapDecrChoices = {TRUE}
  SatChoices = {TRUE}
  AtomicSetPhase = TRUE
  Proc = {"p1", "p2"}
  NoProc = "nobody"
  NoOp <- MCNoOp
  OpSet <- TocOps
  Budget <- Budget22
INVARIANTS TypeOK C37_ShareCap C37_NoDeadlock
PROPERTIES C37_ShareOnce C37_FinalizedSticky C37_PhaseMonotone C37_TimeoutMonotone
CHECK_DEADLOCK TRUE
