SPECIFICATION SpecC11
CONSTANTS
  Provider = {"p1", "p2"}
  Client = {"c1", "c2", "own"}
  Delegates = {"c1", "c2", "own"}
  Owner = "own"
  Ord <- OrdC11
  MaxV = 2
  MinLock = 1
  MaxStake = 3
  KillNum = 1
  KillDen = 2
  ShutNum = 1
  ShutDen = 4
  PropTol = 2
  RandNDropsRemainder = FALSE
  ShutDownSavesUnderCaller = FALSE
  Balances = {0}
  MinStakes = {0}
  MaxN = 0
  MaxSteps = 5
  Amounts = {1, 2}
  Funds = 3
INVARIANTS C10_Distribute C11_UnlockPaysExactly C11_PoolAccounting C11_WalletBacks
PROPERTIES C11_LockMovesValue C11_OnlyOwnerUnlocks
CHECK_DEADLOCK FALSE
