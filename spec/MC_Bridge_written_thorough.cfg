SPECIFICATION MCSpec
CONSTANTS
  Client = {"c1", "c2"}
  Eth <- E2
  NoEth = ""
  Auths = {"a1", "a2", "a3"}
  AuthOrder <- Order3
  Stranger = "u1"
  NoAuth = "none"
  InitAuth = {"a1", "a2", "a3"}
  MinBurn = 2
  MinMint = 2
  MinVals <- NoMins
  MaxFee = 1
  MintAmts = {1, 3}
  PctMilli = 700
  MaxBurnNonce = 3
  Staked = {"a1", "a2"}
  Nonces = {0, 1, 2}
  SigSeqs <- Multi4
  BurnVals <- NoVals
  Acceptance = "written"
  CountsUnverified = FALSE
  RewardNeedsStake = TRUE
VIEW StateView
PROPERTIES P_C18_MintQuorum P_C18_ExactThreshold P_C18_NonceOnce P_C18_AmountsUnlessUnstaked P_C19_BurnExact
CHECK_DEADLOCK FALSE
