SPECIFICATION MCSpec
CONSTANTS
  Client = {"c1", "c2"}
  Eth <- E2
  NoEth = ""
  Auths = {"a1", "a2", "a3"}
  AuthOrder <- Order3
  Stranger = "u1"
  NoAuth = "none"
  InitAuth = {"a1", "a2", "a3"}
  MinBurn = 2
  MinMint = 2
  MinVals <- Mins3
  MaxFee = 1
  MintAmts = {1, 3}
  PctMilli = 700
  MaxBurnNonce = 3
  Staked = {"a1", "a2", "a3"}
  Nonces = {0}
  SigSeqs <- NoSeqs
  BurnVals <- Vals4
  Acceptance = "written"
  CountsUnverified = FALSE
  RewardNeedsStake = TRUE
VIEW StateView
PROPERTIES P_C19_BurnExact P_C19_BurnGuard P_C18_NonceOnce
CHECK_DEADLOCK FALSE
