SPECIFICATION TraceSpec
INVARIANTS NoPanic HarnessRange HarnessExact C09_Backed
POSTCONDITION Accepted
CHECK_DEADLOCK FALSE
