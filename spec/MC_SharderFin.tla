---------------------------- MODULE MC_SharderFin ----------------------------
(* Exhaustive configurations of SharderFin: a chain of MCR canonical blocks, one fork block, with the       *)
(* block attributes that matter (transactions, magic block, responsibility of Self) varied over the chain.  *)
EXTENDS SharderFin

MCCanon2 == <<"b1", "b2">>
MCCanon3 == <<"b1", "b2", "b3">>
MCCanon4 == <<"b1", "b2", "b3", "b4">>
MCCanon6 == <<"b1", "b2", "b3", "b4", "b5", "b6">>
MCForks2 == {"f2", "f4"}
MCFork   == {"f2"}
MCNoFork == {}

(* b1: transactions, Self is a replicator; b2: transactions + magic block, Self is NOT a replicator;         *)
(* b3: no transactions, Self is a replicator; b4: transactions, Self is the only replicator                  *)
MCInfo ==
     ("g"  :> [r |-> 0, p |-> "none", ntx |-> 0, hasmb |-> TRUE,  resp |-> TRUE,  others |-> 3])
  @@ ("b1" :> [r |-> 1, p |-> "g",    ntx |-> 2, hasmb |-> FALSE, resp |-> TRUE,  others |-> 1])
  @@ ("b2" :> [r |-> 2, p |-> "b1",   ntx |-> 1, hasmb |-> TRUE,  resp |-> FALSE, others |-> 2])
  @@ ("b3" :> [r |-> 3, p |-> "b2",   ntx |-> 0, hasmb |-> FALSE, resp |-> TRUE,  others |-> 1])
  @@ ("b4" :> [r |-> 4, p |-> "b3",   ntx |-> 1, hasmb |-> FALSE, resp |-> TRUE,  others |-> 1])
  @@ ("b5" :> [r |-> 5, p |-> "b4",   ntx |-> 2, hasmb |-> FALSE, resp |-> FALSE, others |-> 2])
  @@ ("b6" :> [r |-> 6, p |-> "b5",   ntx |-> 0, hasmb |-> FALSE, resp |-> TRUE,  others |-> 1])
  @@ ("f2" :> [r |-> 2, p |-> "b1",   ntx |-> 1, hasmb |-> FALSE, resp |-> TRUE,  others |-> 1])
  @@ ("f4" :> [r |-> 4, p |-> "b3",   ntx |-> 2, hasmb |-> FALSE, resp |-> TRUE,  others |-> 1])
=============================================================================
