------------------------- MODULE Trace_OrderBuffer -------------------------
(***************************************************************************)
(* Trace specification for C46 (ordered block buffer).                     *)
(*                                                                         *)
(* Sequential traces (Reset.mode = "seq"): every line is one call of the   *)
(* REAL orderbuffer.OrderBuffer (Add / First / Pop) with its result and    *)
(* the full contents of the real buffer read back after the call.  The     *)
(* trace action replays the call on the spec's own buffer: `pre` is the    *)
(* buffer before the call, `buf` the buffer after it; the invariants       *)
(* C46_* are OrderBuffer!AddOK / FirstOK / PopOK on (pre, call, buf).      *)
(*                                                                         *)
(* Concurrent traces (mode = "conc"): Call / Ret events of 4 goroutines,   *)
(* ordered by a global atomic ticket taken before the call starts and      *)
(* after it returns, then one Final event with the contents of the buffer. *)
(* The spec lets every pending call take effect atomically at some point   *)
(* between its Call and its Ret: `confs` is the set of ALL abstract        *)
(* configurations (buffer as a bag + linearized-or-not status and result   *)
(* of each pending call) that are consistent with the events consumed so   *)
(* far.  A Ret keeps the configurations in which that call has taken       *)
(* effect with exactly the returned result.  The history is linearizable   *)
(* w.r.t. the sequential specification iff confs never becomes empty.      *)
(***************************************************************************)
EXTENDS TraceLib

\* instantiate the sequential specification's operators (constants unused here)
OB == INSTANCE OrderBuffer WITH Rounds <- {}, Ids <- {}, Caps <- {}, buf <- <<>>, cap <- 0, last <- <<>>

VARIABLES l, ev, mode, cap, pre, buf, confs
vars == <<l, ev, mode, cap, pre, buf, confs>>
Null == [ev |-> "none"]

G == 1..4                                  \* goroutines of a concurrent trace
Idle == [st |-> "idle", op |-> "none", x |-> 0, ok |-> FALSE, item |-> 0]
InitConf == [b |-> <<>>, p |-> [g \in G |-> Idle]]

TraceInit == l = 1 /\ ev = Null /\ mode = "seq" /\ cap = 0 /\ pre = <<>> /\ buf = <<>> /\ confs = {InitConf}

IsEvent(e) == l <= Len(Trace) /\ Trace[l].ev = e /\ l' = l + 1

Item(e) == [r |-> e.r, d |-> e.d]
ItemSeq(s) == [i \in DOMAIN s |-> [r |-> s[i].r, d |-> s[i].d]]

-----------------------------------------------------------------------------
(* Bags of items as canonical sequences of integer keys (round major).      *)
K == 1000
Key(it) == it.r * K + it.d
KRound(k) == k \div K
RECURSIVE KInsert(_, _)
KInsert(s, k) == IF s = <<>> THEN <<k>>
                 ELSE IF k <= Head(s) THEN <<k>> \o s ELSE <<Head(s)>> \o KInsert(Tail(s), k)
RECURSIVE KCanon(_, _)
KCanon(s, i) == IF i > Len(s) THEN <<>> ELSE KInsert(KCanon(s, i + 1), Key(s[i]))
KHas(s, k) == \E i \in DOMAIN s : s[i] = k

(* All outcomes the sequential specification allows for one call on bag b:  *)
(* a set of [b |-> bag after, ok |-> , item |-> key returned (0 = none)]    *)
SeqOutcomes(b, op, x) ==
  IF op = "Add" THEN
     LET ins == KInsert(b, x)
         mx == KRound(ins[Len(ins)])
     IN  (IF KHas(b, x) THEN {[b |-> b, ok |-> TRUE, item |-> 0]} ELSE {})      \* exact repeat dropped
         \cup (IF Len(b) < cap THEN {[b |-> ins, ok |-> TRUE, item |-> 0]}
               ELSE {[b |-> OB!RemoveAt(ins, i), ok |-> TRUE, item |-> 0] : i \in {j \in DOMAIN ins : KRound(ins[j]) = mx}})
  ELSE IF b = <<>> THEN {[b |-> b, ok |-> FALSE, item |-> 0]}
  ELSE LET lows == {j \in DOMAIN b : KRound(b[j]) = KRound(b[1])} IN
       IF op = "First" THEN {[b |-> b, ok |-> TRUE, item |-> b[i]] : i \in lows}
       ELSE {[b |-> OB!RemoveAt(b, i), ok |-> TRUE, item |-> b[i]] : i \in lows}

LinOne(c, g) == {[b |-> o.b, p |-> [c.p EXCEPT ![g] = [@ EXCEPT !.st = "done", !.ok = o.ok, !.item = o.item]]]
                   : o \in SeqOutcomes(c.b, c.p[g].op, c.p[g].x)}
RECURSIVE Closure(_)
LinAny(c) == UNION {LinOne(c, g) : g \in {h \in G : c.p[h].st = "pending"}}
Closure(C) == LET N == C \cup UNION {LinAny(c) : c \in C}
              IN IF N = C THEN C ELSE Closure(N)

-----------------------------------------------------------------------------
TraceReset ==
  /\ IsEvent("Reset")
  /\ ev' = Null /\ mode' = Trace[l].mode /\ cap' = Trace[l].cap
  /\ pre' = <<>> /\ buf' = <<>> /\ confs' = {InitConf}

TraceSeqOp ==                              \* Add / First / Pop of a sequential trace
  /\ l <= Len(Trace) /\ Trace[l].ev \in {"Add", "First", "Pop"} /\ l' = l + 1
  /\ ev' = Trace[l]
  /\ pre' = buf /\ buf' = ItemSeq(Trace[l].buf)
  /\ UNCHANGED <<mode, cap, confs>>

TraceCall ==
  /\ IsEvent("Call")
  /\ LET e == Trace[l] IN
       /\ ev' = e
       /\ confs' = {[c EXCEPT !.p[e.g] = [st |-> "pending", op |-> e.op, x |-> Key(Item(e)), ok |-> FALSE, item |-> 0]] : c \in confs}
  /\ UNCHANGED <<mode, cap, pre, buf>>

TraceRet ==
  /\ IsEvent("Ret")
  /\ LET e == Trace[l] IN
       /\ ev' = e
       /\ confs' = {[c EXCEPT !.p[e.g] = Idle] :
                      c \in {d \in Closure(confs) : /\ d.p[e.g].st = "done"
                                                    /\ d.p[e.g].ok = e.ok
                                                    /\ d.p[e.g].item = (IF e.ok /\ e.op # "Add" THEN Key(Item(e)) ELSE 0)}}
  /\ UNCHANGED <<mode, cap, pre, buf>>

TraceFinal ==                              \* all goroutines joined: the real contents
  /\ IsEvent("Final")
  /\ ev' = Trace[l]
  /\ pre' = buf /\ buf' = ItemSeq(Trace[l].buf)
  /\ confs' = {c \in confs : c.b = KCanon(ItemSeq(Trace[l].buf), 1)}
  /\ UNCHANGED <<mode, cap>>

TraceSkip ==
  /\ l <= Len(Trace) /\ Trace[l].ev \notin {"Reset", "Add", "First", "Pop", "Call", "Ret", "Final"}
  /\ l' = l + 1 /\ ev' = Null
  /\ UNCHANGED <<mode, cap, pre, buf, confs>>

TraceNext == TraceReset \/ TraceSeqOp \/ TraceCall \/ TraceRet \/ TraceFinal \/ TraceSkip
TraceSpec == TraceInit /\ [][TraceNext]_vars

-----------------------------------------------------------------------------
IsOp(o) == ev.ev = o
Observed == ev.ev \in {"Add", "First", "Pop", "Final"}    \* events that carry the real contents
NoPanic == ev.ev \in {"Add", "First", "Pop", "Ret"} => ~ev.panic

(* C46, evaluated on every recorded state of the real buffer.               *)
Raw_C46_Sorted == Observed => OB!IsSorted(buf)
Raw_C46_Capacity == Observed => Len(buf) <= cap
Raw_C46_LowestFirst ==
  /\ IsOp("First") => OB!FirstOK(pre, ev.ok, Item(ev.item), buf)
  /\ IsOp("Pop") => OB!PopOK(pre, ev.ok, Item(ev.item), buf)
Raw_C46_AddDropsOnlyHighest == IsOp("Add") => ev.ok /\ OB!AddOK(pre, Item(ev), buf, cap)
Raw_C46_RepeatIgnored == (IsOp("Add") /\ OB!MustIgnore(pre, Item(ev))) => OB!SameBag(buf, pre)
Raw_C46_Linearizable == confs # {}
(* events marked by bin/vcheck as instances of a listed known finding are consumed, not judged *)
C46_Sorted == IsKnown(ev) \/ Raw_C46_Sorted
C46_Capacity == IsKnown(ev) \/ Raw_C46_Capacity
C46_LowestFirst == IsKnown(ev) \/ Raw_C46_LowestFirst
C46_AddDropsOnlyHighest == IsKnown(ev) \/ Raw_C46_AddDropsOnlyHighest
C46_RepeatIgnored == IsKnown(ev) \/ Raw_C46_RepeatIgnored
C46_Linearizable == IsKnown(ev) \/ Raw_C46_Linearizable
=============================================================================
