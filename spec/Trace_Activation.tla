-------------------------- MODULE Trace_Activation --------------------------
(***************************************************************************)
(* Trace specification for C43.  Events of a trace (one real world block   *)
(* state per trace):                                                       *)
(*  Record  name, round, by, res   minersc add_hardfork through the real   *)
(*                                 Chain.UpdateState (res = ok | rejected) *)
(*  Probe   name, round, branch    real WithActivation on a state context  *)
(*          known, gated           whose block has that round: which       *)
(*                                 closure ran; known = GetRoundByName     *)
(*                                 found it; gated = which formula the     *)
(*                                 real stakepool.getRandPools used        *)
(*          ctx                    ctx = "same": looked up in the state    *)
(*                                 context of the previous probe (one      *)
(*                                 transaction), "new": a new transaction  *)
(*  Cold                           the block is sealed, the node restarts: *)
(*                                 the following block runs on an empty    *)
(*                                 state cache (recorded forks persist)    *)
(* Rounds are logged relative to the trace's base round.                   *)
(* Tracked: fork = what the accepted Record events recorded.               *)
(***************************************************************************)
EXTENDS TraceLib
VARIABLES l, ev, fork
vars == <<l, ev, fork>>
Null == [ev |-> "none"]
IsEvent(e) == l <= Len(Trace) /\ Trace[l].ev = e /\ l' = l + 1
TraceInit == l = 1 /\ ev = Null /\ fork = <<>>
TraceReset == IsEvent("Reset") /\ ev' = Null /\ fork' = <<>>
TraceRecord == /\ IsEvent("Record") /\ ev' = Trace[l]
               /\ fork' = IF Trace[l].res = "ok" THEN Put(fork, Trace[l].name, Trace[l].round) ELSE fork
TraceProbe == IsEvent("Probe") /\ ev' = Trace[l] /\ UNCHANGED fork
TraceCold == IsEvent("Cold") /\ ev' = Trace[l] /\ UNCHANGED fork
TraceSkip == l <= Len(Trace) /\ Trace[l].ev \notin {"Reset", "Record", "Probe", "Cold"} /\ l' = l + 1 /\ ev' = Null /\ UNCHANGED fork
TraceNext == TraceReset \/ TraceRecord \/ TraceProbe \/ TraceCold \/ TraceSkip
TraceSpec == TraceInit /\ [][TraceNext]_vars

IsProbe == ev.ev = "Probe"
Recorded == ev.name \in DOMAIN fork
(* a fork that was never recorded keeps the pre-fork rules *)
C43_MissingFork == (IsProbe /\ ~Recorded) => ev.branch = "before" /\ ev.gated \in {"before", "same"}
(* pre-fork rules for every block before the recorded round *)
C43_BeforeFork == (IsProbe /\ Recorded /\ ev.round < fork[ev.name]) => ev.branch = "before" /\ ev.gated \in {"before", "same"}
(* post-fork rules from that round on *)
C43_AfterFork == (IsProbe /\ Recorded /\ ev.round >= fork[ev.name]) => ev.branch = "after" /\ ev.gated \in {"after", "same"}
(* only the owner's add_hardfork records a fork *)
C43_OnlyOwnerRecords == (ev.ev = "Record" /\ ev.by # "owner") => ev.res = "rejected"
HarnessRecordWorks == (ev.ev = "Record" /\ ev.by = "owner") => ev.res = "ok"
=============================================================================
