SPECIFICATION Spec
CONSTANTS
  Blocks <- MCBlocks
  UpdateStoresGiven = TRUE
  MaxOps = 6
INVARIANTS C35_OnePerRank C35_HeaviestFirst C35_AddStores C35_UpdateReplaces OneEntryPerHash
CHECK_DEADLOCK FALSE
