SPECIFICATION TraceSpec
INVARIANTS HarnessOpOk C07_CacheAgreesWithTrie C07_MutateInvisible C07_NoResidue
POSTCONDITION Accepted
CHECK_DEADLOCK FALSE
