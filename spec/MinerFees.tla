------------------------------ MODULE MinerFees ------------------------------
(***************************************************************************)
(* Block fees and rewards of the miner contract (minersc/fees.go payFees,  *)
(* models.go splitByShareRatio, fees.go payShardersAndDelegates) at the    *)
(* level of providers: which miner / sharder stake pool is paid how much.  *)
(* The split of one provider's amount over its delegates is C10's          *)
(* (StakePool.tla).  "Once per round" is where the code has it: block      *)
(* validation (miner/protocol_block.go ValidateTransactions) rejects a     *)
(* block with two built-in payFees transactions; the contract itself would *)
(* pay again.                                                              *)
(***************************************************************************)
EXTENDS MinerFeesOps

CONSTANTS Miner, Sharder,      \* registered, live, sufficiently staked providers
          MaxFee,              \* fee totals 0..MaxFee
          Reward,              \* block reward
          Ratios,              \* set of <<num, den>> share ratios
          NSh,                 \* sharders rewarded per block
          MaxBlocks

VARIABLES mrew, srew,          \* accumulated rewards of the stake pools
          ratio,               \* the share ratio of this behaviour
          blk,                 \* the block being built: [round, gen, fees, npay]
          verdict,             \* verdict of block validation on the last sealed block: "none" | "valid" | "invalid"
          last                 \* the last payFees call
vars == <<mrew, srew, ratio, blk, verdict, last>>

NoBlock == [round |-> 0, gen |-> "none", fees |-> 0, npay |-> 0]
Init == /\ mrew = [m \in Miner |-> 0] /\ srew = [s \in Sharder |-> 0]
        /\ ratio \in Ratios /\ blk = NoBlock /\ verdict = "none" /\ last = [kind |-> "none"]

\* a block of the next round by some generator with some fee-paying transactions
NewBlock(g, f) ==
  /\ blk.round < MaxBlocks
  /\ blk' = [round |-> blk.round + 1, gen |-> g, fees |-> f, npay |-> 0]
  /\ verdict' = "none" /\ last' = [kind |-> "none"]
  /\ UNCHANGED <<mrew, srew, ratio>>

Floor(x, r) == (x * r[1]) \div r[2]                       \* splitByShareRatio
\* payShardersAndDelegates: x \div n to each of the n chosen sharders, one more unit to l = x % n of them
ShareOut(x, T, X) == [s \in Sharder |-> IF s \in T THEN x \div Cardinality(T) + (IF s \in X THEN 1 ELSE 0) ELSE 0]
Splits(x, T) == {ShareOut(x, T, X) : X \in {Y \in SUBSET T : Cardinality(Y) = x % Cardinality(T)}}

PayFees(caller, r) ==
  /\ blk.round > 0 /\ verdict = "none"                     \* the block is still being built
  /\ IF caller = blk.gen /\ r = blk.round                  \* fees.go:271-282
       THEN LET mf == Floor(blk.fees, ratio)  sf == blk.fees - mf
                mr == Floor(Reward, ratio)    sr == Reward - mr
                k == IF NSh < Cardinality(Sharder) THEN NSh ELSE Cardinality(Sharder)
            IN \E T \in {U \in SUBSET Sharder : Cardinality(U) = k} :         \* the RNG's choice
                 \E a \in Splits(sf, T), b \in Splits(sr, T) :
                    /\ mrew' = [mrew EXCEPT ![caller] = @ + mf + mr]
                    /\ srew' = [s \in Sharder |-> srew[s] + a[s] + b[s]]
                    /\ last' = [kind |-> "pay", ok |-> TRUE, caller |-> caller, r |-> r, F |-> blk.fees,
                                minc |-> [m \in Miner |-> IF m = caller THEN mf + mr ELSE 0],
                                sinc |-> [s \in Sharder |-> a[s] + b[s]]]
                    /\ blk' = [blk EXCEPT !.npay = @ + 1]
       ELSE /\ UNCHANGED <<mrew, srew>>
            /\ last' = [kind |-> "pay", ok |-> FALSE, caller |-> caller, r |-> r, F |-> blk.fees,
                        minc |-> [m \in Miner |-> 0], sinc |-> [s \in Sharder |-> 0]]
            /\ blk' = blk
  /\ UNCHANGED <<ratio, verdict>>

\* ValidateTransactions: duplicate built-in transactions make the block invalid
ValidateBlock ==
  /\ blk.round > 0 /\ verdict = "none"
  /\ verdict' = IF blk.npay <= 1 THEN "valid" ELSE "invalid"
  /\ last' = [kind |-> "none"]
  /\ UNCHANGED <<mrew, srew, ratio, blk>>

Next == \/ \E g \in Miner, f \in 0..MaxFee : NewBlock(g, f)
        \/ \E c \in Miner, r \in 0..MaxBlocks : PayFees(c, r)
        \/ ValidateBlock
Spec == Init /\ [][Next]_vars

-----------------------------------------------------------------------------
IsPay == last.kind = "pay"
C22_Exact == (IsPay /\ last.ok) => OblExact(last.F, Reward, last.minc, last.sinc)
C22_Split == (IsPay /\ last.ok) => /\ OblMinerSide(last.F, Reward, ratio[1], ratio[2], last.minc)
                                   /\ OblSharderSide(NSh, last.sinc)
                                   /\ OblNoMint(last.F, Reward, last.minc, last.sinc)
C22_OnlyGenerator == IsPay => /\ last.ok => (last.caller = blk.gen /\ last.r = blk.round)
                              /\ ~last.ok => OblRejected(last.minc, last.sinc)
C22_OncePerRound == verdict = "valid" => blk.npay <= 1
\* the accumulated rewards are exactly what the valid blocks brought in (history form of exactness)
=============================================================================
