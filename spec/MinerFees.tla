------------------------------ MODULE MinerFees ------------------------------
(***************************************************************************)
(* Block fees and rewards of the miner contract (minersc/fees.go payFees   *)
(* and sumFee, models.go splitByShareRatio, fees.go                        *)
(* payShardersAndDelegates): what a block's transactions bring in, and, at *)
(* the level of providers, which miner / sharder stake pool is paid how much.  *)
(* The split of one provider's amount over its delegates is C10's          *)
(* (StakePool.tla).  "Once per round" is where the code has it: block      *)
(* validation (miner/protocol_block.go ValidateTransactions) rejects a     *)
(* block with two built-in payFees transactions; the contract itself would *)
(* pay again.                                                              *)
(***************************************************************************)
EXTENDS MinerFeesOps

CONSTANTS Miner, Sharder,      \* registered, live, sufficiently staked providers
          MaxFee,              \* fee totals 0..MaxFee
          MaxTxns,             \* fee-carrying transactions per block
          MinFee,              \* minimum fee of a transaction whose function is not fee-exempt
          Reward,              \* block reward
          Ratios,              \* set of <<num, den>> share ratios
          NSh,                 \* sharders rewarded per block
          MaxBlocks,
          SkipExempt           \* FALSE = the code: sumFee adds the fee of EVERY transaction of the block.
                               \* TRUE = a design in which payFees leaves the fee-exempt functions out: TLC
                               \* then exhibits the loss (MC_MinerFees_skipexempt_demo.cfg violates C22_Exact)

VARIABLES mrew, srew,          \* accumulated rewards of the stake pools
          ratio,               \* the share ratio of this behaviour
          blk,                 \* the block being built: [round, gen, fees, sumfee, npay]
          verdict,             \* verdict of block validation on the last sealed block: "none" | "valid" | "invalid"
          last                 \* the last payFees call
vars == <<mrew, srew, ratio, blk, verdict, last>>

-----------------------------------------------------------------------------
(* The fee-carrying transactions of a block.  A transaction is [kind, fee]:  *)
(*   send / data   plain transfers and data transactions                     *)
(*   scok / scfail a contract call that succeeds / fails (chargeable error:  *)
(*                 its state changes are dropped, its fee is still charged)  *)
(*   exempt        a call of a function on the chain's fee-exempt list       *)
(*                 (contributeMpk, shareSignsOrShares, wait, pour)           *)
(* Exemption waives the MINIMUM fee only (transaction.ValidateFee): an       *)
(* exempt call may offer any fee, 0 included, and a fee that is offered is   *)
(* moved to the miner contract's address by Chain.updateState exactly like   *)
(* the fee of any other transaction, whatever the outcome of the call.       *)
TxKind == {"send", "data", "scok", "scfail", "exempt"}
Tx == [kind : TxKind, fee : 0..MaxFee]
IsExempt(tx) == tx.kind = "exempt"
Admissible(txs) == \A i \in DOMAIN txs : IsExempt(txs[i]) \/ txs[i].fee >= MinFee
RECURSIVE SumFrom(_, _, _)
SumFrom(txs, i, skipExempt) == IF i > Len(txs) THEN 0
                               ELSE (IF skipExempt /\ IsExempt(txs[i]) THEN 0 ELSE txs[i].fee) + SumFrom(txs, i + 1, skipExempt)
\* what Chain.updateState collects on the miner contract's address while the block executes (chain/state.go)
Charged(txs) == SumFrom(txs, 1, FALSE)
\* what payFees distributes (minersc/fees.go sumFee)
SumFee(txs) == SumFrom(txs, 1, SkipExempt)
Blocks == {txs \in UNION {[1..n -> Tx] : n \in 0..MaxTxns} : Admissible(txs) /\ Charged(txs) <= MaxFee}

NoBlock == [round |-> 0, gen |-> "none", fees |-> 0, sumfee |-> 0, npay |-> 0]
Init == /\ mrew = [m \in Miner |-> 0] /\ srew = [s \in Sharder |-> 0]
        /\ ratio \in Ratios /\ blk = NoBlock /\ verdict = "none" /\ last = [kind |-> "none"]

\* a block of the next round by some generator with some fee-carrying transactions; only the two totals
\* matter to what follows, so the state keeps them and not the list
NewBlock(g, txs) ==
  /\ blk.round < MaxBlocks
  /\ blk' = [round |-> blk.round + 1, gen |-> g, fees |-> Charged(txs), sumfee |-> SumFee(txs), npay |-> 0]
  /\ verdict' = "none" /\ last' = [kind |-> "none"]
  /\ UNCHANGED <<mrew, srew, ratio>>

Floor(x, r) == (x * r[1]) \div r[2]                       \* splitByShareRatio
\* payShardersAndDelegates: x \div n to each of the n chosen sharders, one more unit to l = x % n of them
ShareOut(x, T, X) == [s \in Sharder |-> IF s \in T THEN x \div Cardinality(T) + (IF s \in X THEN 1 ELSE 0) ELSE 0]
Splits(x, T) == {ShareOut(x, T, X) : X \in {Y \in SUBSET T : Cardinality(Y) = x % Cardinality(T)}}

PayFees(caller, r) ==
  /\ blk.round > 0 /\ verdict = "none"                     \* the block is still being built
  /\ IF caller = blk.gen /\ r = blk.round                  \* fees.go:271-282
       THEN LET mf == Floor(blk.sumfee, ratio)  sf == blk.sumfee - mf
                mr == Floor(Reward, ratio)    sr == Reward - mr
                k == IF NSh < Cardinality(Sharder) THEN NSh ELSE Cardinality(Sharder)
            IN \E T \in {U \in SUBSET Sharder : Cardinality(U) = k} :         \* the RNG's choice
                 \E a \in Splits(sf, T), b \in Splits(sr, T) :
                    /\ mrew' = [mrew EXCEPT ![caller] = @ + mf + mr]
                    /\ srew' = [s \in Sharder |-> srew[s] + a[s] + b[s]]
                    /\ last' = [kind |-> "pay", ok |-> TRUE, caller |-> caller, r |-> r, F |-> blk.fees,
                                minc |-> [m \in Miner |-> IF m = caller THEN mf + mr ELSE 0],
                                sinc |-> [s \in Sharder |-> a[s] + b[s]]]
                    /\ blk' = [blk EXCEPT !.npay = @ + 1]
       ELSE /\ UNCHANGED <<mrew, srew>>
            /\ last' = [kind |-> "pay", ok |-> FALSE, caller |-> caller, r |-> r, F |-> blk.fees,
                        minc |-> [m \in Miner |-> 0], sinc |-> [s \in Sharder |-> 0]]
            /\ blk' = blk
  /\ UNCHANGED <<ratio, verdict>>

\* ValidateTransactions: duplicate built-in transactions make the block invalid
ValidateBlock ==
  /\ blk.round > 0 /\ verdict = "none"
  /\ verdict' = IF blk.npay <= 1 THEN "valid" ELSE "invalid"
  /\ last' = [kind |-> "none"]
  /\ UNCHANGED <<mrew, srew, ratio, blk>>

Next == \/ \E g \in Miner, txs \in Blocks : NewBlock(g, txs)
        \/ \E c \in Miner, r \in 0..MaxBlocks : PayFees(c, r)
        \/ ValidateBlock
Spec == Init /\ [][Next]_vars

-----------------------------------------------------------------------------
IsPay == last.kind = "pay"
C22_Exact == (IsPay /\ last.ok) => OblExact(last.F, Reward, last.minc, last.sinc)
C22_Split == (IsPay /\ last.ok) => /\ OblMinerSide(last.F, Reward, ratio[1], ratio[2], last.minc)
                                   /\ OblSharderSide(NSh, last.sinc)
                                   /\ OblNoMint(last.F, Reward, last.minc, last.sinc)
C22_OnlyGenerator == IsPay => /\ last.ok => (last.caller = blk.gen /\ last.r = blk.round)
                              /\ ~last.ok => OblRejected(last.minc, last.sinc)
C22_OncePerRound == verdict = "valid" => blk.npay <= 1
\* the accumulated rewards are exactly what the valid blocks brought in (history form of exactness)
=============================================================================
