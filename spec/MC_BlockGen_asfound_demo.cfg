SPECIFICATION Spec
CONSTANTS
  Sender = {"s1", "s2"}
  MaxNonce = 2
  StateNonce = {0}
  MaxCost = 8
  BuiltIn <- MCBuiltIn
  BiName = "payFees"
  Class = {"ok", "bi"}
  MaxPool = 2
  FilterBuiltins = FALSE
VIEW View
INVARIANTS NoDuplicate ConsecutiveNonces CostLimit BuiltinsOnce VerifierAgrees
CHECK_DEADLOCK FALSE
