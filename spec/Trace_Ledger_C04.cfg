SPECIFICATION TraceSpec
INVARIANTS NoPanic HarnessRange C04_DebitAuth
POSTCONDITION Accepted
CHECK_DEADLOCK FALSE
