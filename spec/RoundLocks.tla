----------------------------- MODULE RoundLocks -----------------------------
(***************************************************************************)
(* C44: the lock / step view of the exported operations of round.Round     *)
(* (chaincore/round/entity.go), block.Block (chaincore/block/entity.go)    *)
(* and of the worker pool of miner.Chain.ValidateTransactions              *)
(* (miner/protocol_block.go), hand-written from the source.                *)
(*                                                                         *)
(* Every operation is the sequence of its steps AS IN THE SOURCE; a step   *)
(* is a mutex step, a channel step or a memory access                      *)
(*      [k |-> "acc", x |-> location, m |-> "R" | "W", at |-> atomic?]     *)
(* A scenario is a tuple of operations, one per process, on the same       *)
(* object; TLC interleaves them at step granularity.                       *)
(*   Race == two processes are both about to access the same location,     *)
(*           at least one writes, not both atomically                      *)
(* (a process inside a write-locked section excludes every other process   *)
(* from the sections of that mutex, a read-locked one only the writers;    *)
(* a channel receive is enabled only after the send: happens-before).      *)
(*                                                                         *)
(* The code as found leaves the intended discipline (every shared location *)
(* accessed under its mutex or atomically) in eight groups of accesses:    *)
(*   getnb    Round.GetNotarizedBlocks returns the slice without r.mutex   *)
(*   pbslice  the slice returned by Round.GetProposedBlocks is walked by   *)
(*            its callers after the read lock is released                  *)
(*   rclone   Round.Clone reads atomically-written fields plainly and the  *)
(*            timeout counter without its mutex                            *)
(*   bstate   Block.SetBlockState / GetBlockState use no mutex             *)
(*   vstatus  Block.SetVerificationStatus / GetVerificationStatus: none    *)
(*   bclone   Block.Clone reads ticket / status / state fields outside     *)
(*            their mutexes                                                *)
(*   bsummary Block.GetSummary reads state-hash / previous-block fields    *)
(*            outside their mutexes                                        *)
(*   vt       ValidateTransactions: plain cancel / roundMismatch flags     *)
(* FixedGroups = the groups repaired in the code being described (all of   *)
(* them = the intended design).  Deviation lists the accesses of the       *)
(* groups NOT repaired; RaceOnlyAtDeviation says every race involves one.  *)
(* On the real code the observer of a race is the Go race detector: every  *)
(* scenario is executed concurrently on real objects (harness/drivers/     *)
(* races); this model enumerates the scenarios and predicts the verdict.   *)
(***************************************************************************)
EXTENDS Integers, Sequences, FiniteSets, TLC

CONSTANTS FixedGroups, Scenarios

L(m)  == [k |-> "lock",    x |-> m, m |-> "W", at |-> FALSE]
U(m)  == [k |-> "unlock",  x |-> m, m |-> "W", at |-> FALSE]
RL(m) == [k |-> "rlock",   x |-> m, m |-> "R", at |-> FALSE]
RU(m) == [k |-> "runlock", x |-> m, m |-> "R", at |-> FALSE]
Rd(f) == [k |-> "acc", x |-> f, m |-> "R", at |-> FALSE]
Wr(f) == [k |-> "acc", x |-> f, m |-> "W", at |-> FALSE]
ARd(f) == [k |-> "acc", x |-> f, m |-> "R", at |-> TRUE]
AWr(f) == [k |-> "acc", x |-> f, m |-> "W", at |-> TRUE]
Snd(c) == [k |-> "send", x |-> c, m |-> "W", at |-> FALSE]
Rcv(c) == [k |-> "recv", x |-> c, m |-> "R", at |-> FALSE]

Locked(m, body)  == <<L(m)>> \o body \o <<U(m)>>
RLocked(m, body) == <<RL(m)>> \o body \o <<RU(m)>>
Groups == {"getnb", "pbslice", "rclone", "bstate", "vstatus", "bclone", "bsummary", "vt"}
Fx(g) == g \in FixedGroups
\* a location a deviating group reads plainly and the intended design reads atomically
PlainOrAtomic(g, f) == IF Fx(g) THEN ARd(f) ELSE Rd(f)

-----------------------------------------------------------------------------
(* round.Round: mutex rm (RWMutex), timeoutCounter.mutex tcm                *)
\* addProposedBlock: scans, replaces or appends, sorts by rank (moves elements)
AddProposed == <<Rd("r.pb"), Rd("r.pb.el"), Wr("r.pb"), Wr("r.pb.el")>>
\* timeoutCounter fields as read by Clone (the votes map itself is shared with the clone, not copied)
CloneTC == <<Rd("r.tc.prrs"), Rd("r.tc.perm"), Rd("r.tc.count"), Rd("r.tc.votes")>>

RoundOp(o) ==
  CASE o = "R.GetNotarizedBlocks" ->
         IF Fx("getnb") THEN RLocked("rm", <<Rd("r.nb")>>) ELSE <<Rd("r.nb")>>       \* returns the slice without the lock
    [] o = "R.AddNotarizedBlock" ->
         Locked("rm", AddProposed \o <<Rd("r.nb"), ARd("r.phase"), AWr("r.phase"), Rd("r.Block"), Wr("r.Block"), Wr("r.nb")>>)
    [] o = "R.UpdateNotarizedBlock" -> Locked("rm", <<Rd("r.pb"), Rd("r.pb.el"), Wr("r.pb.el"), Rd("r.nb")>>)
    [] o = "R.AddProposedBlock" -> Locked("rm", AddProposed)
    [] o = "R.GetProposedBlocks+range" ->
         \* the slice escapes the read lock: the caller walks the shared backing array
         IF Fx("pbslice") THEN RLocked("rm", <<Rd("r.pb"), Rd("r.pb.el")>>) ELSE RLocked("rm", <<Rd("r.pb")>>) \o <<Rd("r.pb.el")>>
    [] o = "R.GetHeaviestNotarizedBlock" -> RLocked("rm", <<Rd("r.nb")>>)
    [] o = "R.GetBestRankedNotarizedBlock" -> RLocked("rm", <<Rd("r.nb")>>)    \* sorts an already rank-sorted slice: nothing moves
    [] o = "R.GetBestRankedProposedBlock" -> RLocked("rm", <<Rd("r.pb"), Rd("r.pb.el")>>)
    [] o = "R.Finalize" -> Locked("rm", <<Wr("r.fin"), Wr("r.Block"), Wr("r.BlockHash")>>)
    [] o = "R.GetBlockHash" -> Locked("rm", <<Rd("r.BlockHash")>>)
    [] o = "R.SetFinalizing" -> Locked("rm", <<Rd("r.fin"), Wr("r.fin")>>)
    [] o = "R.SetFinalized" -> Locked("rm", <<Wr("r.fin")>>)
    [] o = "R.ResetFinalizingState" -> Locked("rm", <<Rd("r.BlockHash"), Wr("r.fin")>>)
    [] o = "R.ResetFinalizingStateIfNotFinalized" -> Locked("rm", <<Rd("r.fin"), Wr("r.fin")>>)
    [] o = "R.IsFinalizing" -> RLocked("rm", <<Rd("r.fin")>>)
    [] o = "R.IsFinalized" -> RLocked("rm", <<Rd("r.fin")>>)
    [] o = "R.FinalizeState" -> RLocked("rm", <<Rd("r.fin")>>)
    [] o = "R.SetRandomSeed" -> <<ARd("r.seed")>> \o Locked("rm", <<Wr("r.minerPerm")>>) \o <<AWr("r.seed")>>
    [] o = "R.SetRandomSeedForNotarizedBlock" -> Locked("rm", <<Wr("r.minerPerm")>>) \o <<AWr("r.seed")>>
    [] o = "R.GetRandomSeed" -> <<ARd("r.seed")>>
    [] o = "R.HasRandomSeed" -> <<ARd("r.seed")>>
    [] o = "R.SetVRFOutput" -> Locked("rm", <<Wr("r.VRFOutput")>>)
    [] o = "R.GetVRFOutput" -> RLocked("rm", <<Rd("r.VRFOutput")>>)
    [] o = "R.IsRanksComputed" -> RLocked("rm", <<Rd("r.minerPerm")>>)
    [] o = "R.GetMinerRank" -> RLocked("rm", <<Rd("r.minerPerm")>>)
    [] o = "R.Restart" ->
         Locked("rm", <<ARd("r.phase"), Wr("r.nb"), Wr("r.pb"), Wr("r.shares"), AWr("r.seed"), Wr("r.Block"), AWr("r.stoc"), AWr("r.phase")>>)
    [] o = "R.AddVRFShare" -> Locked("rm", <<Rd("r.shares"), ARd("r.phase"), Wr("r.shares")>>)
    [] o = "R.VRFShareExist" -> Locked("rm", <<Rd("r.shares")>>)
    [] o = "R.GetVRFShares" -> RLocked("rm", <<Rd("r.shares")>>)
    [] o = "R.GetPhase" -> <<ARd("r.phase")>>
    [] o = "R.SetPhase" -> <<ARd("r.phase"), AWr("r.phase")>>
    [] o = "R.ResetPhase" -> <<AWr("r.phase")>>
    [] o = "R.IncSoftTimeoutCount" -> <<AWr("r.stoc")>>
    [] o = "R.GetSoftTimeoutCount" -> <<ARd("r.stoc")>>
    [] o = "R.SetVrfStartTime" -> <<AWr("r.vrfStart")>>
    [] o = "R.GetVrfStartTime" -> <<ARd("r.vrfStart")>>
    [] o = "R.AddTimeoutVote" -> Locked("tcm", <<Rd("r.tc.votes"), Wr("r.tc.votes.el")>>)    \* writes INTO the map
    [] o = "R.IncrementTimeoutCount" ->
         Locked("tcm", <<Rd("r.tc.votes"), Rd("r.tc.votes.el"), Rd("r.tc.perm"), Wr("r.tc.prrs"), Wr("r.tc.perm"), Rd("r.tc.count"), Wr("r.tc.votes"), Wr("r.tc.count")>>)
    [] o = "R.SetTimeoutCount" -> Locked("tcm", <<Rd("r.tc.count"), Wr("r.tc.count")>>)
    [] o = "R.GetTimeoutCount" -> Locked("tcm", <<Rd("r.tc.count")>>)
    [] o = "R.Clone" ->
         \* copies the struct under r.mutex only: atomically-written fields are read plainly and
         \* the timeout counter is read without its own mutex
         RLocked("rm", <<Rd("r.minerPerm"), Rd("r.pb"), Rd("r.pb.el"), Rd("r.nb"), Rd("r.shares"), PlainOrAtomic("rclone", "r.seed"),
                         Rd("r.Block"), Rd("r.BlockHash"), Rd("r.VRFOutput"), PlainOrAtomic("rclone", "r.phase"), Rd("r.fin"),
                         PlainOrAtomic("rclone", "r.stoc"), PlainOrAtomic("rclone", "r.vrfStart")>>
                       \o (IF Fx("rclone") THEN Locked("tcm", CloneTC) ELSE CloneTC))

RoundOps == {"R.GetNotarizedBlocks", "R.AddNotarizedBlock", "R.UpdateNotarizedBlock", "R.AddProposedBlock",
  "R.GetProposedBlocks+range", "R.GetHeaviestNotarizedBlock", "R.GetBestRankedNotarizedBlock", "R.GetBestRankedProposedBlock",
  "R.Finalize", "R.GetBlockHash", "R.SetFinalizing", "R.SetFinalized", "R.ResetFinalizingState",
  "R.ResetFinalizingStateIfNotFinalized", "R.IsFinalizing", "R.IsFinalized", "R.FinalizeState", "R.SetRandomSeed",
  "R.SetRandomSeedForNotarizedBlock", "R.GetRandomSeed", "R.HasRandomSeed", "R.SetVRFOutput", "R.GetVRFOutput",
  "R.IsRanksComputed", "R.GetMinerRank", "R.Restart", "R.AddVRFShare", "R.VRFShareExist", "R.GetVRFShares", "R.GetPhase",
  "R.SetPhase", "R.ResetPhase", "R.IncSoftTimeoutCount", "R.GetSoftTimeoutCount", "R.SetVrfStartTime", "R.GetVrfStartTime",
  "R.AddTimeoutVote", "R.IncrementTimeoutCount", "R.SetTimeoutCount", "R.GetTimeoutCount", "R.Clone"}

-----------------------------------------------------------------------------
(* block.Block: ticketsMutex tm, stateStatusMutex ssm, stateMutex sm,       *)
(* mutexTxns txm, uniqueBlockExtMutex ubm                                   *)
\* a location the written code accesses with no synchronisation; the intended design puts it under mutex m
Bare(g, m, body) == IF Fx(g) THEN Locked(m, body) ELSE body
BareR(g, m, body) == IF Fx(g) THEN RLocked(m, body) ELSE body

BlockOp(o) ==
  CASE o = "B.AddVerificationTicket" -> Locked("tm", <<Rd("b.vt"), Wr("b.vt")>>)
    [] o = "B.MergeVerificationTickets" -> Locked("tm", <<Rd("b.vt"), Wr("b.vt")>>)
    [] o = "B.GetVerificationTickets" -> RLocked("tm", <<Rd("b.vt")>>)
    [] o = "B.VerificationTicketsSize" -> RLocked("tm", <<Rd("b.vt")>>)
    [] o = "B.UnknownTickets" -> Locked("tm", <<Rd("b.vt")>>)
    [] o = "B.SetBlockNotarized" -> Locked("tm", <<Wr("b.isNotarized")>>)
    [] o = "B.IsBlockNotarized" -> RLocked("tm", <<Rd("b.isNotarized")>>)
    [] o = "B.SetBlockFinalised" -> Locked("tm", <<Wr("b.isFinalised")>>)
    [] o = "B.IsBlockFinalised" -> RLocked("tm", <<Rd("b.isFinalised")>>)
    [] o = "B.SetPreviousBlock" -> Locked("tm", <<Wr("b.prev"), Rd("b.prevvt"), Wr("b.prevvt")>>)
    [] o = "B.GetPrevBlockVerificationTickets" -> Locked("tm", <<Rd("b.prevvt")>>)
    [] o = "B.SetPrevBlockVerificationTickets" -> Locked("tm", <<Wr("b.prevvt")>>)
    [] o = "B.PrevBlockVerificationTicketsSize" -> Locked("tm", <<Rd("b.prevvt")>>)
    [] o = "B.GetStateStatus" -> RLocked("ssm", <<Rd("b.stateStatus")>>)
    [] o = "B.IsStateComputed" -> RLocked("ssm", <<Rd("b.stateStatus")>>)
    [] o = "B.SetStateStatus" -> Locked("ssm", <<Wr("b.stateStatus")>>)
    [] o = "B.SetBlockState" -> Bare("bstate", "tm", <<Wr("b.blockState")>>)                    \* no mutex at all
    [] o = "B.GetBlockState" -> BareR("bstate", "tm", <<Rd("b.blockState")>>)
    [] o = "B.SetVerificationStatus" -> Bare("vstatus", "tm", <<Wr("b.verStatus")>>)             \* no mutex at all
    [] o = "B.GetVerificationStatus" -> BareR("vstatus", "tm", <<Rd("b.verStatus")>>)
    [] o = "B.SetClientState" -> Locked("sm", <<Wr("b.cs"), Wr("b.csHash")>>)
    [] o = "B.ComputeTxnMap" -> Locked("txm", <<Wr("b.txnsMap")>>)
    [] o = "B.HasTransaction" -> RLocked("txm", <<Rd("b.txnsMap")>>)
    [] o = "B.AddUniqueBlockExtension" -> Locked("ubm", <<Rd("b.ube"), Wr("b.ube")>>)
    [] o = "B.GetUniqueBlockExtensions" -> RLocked("ubm", <<Rd("b.ube")>>)
    [] o = "B.SetRoundRandomSeed" -> <<AWr("b.rrs")>>
    [] o = "B.GetRoundRandomSeed" -> <<ARd("b.rrs")>>
    [] o = "B.GetSummary" -> BareR("bsummary", "tm", <<Rd("b.prev")>>) \o <<ARd("b.rrs")>> \o BareR("bsummary", "sm", <<Rd("b.csHash")>>)
    [] o = "B.Clone" ->
         \* copies the struct: ticket, status and state-hash fields are read outside their mutexes
         <<PlainOrAtomic("bclone", "b.rrs")>> \o BareR("bclone", "tm", <<Rd("b.prev"), Rd("b.prevvt"), Rd("b.vt"), Rd("b.isNotarized"), Rd("b.blockState"), Rd("b.verStatus")>>)
           \o BareR("bclone", "sm", <<Rd("b.csHash")>>) \o BareR("bclone", "ssm", <<Rd("b.stateStatus")>>)
           \o RLocked("txm", <<Rd("b.txnsMap")>>) \o RLocked("sm", <<Rd("b.cs"), Rd("b.csHash")>>) \o RLocked("ubm", <<Rd("b.ube")>>)

BlockOps == {"B.AddVerificationTicket", "B.MergeVerificationTickets", "B.GetVerificationTickets", "B.VerificationTicketsSize",
  "B.UnknownTickets", "B.SetBlockNotarized", "B.IsBlockNotarized", "B.SetBlockFinalised", "B.IsBlockFinalised",
  "B.SetPreviousBlock", "B.GetPrevBlockVerificationTickets", "B.SetPrevBlockVerificationTickets",
  "B.PrevBlockVerificationTicketsSize", "B.GetStateStatus", "B.IsStateComputed", "B.SetStateStatus", "B.SetBlockState",
  "B.GetBlockState", "B.SetVerificationStatus", "B.GetVerificationStatus", "B.SetClientState", "B.ComputeTxnMap",
  "B.HasTransaction", "B.AddUniqueBlockExtension", "B.GetUniqueBlockExtensions", "B.SetRoundRandomSeed",
  "B.GetRoundRandomSeed", "B.GetSummary", "B.Clone"}

-----------------------------------------------------------------------------
(* Round.AddNotarizedBlock(b) as seen from the block b it is given          *)
CrossOp(o) ==
  CASE o = "X.Round.AddNotarizedBlock(b)" ->
         \* under r.mutex: b.SetBlockNotarized() (tickets mutex), b.SetBlockState() (no mutex)
         Locked("rm", Locked("tm", <<Wr("b.isNotarized")>>) \o Bare("bstate", "tm", <<Wr("b.blockState")>>))
CrossOps == {"X.Round.AddNotarizedBlock(b)"}

-----------------------------------------------------------------------------
(* miner.Chain.ValidateTransactions: the calling goroutine and the workers  *)
(* (one per batch) share the plain booleans cancel and roundMismatch and    *)
(* the result channel.                                                      *)
Flag(rw, f) == IF Fx("vt") THEN (IF rw = "R" THEN ARd(f) ELSE AWr(f)) ELSE (IF rw = "R" THEN Rd(f) ELSE Wr(f))
VTOp(o) ==
  CASE o = "V.main" -> <<Rcv("v.ch"), Flag("R", "v.roundMismatch"), Rcv("v.ch"), Flag("R", "v.roundMismatch")>>
    [] o = "V.worker(valid)" -> <<Flag("R", "v.cancel"), Flag("R", "v.cancel"), Snd("v.ch")>>
    [] o = "V.worker(invalid txn)" -> <<Flag("R", "v.cancel"), Flag("W", "v.cancel"), Snd("v.ch")>>
    [] o = "V.worker(round moved on)" -> <<Flag("R", "v.cancel"), Flag("W", "v.cancel"), Flag("W", "v.roundMismatch"), Snd("v.ch")>>
VTOps == {"V.main", "V.worker(valid)", "V.worker(invalid txn)", "V.worker(round moved on)"}

Steps(o) == IF o \in RoundOps THEN RoundOp(o) ELSE IF o \in BlockOps THEN BlockOp(o)
            ELSE IF o \in CrossOps THEN CrossOp(o) ELSE VTOp(o)

\* the accesses by which each group leaves the intended discipline
Dev(g) ==
  CASE g = "getnb" -> {<<"R.GetNotarizedBlocks", "r.nb">>}
    [] g = "pbslice" -> {<<"R.GetProposedBlocks+range", "r.pb.el">>}
    [] g = "rclone" -> {<<"R.Clone", f>> : f \in {"r.seed", "r.phase", "r.stoc", "r.vrfStart", "r.tc.prrs", "r.tc.perm", "r.tc.count", "r.tc.votes"}}
    [] g = "bstate" -> {<<o, "b.blockState">> : o \in {"B.SetBlockState", "B.GetBlockState", "X.Round.AddNotarizedBlock(b)"}}
    [] g = "vstatus" -> {<<o, "b.verStatus">> : o \in {"B.SetVerificationStatus", "B.GetVerificationStatus"}}
    [] g = "bclone" -> {<<"B.Clone", f>> : f \in {"b.rrs", "b.prev", "b.prevvt", "b.vt", "b.isNotarized", "b.csHash", "b.stateStatus", "b.blockState", "b.verStatus"}}
    [] g = "bsummary" -> {<<"B.GetSummary", "b.csHash">>, <<"B.GetSummary", "b.prev">>}
    [] g = "vt" -> {<<o, f>> : o \in VTOps, f \in {"v.cancel", "v.roundMismatch"}}
Deviation == UNION {Dev(g) : g \in Groups \ FixedGroups}

-----------------------------------------------------------------------------
VARIABLES sc,   \* the scenario: a tuple of operation names
          pc,   \* next step of every process
          wl,   \* mutex -> process holding it in write mode (0: none)
          rl,   \* mutex -> processes holding it in read mode
          ch    \* channel -> messages in flight
vars == <<sc, pc, wl, rl, ch>>

Mutex == {"rm", "tcm", "tm", "ssm", "sm", "txm", "ubm"}
Procs == DOMAIN sc
Done(p) == pc[p] > Len(Steps(sc[p]))
Cur(p) == Steps(sc[p])[pc[p]]

Init == /\ sc \in Scenarios /\ pc = [p \in DOMAIN sc |-> 1]
        /\ wl = [m \in Mutex |-> 0] /\ rl = [m \in Mutex |-> {}] /\ ch = 0

Step(p) ==
  /\ ~Done(p)
  /\ LET s == Cur(p) IN
     /\ CASE s.k = "lock"    -> wl[s.x] = 0 /\ rl[s.x] = {} /\ wl' = [wl EXCEPT ![s.x] = p] /\ UNCHANGED <<rl, ch>>
          [] s.k = "unlock"  -> wl' = [wl EXCEPT ![s.x] = 0] /\ UNCHANGED <<rl, ch>>
          [] s.k = "rlock"   -> wl[s.x] = 0 /\ rl' = [rl EXCEPT ![s.x] = @ \cup {p}] /\ UNCHANGED <<wl, ch>>
          [] s.k = "runlock" -> rl' = [rl EXCEPT ![s.x] = @ \ {p}] /\ UNCHANGED <<wl, ch>>
          [] s.k = "acc"     -> UNCHANGED <<wl, rl, ch>>
          [] s.k = "send"    -> ch' = ch + 1 /\ UNCHANGED <<wl, rl>>
          [] s.k = "recv"    -> ch > 0 /\ ch' = ch - 1 /\ UNCHANGED <<wl, rl>>
     /\ pc' = [pc EXCEPT ![p] = @ + 1]
  /\ UNCHANGED sc

Next == \E p \in Procs : Step(p)
Spec == Init /\ [][Next]_vars

-----------------------------------------------------------------------------
Conflict(p, q) == /\ p # q /\ ~Done(p) /\ ~Done(q)
                  /\ Cur(p).k = "acc" /\ Cur(q).k = "acc" /\ Cur(p).x = Cur(q).x
                  /\ (Cur(p).m = "W" \/ Cur(q).m = "W") /\ ~(Cur(p).at /\ Cur(q).at)
Race == \E p, q \in Procs : Conflict(p, q)
RaceFields == {Cur(p).x : p \in {pp \in Procs : \E q \in Procs : Conflict(pp, q)}}

(* C44 on the model *)
NoRace == ~Race
RaceOnlyAtDeviation == \A p, q \in Procs : Conflict(p, q) => (<<sc[p], Cur(p).x>> \in Deviation \/ <<sc[q], Cur(q).x>> \in Deviation)
\* mutexes are used consistently (an unlock by the holder only)
LockDiscipline == \A m \in Mutex : (wl[m] # 0 => rl[m] = {})
=============================================================================
