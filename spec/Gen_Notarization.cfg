SPECIFICATION Spec
CONSTANTS
  Miner = {"m1", "m2", "m3", "m4"}
  Outsider = {"x1"}
  T = 3
  VerifyAttached = TRUE
  VerifyEarly = TRUE
  MaxMsgs = 3
  Rep = {1, 3}
  MaxSet = 4

INVARIANT GPrint
CHECK_DEADLOCK FALSE
