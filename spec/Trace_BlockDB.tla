---------------------------- MODULE Trace_BlockDB ----------------------------
(***************************************************************************)
(* Trace specification for C26 (stored blocks and block databases read     *)
(* back exactly).                                                          *)
(*                                                                         *)
(* (a) block database.  A trace builds one REAL blockdb.BlockDB            *)
(* (NewBlockDB / Create / WriteData* / Save), then opens it again, or      *)
(* opens a copy of its files as a process crash would have left them       *)
(* (crash = "dat": the .dat cut after `cut` bytes and no .idx yet;         *)
(* crash = "idx": complete .dat, the .idx cut after `cut` bytes), and      *)
(* reads keys.  Every Open and every Read runs under a 2 s watchdog in a    *)
(* separate process; a call that has not returned is logged as hang.       *)
(* The spec tracks what was written under each key (BlockDB.tla: recs /    *)
(* LastPos) and judges every Read against it.                              *)
(*                                                                         *)
(* (b) block store.  SWrite / SRead of the REAL sharder block store        *)
(* (zlib + msgpack on disk, uncompressed msgpack in the cache) for blocks  *)
(* produced by a real chain; digests of the whole block, its header, its   *)
(* transactions, their outputs and its magic block are compared.           *)
(***************************************************************************)
EXTENDS TraceLib

VARIABLES l, ev, written, crash, opened, stored
vars == <<l, ev, written, crash, opened, stored>>
Null == [ev |-> "none"]

TraceInit == l = 1 /\ ev = Null /\ written = <<>> /\ crash = "none" /\ opened = FALSE /\ stored = <<>>
IsEvent(e) == l <= Len(Trace) /\ Trace[l].ev = e /\ l' = l + 1

TraceReset ==
  /\ IsEvent("Reset")
  /\ ev' = Null /\ written' = <<>> /\ crash' = "none" /\ opened' = FALSE /\ stored' = <<>>

TraceNew ==                                   \* a new database (several per trace in the absent-key traces)
  /\ IsEvent("BNew")
  /\ ev' = Trace[l] /\ written' = <<>> /\ crash' = "none" /\ opened' = FALSE
  /\ UNCHANGED stored

TraceWrite ==                                 \* WriteData: the latest record under a key is the one to read back
  /\ IsEvent("BWrite")
  /\ ev' = Trace[l]
  /\ written' = Put(written, Trace[l].k, [ver |-> Trace[l].ver, sum |-> Trace[l].sum])
  /\ UNCHANGED <<crash, opened, stored>>

TraceOpen ==
  /\ IsEvent("BOpen")
  /\ ev' = Trace[l] /\ crash' = Trace[l].crash /\ opened' = (Trace[l].res = "ok")
  /\ UNCHANGED <<written, stored>>

TraceSWrite ==
  /\ IsEvent("SWrite")
  /\ ev' = Trace[l]
  /\ stored' = Put(stored, Trace[l].b, [all |-> Trace[l].d_all, hdr |-> Trace[l].d_hdr, txn |-> Trace[l].d_txn,
                                       out |-> Trace[l].d_out, mb |-> Trace[l].d_mb])
  /\ UNCHANGED <<written, crash, opened>>

Plain == {"BSave", "BRead", "SRead"}
TracePlain ==
  /\ l <= Len(Trace) /\ Trace[l].ev \in Plain /\ l' = l + 1
  /\ ev' = Trace[l]
  /\ UNCHANGED <<written, crash, opened, stored>>

TraceSkip ==
  /\ l <= Len(Trace) /\ Trace[l].ev \notin (Plain \cup {"Reset", "BNew", "BWrite", "BOpen", "SWrite"})
  /\ l' = l + 1 /\ ev' = Null
  /\ UNCHANGED <<written, crash, opened, stored>>

TraceNext == TraceReset \/ TraceNew \/ TraceWrite \/ TraceOpen \/ TraceSWrite \/ TracePlain \/ TraceSkip
TraceSpec == TraceInit /\ [][TraceNext]_vars

-----------------------------------------------------------------------------
Is(e) == ev.ev = e
(* building the database / storing a block must work in the harness environment *)
HarnessIO ==
  /\ (Is("BWrite") \/ Is("BSave")) => ev.res = "ok"
  /\ Is("SWrite") => ev.res = "ok"
  /\ Is("BRead") => opened

Exact(k) == ev.res = "ok" /\ ev.rk = k /\ ev.rver = written[k].ver /\ ev.rsum = written[k].sum

(* after Save + Open every written key returns the record written under it *)
Raw_C26_ReadBackExact ==
  /\ (Is("BOpen") /\ ev.crash = "none") => ev.res = "ok"
  /\ (Is("BRead") /\ crash = "none" /\ ev.k \in DOMAIN written) => Exact(ev.k)

(* a key that was never written: not-found, instead of hanging or returning another record *)
Raw_C26_AbsentNotFound ==
  (Is("BRead") /\ ev.k \notin DOMAIN written) =>
     IF crash = "none" THEN ev.res = "notfound" ELSE ev.res \in {"notfound", "error"}

(* after a crash Open fails cleanly, or serves only fully written records *)
Raw_C26_CrashSafe ==
  /\ (Is("BOpen") /\ ev.crash # "none") => ev.res \in {"ok", "error"}
  /\ (Is("BRead") /\ crash # "none" /\ ev.k \in DOMAIN written) => (Exact(ev.k) \/ ev.res \in {"error", "notfound"})

(* a block read from the block store equals the block that was written *)
Raw_C26_BlockReadBack ==
  Is("SRead") =>
     /\ ev.res = "ok" /\ ev.b \in DOMAIN stored
     /\ ev.hash_same /\ ev.rehash_same
     /\ ev.d_all = stored[ev.b].all /\ ev.d_hdr = stored[ev.b].hdr /\ ev.d_txn = stored[ev.b].txn
     /\ ev.d_out = stored[ev.b].out /\ ev.d_mb = stored[ev.b].mb
(* events marked by bin/vcheck as instances of a listed known finding are consumed, not judged *)
C26_ReadBackExact == IsKnown(ev) \/ Raw_C26_ReadBackExact
C26_AbsentNotFound == IsKnown(ev) \/ Raw_C26_AbsentNotFound
C26_CrashSafe == IsKnown(ev) \/ Raw_C26_CrashSafe
C26_BlockReadBack == IsKnown(ev) \/ Raw_C26_BlockReadBack
=============================================================================
