---------------------------- MODULE MinerFeesOps ----------------------------
(***************************************************************************)
(* The obligations of C22 on ONE payFees call of the miner contract        *)
(* (smartcontract/minersc/fees.go), constant level: MinerFees.tla checks   *)
(* the split algorithm of the code against them with TLC and               *)
(* Trace_MinerFees.tla evaluates the same operators on every recorded      *)
(* payFees transaction of the real contract.                               *)
(*   F        sum of the fees of the block's transactions                  *)
(*   R        block reward (GlobalNode.BlockReward * RewardRate)           *)
(*   num/den  share ratio (miner side / everything)                        *)
(*   nsh      number of sharders rewarded per block                        *)
(*   minc     [miner -> increment of its stake pool's rewards]             *)
(*   sinc     [sharder -> increment of its stake pool's rewards]           *)
(***************************************************************************)
EXTENDS Integers, Sequences, FiniteSets, TLC

RECURSIVE SumM(_, _)
SumM(f, S) == IF S = {} THEN 0 ELSE LET x == CHOOSE y \in S : TRUE IN f[x] + SumM(f, S \ {x})
Total(f) == SumM(f, DOMAIN f)
AbsV(x) == IF x < 0 THEN -x ELSE x
CreditedIn(f) == {x \in DOMAIN f : f[x] > 0}

\* the two sides add up exactly to fees + block reward
OblExact(F, R, minc, sinc) == Total(minc) + Total(sinc) = F + R
\* nothing is ever created
OblNoMint(F, R, minc, sinc) == /\ Total(minc) + Total(sinc) <= F + R
                               /\ \A m \in DOMAIN minc : minc[m] >= 0
                               /\ \A s \in DOMAIN sinc : sinc[s] >= 0
\* the miner side is floor(ratio * fees) + floor(ratio * reward), each floor +-1 (float64), and goes to ONE miner
OblMinerSide(F, R, num, den, minc) ==
  /\ AbsV(Total(minc) * den - (F + R) * num) <= 2 * den
  /\ Cardinality(CreditedIn(minc)) <= 1
\* the sharder side is divided among at most nsh sharders, equally up to the remainders (two splits: fees, reward)
OblSharderSide(nsh, sinc) ==
  /\ Cardinality(CreditedIn(sinc)) <= nsh
  /\ \A s, t \in CreditedIn(sinc) : AbsV(sinc[s] - sinc[t]) <= 2
\* a rejected call changes no reward
OblRejected(minc, sinc) == Total(minc) = 0 /\ Total(sinc) = 0 /\ CreditedIn(minc) = {} /\ CreditedIn(sinc) = {}
=============================================================================
