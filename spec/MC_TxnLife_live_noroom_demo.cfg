SPECIFICATION LinSpec
CONSTANTS
  Sender = {"c1"}
  MaxNonce = 2
  Tol = 1
  FutureNonce = 2
  MaxTx = 0
  CleanupMargin = 1
  OwnKeepsPast = TRUE
  Kinds = {"ok"}
  CtOffsets = {0}
  MaxClock = 2
  SignUntil = 0
  MaxTxns = 2
  MaxBlocks = 4
  MaxRecv = 0
  RecvTimes = {}
  AllowResubmit = TRUE
  Interleave = TRUE
INVARIANTS TypeOK
PROPERTIES ReadyIncluded
CHECK_DEADLOCK FALSE
