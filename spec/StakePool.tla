------------------------------ MODULE StakePool ------------------------------
(***************************************************************************)
(* Stake pools of 0chain providers (miner, sharder, blobber, validator,    *)
(* authorizer): smartcontract/stakepool, smartcontract/provider and the    *)
(* contract wrappers in minersc / storagesc / zcnsc.                       *)
(*                                                                         *)
(*  - reward distribution   DistributeRewards / DistributeRewardsRandN     *)
(*                          (stakepool.go:395-744)                  -> C10 *)
(*  - lock / unlock / collect  StakePoolLock, StakePoolUnlock, MintRewards *)
(*                          (stakepool.go:246-345, 760-925, lock.go) -> C11 *)
(*  - kill / shutdown       provider.Kill, provider.ShutDown,              *)
(*                          StakePool.Kill / SlashFraction           -> C23 *)
(*                                                                         *)
(* Three layers, as in Ledger.tla:                                         *)
(*  1. the ALGORITHMS as the code has them (integer arithmetic instead of  *)
(*     float64; the choices of the RNG are left nondeterministic);         *)
(*  2. the OBLIGATIONS: what the properties demand of ANY implementation   *)
(*     (Obl* operators).  Recorded executions of the real code are checked *)
(*     against these by Trace_StakePool.tla;                               *)
(*  3. a state machine over stake-pool nodes, provider records, client     *)
(*     balances and the contract wallet, explored by TLC, which shows that *)
(*     the algorithms meet the obligations within the bounds, and where    *)
(*     they did not: the two boolean constants below name two defects the  *)
(*     checks found in the code; both are repaired, the configurations set *)
(*     them to FALSE (TRUE reproduces the old behaviour).                  *)
(***************************************************************************)
EXTENDS StakePoolOps

CONSTANTS
  Provider,                 \* provider ids
  Client,                   \* wallets: stakers, delegate wallets, the owner, strangers
  Owner,                    \* the contract owner (a Client)
  Ord,                      \* sequence enumerating Provider \cup Client: the id order of the code
  MaxV,                     \* largest reward value
  MinLock, MaxStake,        \* per-delegate bounds validated at lock (contract config)
  KillNum, KillDen,         \* kill slash fraction
  ShutNum, ShutDen,         \* shutdown slash fraction
  RandNDropsRemainder,      \* TRUE = the code before fix 9508203: DistributeRewardsRandN credited the service
                            \*   charge and dropped the rest when the selected subset had no stake (DESIGN 7 #15);
                            \*   FALSE = the code as it is: the call fails ("no stake"), nothing is applied
  ShutDownSavesUnderCaller  \* TRUE = the code before fix f912f8e: provider.ShutDown saved the slashed stake pool
                            \*   under the CALLER's id (DESIGN 7 #6); FALSE = the code as it is

Id == Provider \cup Client
Idx(x) == CHOOSE i \in 1..Len(Ord) : Ord[i] = x

-----------------------------------------------------------------------------
(* Layer 1: the reward algorithms as written.                               *)

Charge(sp, V) == (V * sp.cnum) \div sp.cden                 \* Float64ToCoin(ratio * value)

Shares(sp, S, VL) == [d \in S |-> (VL * sp.pools[d].bal) \div StakeOf(sp, S)]
Leftover(sp, S, VL) == VL - SumF(Shares(sp, S, VL), S)
\* equallyDistributeRewards: leftover \div n to everybody in S, one more unit to the pools in X
Spread(sp, S, VL, X) ==
  LET L == Leftover(sp, S, VL)
      n == Cardinality(S)
  IN [d \in Dels(sp) |-> IF d \in S THEN Shares(sp, S, VL)[d] + (L \div n) + (IF d \in X THEN 1 ELSE 0) ELSE 0]
FirstK(S, k) == {d \in S : Cardinality({e \in S : Idx(e) < Idx(d)}) < k}

Out(c, r, err, dev) == [c |-> c, r |-> r, err |-> err, dev |-> dev]

\* DistributeRewards: a set with exactly one outcome
DistAll(sp, V) ==
  IF V = 0 \/ ~Paid(sp) THEN {Out(0, Zero(sp), FALSE, FALSE)}
  ELSE IF Dels(sp) = {} THEN {Out(V, Zero(sp), FALSE, FALSE)}
  ELSE LET c == Charge(sp, V)
           VL == V - c
           S == Dels(sp)
       IN IF VL = 0 THEN {Out(c, Zero(sp), FALSE, FALSE)}
          ELSE IF TotalStake(sp) = 0 THEN {Out(c, Zero(sp), TRUE, FALSE)}      \* "no stake" error
          ELSE {Out(c, Spread(sp, S, VL, FirstK(S, Leftover(sp, S, VL) % Cardinality(S))), FALSE, FALSE)}

\* DistributeRewardsRandN: one outcome per choice of the RNG (subset S, order of S)
DistRandN(sp, V, N) ==
  IF V = 0 \/ ~Paid(sp) THEN {Out(0, Zero(sp), FALSE, FALSE)}
  ELSE IF Dels(sp) = {} THEN {Out(V, Zero(sp), FALSE, FALSE)}
  ELSE LET c == Charge(sp, V)
           VL == V - c
           k == Min(N, Cardinality(Dels(sp)))
       IN IF VL = 0 THEN {Out(c, Zero(sp), FALSE, FALSE)}
          ELSE UNION { IF StakeOf(sp, S) = 0
                         THEN (IF RandNDropsRemainder
                                 THEN {Out(c, Zero(sp), FALSE, TRUE)}            \* remainder vanishes
                                 ELSE {Out(c, Zero(sp), TRUE, FALSE)})           \* intended: refuse
                         ELSE {Out(c, Spread(sp, S, VL, X), FALSE, FALSE) :
                                 X \in {Y \in SUBSET S : Cardinality(Y) = Leftover(sp, S, VL) % Cardinality(S)}}
                     : S \in {T \in SUBSET Dels(sp) : Cardinality(T) = k} }

ApplyOut(sp, o) ==
  [sp EXCEPT !.reward = @ + o.c,
             !.pools = [d \in Dels(sp) |-> [sp.pools[d] EXCEPT !.reward = @ + o.r[d]]]]

-----------------------------------------------------------------------------
(* Layer 3: the state machine.                                              *)

VARIABLES node,    \* stake-pool nodes of the contract: [K -> SP] for some K \subseteq Id
          prec,    \* provider records: [Provider -> [killed, shut]]
          cbal,    \* client balances
          wallet,  \* contract wallet, relative to the start
          hist,    \* history: [locked, unstaked, credited, collected, slashed : [Provider -> [Client -> Nat]]]
          last     \* the last step (what a trace event of the real code shows)
vars == <<node, prec, cbal, wallet, hist, last>>

NoStep == [kind |-> "none"]
HasPool(p, d) == p \in DOMAIN node /\ d \in Dels(node[p])

ZeroHist == [p \in Provider |-> [d \in Client |-> 0]]
HAdd(h, p, d, v) == [h EXCEPT ![p][d] = @ + v]

(* ---- C10 ---- *)
Distribute(p, V) ==
  /\ p \in DOMAIN node
  /\ \E o \in DistAll(node[p], V) :
       /\ node' = [node EXCEPT ![p] = IF o.err THEN @ ELSE ApplyOut(@, o)]     \* an error aborts the txn
       /\ hist' = IF o.err THEN hist
                  ELSE [hist EXCEPT !.credited = [hist.credited EXCEPT ![p] =
                          [d \in Client |-> @[d] + (IF d \in Dels(node[p]) THEN o.r[d] ELSE 0)]]]
       /\ last' = [kind |-> "all", p |-> p, V |-> V, N |-> 0, pre |-> node[p], o |-> o]
  /\ UNCHANGED <<prec, cbal, wallet>>

DistributeRandN(p, V, N) ==
  /\ p \in DOMAIN node
  /\ \E o \in DistRandN(node[p], V, N) :
       /\ node' = [node EXCEPT ![p] = IF o.err THEN @ ELSE ApplyOut(@, o)]
       /\ hist' = IF o.err THEN hist
                  ELSE [hist EXCEPT !.credited = [hist.credited EXCEPT ![p] =
                          [d \in Client |-> @[d] + (IF d \in Dels(node[p]) THEN o.r[d] ELSE 0)]]]
       /\ last' = [kind |-> "randn", p |-> p, V |-> V, N |-> N, pre |-> node[p], o |-> o]
  /\ UNCHANGED <<prec, cbal, wallet>>

(* ---- C11 ---- *)
\* StakePoolLock: validateLockRequest + LockPool.  A failed request is a chargeable failure: no change.
LockOK(d, p, v) ==
  /\ p \in DOMAIN node
  /\ v > 0 /\ v >= MinLock
  /\ (IF d \in Dels(node[p]) THEN node[p].pools[d].bal ELSE 0) + v <= MaxStake
  /\ (d \in Dels(node[p]) \/ Cardinality(Dels(node[p])) < node[p].maxDel)
  /\ v <= cbal[d]
Lock(d, p, v) ==
  /\ IF LockOK(d, p, v)
       THEN /\ node' = [node EXCEPT ![p].pools =
                          IF d \in DOMAIN @ THEN [@ EXCEPT ![d].bal = @ + v]
                          ELSE @ @@ (d :> [bal |-> v, reward |-> 0])]
            /\ cbal' = [cbal EXCEPT ![d] = @ - v]
            /\ wallet' = wallet + v
            /\ hist' = [hist EXCEPT !.locked = HAdd(@, p, d, v)]
       ELSE UNCHANGED <<node, cbal, wallet, hist>>
  /\ last' = [kind |-> "lock", p |-> p, caller |-> d, v |-> v, ok |-> LockOK(d, p, v)]
  /\ UNCHANGED prec

\* MintRewards: the caller's pool reward, plus the provider's reward if the caller is the delegate wallet
Mintable(sp, c) ==
  (IF c \in Dels(sp) THEN sp.pools[c].reward ELSE 0) + (IF c = sp.wallet THEN sp.reward ELSE 0)
Minted(sp, c) ==
  [sp EXCEPT !.reward = IF c = sp.wallet THEN 0 ELSE @,
             !.pools = [d \in Dels(sp) |-> IF d = c THEN [sp.pools[d] EXCEPT !.reward = 0] ELSE sp.pools[d]]]

\* StakePoolUnlock: only the pool keyed by the caller's own id can be touched
Unlock(c, p) ==
  /\ IF HasPool(p, c)
       THEN LET sp == node[p]
                pay == sp.pools[c].bal + Mintable(sp, c)
            IN /\ node' = [node EXCEPT ![p] =
                            [Minted(sp, c) EXCEPT !.pools = [d \in Dels(sp) \ {c} |-> Minted(sp, c).pools[d]]]]
               /\ cbal' = [cbal EXCEPT ![c] = @ + pay]
               /\ wallet' = wallet - pay
               /\ hist' = [hist EXCEPT !.collected = HAdd(@, p, c, Mintable(sp, c)),
                                         !.unstaked = HAdd(@, p, c, sp.pools[c].bal)]
               /\ last' = [kind |-> "unlock", p |-> p, caller |-> c, ok |-> TRUE, pay |-> pay,
                           bal |-> sp.pools[c].bal, rew |-> sp.pools[c].reward,
                           svc |-> IF c = sp.wallet THEN sp.reward ELSE 0]
       ELSE /\ UNCHANGED <<node, cbal, wallet, hist>>
            /\ last' = [kind |-> "unlock", p |-> p, caller |-> c, ok |-> FALSE, pay |-> 0, bal |-> 0, rew |-> 0, svc |-> 0]
  /\ UNCHANGED prec

Collect(c, p) ==
  /\ IF p \in DOMAIN node /\ Mintable(node[p], c) > 0
       THEN LET sp == node[p] IN
            /\ node' = [node EXCEPT ![p] = Minted(sp, c)]
            /\ cbal' = [cbal EXCEPT ![c] = @ + Mintable(sp, c)]
            /\ wallet' = wallet - Mintable(sp, c)
            /\ hist' = [hist EXCEPT !.collected = HAdd(@, p, c, Mintable(sp, c))]
            /\ last' = [kind |-> "collect", p |-> p, caller |-> c, ok |-> TRUE, pay |-> Mintable(sp, c)]
       ELSE /\ UNCHANGED <<node, cbal, wallet, hist>>
            /\ last' = [kind |-> "collect", p |-> p, caller |-> c, ok |-> FALSE, pay |-> 0]
  /\ UNCHANGED prec

(* ---- C23 ---- *)
Slashed(sp, num, den) ==      \* MultFloat64(balance, 1 - slash): floor
  [sp EXCEPT !.killed = TRUE,
             !.pools = [d \in Dels(sp) |-> [sp.pools[d] EXCEPT !.bal = (@ * (den - num)) \div den]]]
Dead(p) == prec[p].killed \/ prec[p].shut
SlashHist(p, num, den) ==
  [hist EXCEPT !.slashed = [@ EXCEPT ![p] = [d \in Client |->
       @[d] + (IF d \in Dels(node[p]) THEN node[p].pools[d].bal - (node[p].pools[d].bal * (den - num)) \div den ELSE 0)]]]

Kill(caller, p) ==           \* provider.Kill: owner only, once
  /\ IF caller = Owner /\ p \in DOMAIN node /\ ~Dead(p)
       THEN /\ prec' = [prec EXCEPT ![p].killed = TRUE]
            /\ node' = [node EXCEPT ![p] = Slashed(@, KillNum, KillDen)]
            /\ hist' = SlashHist(p, KillNum, KillDen)
       ELSE UNCHANGED <<prec, node, hist>>
  /\ last' = [kind |-> "kill", p |-> p, caller |-> caller,
              ok |-> (caller = Owner /\ p \in DOMAIN node /\ ~Dead(p)), dev |-> FALSE]
  /\ UNCHANGED <<cbal, wallet>>

ShutDown(caller, p) ==       \* provider.ShutDown: owner or the provider's delegate wallet, once
  /\ LET auth == p \in DOMAIN node /\ ~Dead(p) /\ (caller = Owner \/ caller = node[p].wallet)
         dev == auth /\ ShutDownSavesUnderCaller /\ caller # p
     IN
     /\ IF auth
          THEN /\ prec' = [prec EXCEPT ![p].shut = TRUE, ![p].bad = dev]
               /\ IF dev
                    THEN \* code as written: the slashed, dead copy goes to the CALLER's key; p's own node stays
                         /\ node' = IF caller \in DOMAIN node
                                      THEN [node EXCEPT ![caller] = Slashed(node[p], ShutNum, ShutDen)]
                                      ELSE node @@ (caller :> Slashed(node[p], ShutNum, ShutDen))
                         /\ hist' = hist
                    ELSE /\ node' = [node EXCEPT ![p] = Slashed(@, ShutNum, ShutDen)]
                         /\ hist' = SlashHist(p, ShutNum, ShutDen)
          ELSE UNCHANGED <<prec, node, hist>>
     /\ last' = [kind |-> "shutdown", p |-> p, caller |-> caller, ok |-> auth, dev |-> dev]
  /\ UNCHANGED <<cbal, wallet>>

-----------------------------------------------------------------------------
(* C10: every successful distribution meets the obligation (the named       *)
(* deviation of the code as written is the only exception).                 *)
IsDist == last.kind \in {"all", "randn"}
C10_Distribute ==
  (IsDist /\ ~last.o.err /\ ~last.o.dev) => OblDistribute(last.pre, last.V, last.kind, last.N, last.o.c, last.o.r)
\* the deviation itself: what is lost is exactly V - charge
C10_DeviationLosesRemainder ==
  (IsDist /\ last.o.dev) => /\ last.kind = "randn" /\ RandNDropsRemainder
                            /\ last.o.c + SumF(last.o.r, Dels(last.pre)) < last.V

(* C11: the wallet backs stakes and uncollected rewards move only by the    *)
(* accounted operations; what an unlock pays is what was locked plus what   *)
(* was credited and not yet collected, minus what was slashed.              *)
C11_UnlockPaysExactly ==
  (last.kind = "unlock" /\ last.ok) =>
      /\ last.pay = last.bal + last.rew + last.svc
      /\ ~HasPool(last.p, last.caller)
C11_PoolAccounting ==
  \A p \in Provider : p \in DOMAIN node =>
     \A d \in Dels(node[p]) :
        node[p].pools[d].bal = hist.locked[p][d] - hist.slashed[p][d] - hist.unstaked[p][d]
C11_LockMovesValue ==
  [][ last'.kind = "lock" =>
        LET d == last'.caller
            p == last'.p
            v == last'.v
        IN IF last'.ok
             THEN /\ cbal'[d] = cbal[d] - v /\ wallet' = wallet + v
                  /\ node'[p].pools[d].bal = (IF d \in Dels(node[p]) THEN node[p].pools[d].bal ELSE 0) + v
                  /\ node'[p].pools[d].bal <= MaxStake /\ v >= MinLock /\ v > 0
                  /\ Cardinality(Dels(node'[p])) <= node[p].maxDel
                  /\ \A e \in Dels(node[p]) \ {d} : node'[p].pools[e] = node[p].pools[e]
             ELSE UNCHANGED <<node, cbal, wallet>> ]_vars
C11_OnlyOwnerUnlocks ==
  [][ \A p \in Provider, d \in Client :
        (HasPool(p, d) /\ ~HasPool(p, d)') => (last'.kind = "unlock" /\ last'.caller = d /\ last'.p = p) ]_vars
HSum(h) == SumF([p \in Provider |-> SumF([d \in Client |-> h[p][d]], Client)], Provider)
C11_WalletBacks ==    \* relative wallet = everything locked - stakes returned - rewards paid out
  wallet = HSum(hist.locked) - HSum(hist.unstaked) - HSum(hist.collected)

(* C23: kill / shutdown disable exactly that provider.  The named deviation *)
(* (ShutDownSavesUnderCaller) is excluded here and described by            *)
(* C23_DeviationMisplacesPool; with the constant FALSE nothing is excluded. *)
IsKS == last'.kind \in {"kill", "shutdown"}
C23_Frame ==
  [][ (IsKS /\ ~last'.dev) =>
        /\ DOMAIN node' = DOMAIN node                                      \* no stake-pool node created
        /\ \A q \in DOMAIN node : q # last'.p => node'[q] = node[q]        \* nobody else touched
        /\ \A q \in Provider : q # last'.p => prec'[q] = prec[q]
        /\ ~last'.ok => (node' = node /\ prec' = prec) ]_vars
C23_DeadAndSlashedOnce ==
  [][ (IsKS /\ last'.ok /\ ~last'.dev) =>
        LET p == last'.p
            num == IF last'.kind = "kill" THEN KillNum ELSE ShutNum
            den == IF last'.kind = "kill" THEN KillDen ELSE ShutDen
        IN /\ ~(prec[p].killed \/ prec[p].shut) /\ (prec'[p].killed \/ prec'[p].shut)
           /\ node'[p].killed
           /\ \A d \in Dels(node[p]) : node'[p].pools[d].bal = (node[p].pools[d].bal * (den - num)) \div den ]_vars
C23_DeadNotRewarded ==
  (IsDist /\ (last.pre.killed \/ (Dead(last.p) /\ ~prec[last.p].bad))) =>
      (last.o.c = 0 /\ \A d \in Dels(last.pre) : last.o.r[d] = 0)
C23_DeadImpliesPoolDead ==
  \A p \in Provider : (p \in DOMAIN node /\ Dead(p) /\ ~prec[p].bad) => node[p].killed
C23_DeviationMisplacesPool ==
  [][ (IsKS /\ last'.dev) =>
        /\ last'.kind = "shutdown" /\ ShutDownSavesUnderCaller
        /\ node'[last'.p] = node[last'.p]                 \* the provider's own pool: not dead, not slashed
        /\ last'.caller \in DOMAIN node' /\ node'[last'.caller].killed ]_vars
=============================================================================
