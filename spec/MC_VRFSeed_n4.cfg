SPECIFICATION Spec
CONSTANTS
  P = 5
  MaxN = 4
  MaxT = 4
  CoefVals = {1, 3}
  MsgVals = {2}
  Kinds = {"ok", "bad", "wrongmsg", "other", "stale"}
  MaxArrivals = 6
  MaxPerParty = 2
  MaxInvalid = 6
VIEW MCView
INVARIANTS TypeOK C33_Cap C33_OnlyValidStored C33_SeedIffThreshold C33_SeedFunction
CHECK_DEADLOCK FALSE
