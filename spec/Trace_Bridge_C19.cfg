SPECIFICATION TraceSpec
INVARIANTS HarnessProjection HarnessQuorumClass C19_BurnExact C19_BurnGuard
POSTCONDITION Accepted
CHECK_DEADLOCK FALSE
