SPECIFICATION TraceSpec
INVARIANTS HarnessPayFees C38_PhaseSchedule C38_ListsFollow C38_MagicBlock C38_MpkAccept C38_KeepAccept C38_ShareAccept C38_WaitAccept C38_ParticipantsHaveKeys
POSTCONDITION Accepted
CHECK_DEADLOCK FALSE
