-------------------------------- MODULE Codec --------------------------------
(***************************************************************************)
(* C08 -- state entities serialize losslessly and canonically.             *)
(*                                                                         *)
(* Two parts (DESIGN section 6: "thin model").                             *)
(*                                                                         *)
(* (1) The part of the codec that IS a state machine: core/util/           *)
(*     entitywrapper.  A stored entity is (version tag, fields).  Version  *)
(*     1 is stored without a tag; the decoder reads the tag ("" = v1) and  *)
(*     dispatches to the registered struct of that version; version v+1    *)
(*     adds fields to version v and its MigrateFrom accepts only version   *)
(*     v (Wrapper.Update migrates when the decoded version differs from    *)
(*     the one the running code writes).  Hard forks advance the version   *)
(*     the code writes.                                                    *)
(*                                                                         *)
(* (2) For byte fidelity of the ~90 stored types the specification can     *)
(*     only provide the CASE LATTICE: the value classes of a field and a   *)
(*     set of class vectors with pairwise coverage, which TLC enumerates   *)
(*     and the driver instantiates on every stored type of the real code.  *)
(***************************************************************************)
EXTENDS Integers, Sequences, FiniteSets, TLC

CONSTANTS NVersions,       \* registered versions 1..NVersions
          FieldNames,      \* abstract field names
          FieldsOf,        \* <<fields of v1, fields of v2, ...>>: only ever extended
          MVals,           \* abstract field values used by the version machine
          DropOnMigrate,   \* fields a MigrateFrom forgets to copy ({} = code as written)
          DispatchByTag    \* TRUE = code as written: the decoder picks the struct by the stored tag

---------------------------------------------------------------------------
(* (2) value classes and class vectors *)

Classes == <<"zero", "one", "typical", "max", "min", "empty", "nil">>
NC == Len(Classes)                         \* 7 (prime)
Slots == 1..4
\* orthogonal array OA(49, 4, 7, 2): rows (a, b, a+b, a+2b) over Z_7
Row(a, b) == <<a, b, (a + b) % NC, (a + 2 * b) % NC>>
Rows == {Row(a, b) : a, b \in 0..(NC - 1)}
Uniform == {<<c, c, c, c>> : c \in 0..(NC - 1)}      \* the whole value in one class
Names(r) == [s \in Slots |-> Classes[r[s] + 1]]
Vectors == {Names(r) : r \in Rows \cup Uniform}
\* field i of a type sits in slot SlotOf(i, j) in round j (digit j of i in base 4)
Rounds == 0..2
Pow4(j) == IF j = 0 THEN 1 ELSE IF j = 1 THEN 4 ELSE 16
SlotOf(i, j) == ((i \div Pow4(j)) % 4) + 1
MaxFields == 64

\* every pair of classes occurs in every pair of slots ...
PairwiseCovered == \A s1, s2 \in Slots : s1 # s2 =>
                     \A c1, c2 \in 0..(NC - 1) : \E r \in Rows : r[s1] = c1 /\ r[s2] = c2
\* ... and every pair of fields is in different slots in some round: so every pair of fields of a
\* type with at most MaxFields fields receives every pair of classes
FieldsSeparated == \A i, k \in 0..(MaxFields - 1) : i # k => \E j \in Rounds : SlotOf(i, j) # SlotOf(k, j)
ASSUME PairwiseCovered /\ FieldsSeparated

---------------------------------------------------------------------------
(* (1) the version machine *)

Versions == 1..NVersions
ASSUME /\ Len(FieldsOf) = NVersions
       /\ \A v \in 1..(NVersions - 1) : FieldsOf[v] \subseteq FieldsOf[v + 1]
       /\ DropOnMigrate \subseteq FieldNames
Unset == "unset"
Zero == "zero"                       \* the Go zero value a new field has after a migration
ASSUME Zero \in MVals
NoEnt == [ver |-> 0, f |-> <<>>]
NoStored == [tag |-> -1, f |-> <<>>]

VARIABLES mem,        \* the entity the code holds: [ver, f : [FieldsOf[ver] -> MVals]] or NoEnt
          stored,     \* the bytes in the trie, abstractly [tag, f]; tag 0 = no version field (v1)
          truth,      \* [FieldNames -> MVals \cup {Unset}]: what the application last wrote
          codeVer     \* the version the running code writes (hard forks advance it)
cvars == <<mem, stored, truth, codeVer>>

Encode(e) == [tag |-> IF e.ver = 1 THEN 0 ELSE e.ver, f |-> e.f]         \* InitVersion + MarshalMsg
\* UnmarshalMsgType: read the tag, "" = v1, construct that version, decode the fields it declares
DecVer(s) == IF DispatchByTag THEN (IF s.tag = 0 THEN 1 ELSE s.tag) ELSE codeVer
Decode(s) == LET v == DecVer(s) IN
             [ver |-> v, f |-> [x \in FieldsOf[v] |-> IF x \in DOMAIN s.f THEN s.f[x] ELSE Zero]]
\* MigrateFrom(prior): the common fields are copied, the new ones start at their zero value
Migrated(e) == [ver |-> e.ver + 1,
                f |-> [x \in FieldsOf[e.ver + 1] |->
                         IF x \in FieldsOf[e.ver] /\ x \notin DropOnMigrate THEN e.f[x] ELSE Zero]]

CInit == mem = NoEnt /\ stored = NoStored /\ truth = [x \in FieldNames |-> Unset] /\ codeVer = 1

Create == /\ mem = NoEnt /\ stored = NoStored
          /\ \E f \in [FieldsOf[codeVer] -> MVals] :
               /\ mem' = [ver |-> codeVer, f |-> f]
               /\ truth' = [x \in FieldNames |-> IF x \in FieldsOf[codeVer] THEN f[x] ELSE Unset]
          /\ UNCHANGED <<stored, codeVer>>
Save == mem # NoEnt /\ stored' = Encode(mem) /\ UNCHANGED <<mem, truth, codeVer>>
Load == mem = NoEnt /\ stored # NoStored /\ mem' = Decode(stored) /\ UNCHANGED <<stored, truth, codeVer>>
Forget == mem # NoEnt /\ stored # NoStored /\ stored = Encode(mem) /\ mem' = NoEnt /\ UNCHANGED <<stored, truth, codeVer>>
HardFork == codeVer < NVersions /\ codeVer' = codeVer + 1 /\ UNCHANGED <<mem, stored, truth>>
\* Wrapper.Update(e_codeVer, f): migrate first when the held version is the immediate predecessor
Migrate == /\ mem # NoEnt /\ mem.ver + 1 = codeVer
           /\ mem' = Migrated(mem)
           /\ truth' = [x \in FieldNames |-> IF x \in FieldsOf[codeVer] /\ truth[x] = Unset THEN Zero ELSE truth[x]]
           /\ UNCHANGED <<stored, codeVer>>
SetField == /\ mem # NoEnt /\ mem.ver = codeVer
            /\ \E x \in FieldsOf[mem.ver], v \in MVals :
                 mem' = [mem EXCEPT !.f[x] = v] /\ truth' = [truth EXCEPT ![x] = v]
            /\ UNCHANGED <<stored, codeVer>>
CNext == Create \/ Save \/ Load \/ Forget \/ HardFork \/ Migrate \/ SetField
CSpec == CInit /\ [][CNext]_cvars

\* Decode(Encode(x)) = x
C08_RoundTrip == mem # NoEnt => Decode(Encode(mem)) = mem
\* Encode(Decode(Encode(x))) = Encode(x)
C08_Canonical == stored # NoStored => Encode(Decode(stored)) = stored
\* along every migration path every field holds what the application last wrote to it
C08_MigrationPreserves ==
  mem # NoEnt => \A x \in FieldsOf[mem.ver] : truth[x] # Unset => mem.f[x] = truth[x]
\* the decoder picks exactly the version that was written
C08_Dispatch == stored # NoStored => Decode(stored).ver = (IF stored.tag = 0 THEN 1 ELSE stored.tag)
=============================================================================
