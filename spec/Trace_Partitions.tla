-------------------------- MODULE Trace_Partitions --------------------------
(***************************************************************************)
(* Trace specification for C25 (partitions behave as a set).               *)
(* Every line is one call on a REAL partitions.Partitions living in a real *)
(* state context (real MPT + state cache of a block forked from genesis):  *)
(* Add / Update(Item) / Remove / Get / Save / Reload (GetPartitions after  *)
(* a Save, in the same or in a fresh state context over the same trie),    *)
(* followed by what the real structure reports: Size, Exist and Get for    *)
(* every id of the trace's universe, and (when full = TRUE) the complete   *)
(* iteration ForEach with the partition index of every item, and one       *)
(* GetRandomItems sample.                                                  *)
(*                                                                         *)
(* The spec keeps the reference set m : id -> value, updates it with SET   *)
(* semantics, and the C25 invariants compare the real reports with m.      *)
(* Nothing else is constrained (layout inside a partition, which item      *)
(* fills a hole, which sample is drawn, error texts).                      *)
(***************************************************************************)
EXTENDS TraceLib

VARIABLES l, ev, psize, m, pre
vars == <<l, ev, psize, m, pre>>
Null == [ev |-> "none"]
Ops == {"Add", "Update", "Remove", "Get", "Save", "Reload", "Observe"}

TraceInit == l = 1 /\ ev = Null /\ psize = 1 /\ m = <<>> /\ pre = <<>>
IsEvent(e) == l <= Len(Trace) /\ Trace[l].ev = e /\ l' = l + 1

Drop(f, K) == [x \in DOMAIN f \ K |-> f[x]]

TraceReset ==
  /\ IsEvent("Reset")
  /\ ev' = Null /\ psize' = Trace[l].psize /\ m' = <<>> /\ pre' = <<>>

TraceOp ==
  /\ l <= Len(Trace) /\ Trace[l].ev \in Ops /\ l' = l + 1
  /\ LET e == Trace[l] IN
       /\ ev' = e /\ pre' = m
       /\ m' = CASE e.ev = "Add" -> IF e.id \in DOMAIN m THEN m ELSE Put(m, e.id, e.v)
                 [] e.ev = "Update" -> IF e.id \in DOMAIN m THEN Put(m, e.id, e.v) ELSE m
                 [] e.ev = "Remove" -> Drop(m, {e.id})
                 [] OTHER -> m
  /\ UNCHANGED psize

TraceSkip ==
  /\ l <= Len(Trace) /\ Trace[l].ev \notin (Ops \cup {"Reset"})
  /\ l' = l + 1 /\ ev' = Null
  /\ UNCHANGED <<psize, m, pre>>

TraceNext == TraceReset \/ TraceOp \/ TraceSkip
TraceSpec == TraceInit /\ [][TraceNext]_vars

-----------------------------------------------------------------------------
IsOp == ev.ev \in Ops
Full == IsOp /\ ev.full
Items == ev.items                              \* ForEach: sequence of [id, v, part]
ItemIds == {Items[i].id : i \in DOMAIN Items}
Parts == {Items[i].part : i \in DOMAIN Items}
CountIn(p) == Cardinality({i \in DOMAIN Items : Items[i].part = p})
Min2(a, b) == IF a < b THEN a ELSE b

NoPanic == IsOp => ~ev.panic

(* operations succeed / fail exactly as on a set keyed by id *)
Raw_C25_SetSemantics ==
  IsOp =>
    CASE ev.ev = "Add" -> ev.err = (IF ev.id \in DOMAIN pre THEN "exist" ELSE "none")
      [] ev.ev \in {"Update", "Remove"} -> ev.err = (IF ev.id \in DOMAIN pre THEN "none" ELSE "notfound")
      [] ev.ev = "Get" -> /\ ev.err = (IF ev.id \in DOMAIN pre THEN "none" ELSE "notfound")
                          /\ ev.err = "none" => ev.v = pre[ev.id]
      [] OTHER -> ev.err = "none"

(* membership checks and lookups agree with the set *)
Raw_C25_Membership ==
  IsOp => /\ ~ev.obserr
          /\ \A i \in DOMAIN ev.exist : (ev.exist[i].d = 1) <=> (ev.exist[i].a \in DOMAIN m)
          /\ \A i \in DOMAIN ev.gets : ev.gets[i].d = (IF ev.gets[i].a \in DOMAIN m THEN m[ev.gets[i].a] ELSE -1)

(* full iteration shows exactly the set, every item once *)
Raw_C25_NoDuplicates == Full => Len(Items) = Cardinality(ItemIds)
Raw_C25_IterationIsTheSet ==
  Full => {<<Items[i].id, Items[i].v>> : i \in DOMAIN Items} = {<<id, m[id]>> : id \in DOMAIN m}

(* all partitions except the last are full *)
Raw_C25_AllButLastFull ==
  (Full /\ Items # <<>>) =>
     LET hi == CHOOSE p \in Parts : \A q \in Parts : q <= p IN
       /\ Parts = 0..hi
       /\ \A p \in 0..(hi - 1) : CountIn(p) = psize
       /\ CountIn(hi) <= psize

(* the reported size is exact *)
Raw_C25_SizeExact == IsOp => ev.size = Cardinality(DOMAIN m)

(* random sampling returns distinct members (at least one when the set is not empty) *)
Raw_C25_RandomDistinctMembers ==
  Full => /\ Cardinality({ev.rand[i].a : i \in DOMAIN ev.rand}) = Len(ev.rand)
          /\ \A i \in DOMAIN ev.rand : ev.rand[i].a \in DOMAIN m /\ ev.rand[i].d = m[ev.rand[i].a]
          /\ DOMAIN m # {} => ~ev.randerr /\ Len(ev.rand) >= 1
(* events marked by bin/vcheck as instances of a listed known finding are consumed, not judged *)
C25_SetSemantics == IsKnown(ev) \/ Raw_C25_SetSemantics
C25_Membership == IsKnown(ev) \/ Raw_C25_Membership
C25_NoDuplicates == IsKnown(ev) \/ Raw_C25_NoDuplicates
C25_IterationIsTheSet == IsKnown(ev) \/ Raw_C25_IterationIsTheSet
C25_AllButLastFull == IsKnown(ev) \/ Raw_C25_AllButLastFull
C25_SizeExact == IsKnown(ev) \/ Raw_C25_SizeExact
C25_RandomDistinctMembers == IsKnown(ev) \/ Raw_C25_RandomDistinctMembers
=============================================================================
