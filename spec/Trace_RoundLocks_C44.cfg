SPECIFICATION TraceSpec
INVARIANTS HarnessDetectorOn HarnessNoCrash HarnessNoHang C44_NoRace
POSTCONDITION Accepted
CHECK_DEADLOCK FALSE
