SPECIFICATION GSpec
CONSTANTS
  Miner = {"m1", "m2", "m3", "m4"}
  Self = "m1"
  Order <- MCOrder4
  T = 3
  NT = 3
  NGen = 2
  RestartMult = 2
  TocCap = 3
  Ahead = 5
  Confirm = 3
  MaxRound = 6
  MaxToc = 1
  MaxBlocks = 14
  ProposalKinds <- MCKindsAll
  MaxDeliver = 30
  MaxQueue = 2
  MaxTimeouts = 5
  MaxTicket = 3
  WithNotarizations = TRUE
  MergeUnverified = FALSE
  EnvOnlyAtRest = TRUE
CONSTRAINT Bounded
INVARIANT GPrint
CHECK_DEADLOCK FALSE
