SPECIFICATION MSpec
CONSTANTS
  Client = {"a1", "c2"}
  Eth = {"e1", "e2"}
  Auths = {"a1", "a2", "a3"}
  SignerSets <- Sets2
  MaxBurns = 2
  MaxMints = 0
  MaxBlocks = 3
  MaxOps = 99
  Merger = "append"
  TicketStore = "all"
  BurnsFirst = FALSE
  MintKey = "minter"
VIEW MView
INVARIANTS C20_MergeKeepsAll C20_TicketPerBurn C20_BurnTotals C20_MintTotals C20_NoBlockRefused C20_TicketsOfAllBlocks
CHECK_DEADLOCK FALSE
