------------------------------ MODULE MC_Ledger ------------------------------
EXTENDS Ledger
CONSTANT MaxTxns
MCInitBal == [a \in Acct |-> IF a = "c1" THEN 2 ELSE IF a = "c2" THEN 1 ELSE IF a = "sc1" THEN 3 ELSE 0]
\* bound the exploration: at most MaxTxns transactions begun
VARIABLE begun
MCInit == Init /\ begun = 0
A_Begin == (\E t \in Txn : Begin(t)) /\ begun < MaxTxns /\ begun' = begun + 1
A_ExecSend == ExecSend /\ UNCHANGED begun
A_ExecData == ExecData /\ UNCHANGED begun
A_ExecSC_ok == ExecSC_ok /\ UNCHANGED begun
A_ExecSC_fail == ExecSC_fail /\ UNCHANGED begun
A_ExecSC_internal == ExecSC_internal /\ UNCHANGED begun
A_QueueFee == QueueFee /\ UNCHANGED begun
\* the head of the queue is a credit that the destination has no room for (balance + amount > MaxCoin).
\* With MaxCoin = MaxSupply no reachable state has one; the *_nearmax configs put MaxCoin BELOW the supply,
\* which is how the model reaches balances next to the largest representable one (in the code: next to
\* 2^64-1) without leaving conservation.  The split is only for the coverage guard: both halves are
\* Ledger!ApplyTransfer.
OverflowHead == /\ queue # <<>> /\ Head(queue).amt > 0 /\ Head(queue).from # Head(queue).to
                /\ obal[Head(queue).from] >= Head(queue).amt
                /\ obal[Head(queue).to] + Head(queue).amt > MaxCoin
A_ApplyTransfer == ApplyTransfer /\ ~OverflowHead /\ UNCHANGED begun
A_ApplyOverflow == ApplyTransfer /\ OverflowHead /\ UNCHANGED begun
A_ApplySigned == ApplySigned /\ UNCHANGED begun
A_IncNonce == IncNonce /\ UNCHANGED begun
A_Commit == Commit /\ UNCHANGED begun
A_Reject == Reject /\ UNCHANGED begun
MCNext == A_Begin \/ A_ExecSend \/ A_ExecData \/ A_ExecSC_ok \/ A_ExecSC_fail \/ A_ExecSC_internal
          \/ A_QueueFee \/ A_ApplyTransfer \/ A_ApplyOverflow \/ A_ApplySigned \/ A_IncNonce \/ A_Commit \/ A_Reject
MCSpec == MCInit /\ [][MCNext]_<<vars, begun>>
MCView == <<bal, nonce, kv, phase, cur, queue, signed, obal, ononce, okv, oev, begun>>
=============================================================================
