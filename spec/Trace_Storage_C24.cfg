SPECIFICATION TraceSpec
INVARIANTS NoPanic HarnessRange HarnessExact C24_Redeem C24_Limits C24_OnlyFree
POSTCONDITION Accepted
CHECK_DEADLOCK FALSE
