SPECIFICATION MCSpec
CONSTANTS
  Key = {"k1"}
  Val = {1, 2}
  MaxBlocks = 3
  MaxOps = 3
  OriginInHash = TRUE
  RecordOffset = 0
  MaxRollbacks = 0
  EmptyRecordWritten = TRUE
  CrashOnStale = FALSE
INVARIANTS C27_RetainedReadable CollectorValid LiveNotDead
CHECK_DEADLOCK FALSE
