SPECIFICATION Spec
CONSTANTS
  P = 7
  MaxN = 4
  MaxT = 3
  CoefVals = {0, 2, 6}
  MsgVals = {3, 5}
  Kinds = {"ok", "bad", "wrongmsg", "other", "stale"}
  MaxArrivals = 5
  MaxPerParty = 2
  MaxInvalid = 5
VIEW MCView
INVARIANTS TypeOK C33_Cap C33_OnlyValidStored C33_SeedIffThreshold C33_SeedFunction
CHECK_DEADLOCK FALSE
