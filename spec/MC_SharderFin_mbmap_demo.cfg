\* Not run by the check. The health check stores a magic block map entry only together with a block it had to
\* fetch: for a magic-block-carrying block whose file (or, for a non-replicator, whose transaction summaries) are
\* already there the entry is never repaired (shown with healthCheck called for a round above the LFB, HCAhead = TRUE: with the
\* bounds of the worker the hole is closed by the re-finalization of the block). TLC refutes RepairCompletesMB.
SPECIFICATION Spec
CONSTANTS
  Canon <- MCCanon3
  Fork <- MCNoFork
  Info <- MCInfo
  Genesis = "g"
  Batch = 1
  Confirmations = 1
  CountMerges = TRUE
  MaxFaults = 1
  MaxCnt = 4
  HCAhead = TRUE
  Concurrent = TRUE
  MaxLag = 0
CONSTRAINT StateConstraint
INVARIANTS TypeOK
PROPERTIES RepairCompletesMB
CHECK_DEADLOCK FALSE
