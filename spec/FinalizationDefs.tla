-------------------------- MODULE FinalizationDefs --------------------------
(***************************************************************************)
(* Pure operators over a block tree, shared by Finalization.tla (design +  *)
(* exhaustive check) and Trace_Finalization.tla (validation of executions  *)
(* of the real chain.Chain).                                               *)
(*                                                                         *)
(*   par  : [block -> block \cup {NoBlock}]   parent link (PrevBlock)      *)
(*   rnd  : [block -> Int]                    round of the block           *)
(*   nota : SUBSET block                      blocks in their round's      *)
(*                                            notarized list               *)
(* Anchors: chaincore/chain/protocol_round.go ComputeFinalizedBlock,       *)
(* finalizeRound; chaincore/chain/worker.go finalizeBlockProcess;          *)
(* chaincore/chain/protocol_block.go commonAncestor.                       *)
(***************************************************************************)
EXTENDS Integers, FiniteSets, Sequences

NoBlock == "none"

RECURSIVE Anc(_, _)
\* proper ancestors of b
Anc(par, b) == IF b \notin DOMAIN par \/ par[b] = NoBlock THEN {}
               ELSE {par[b]} \cup Anc(par, par[b])
AncEq(par, b) == {b} \cup Anc(par, b)
\* d descends from (or is) a
Descends(par, d, a) == a \in AncEq(par, d)

NotaAt(nota, rnd, q) == {b \in nota : rnd[b] = q}
MaxOf(S) == CHOOSE x \in S : \A y \in S : y <= x
Deepest(rnd, S) == CHOOSE a \in S : \A a2 \in S : rnd[a2] <= rnd[a]

-----------------------------------------------------------------------------
(* REFERENCE definition (the property's first sentence): the most recent    *)
(* block that is an ancestor of every notarized block of the latest round   *)
(* in (lfbr, r] that has any, and lies in an earlier round.                 *)
RefStart(nota, rnd, lfbr, r) ==
  LET c == {q \in (lfbr + 1)..r : NotaAt(nota, rnd, q) # {}} IN
  IF c = {} THEN -1 ELSE MaxOf(c)

RefCompute(par, rnd, nota, lfbr, r) ==
  LET rs == RefStart(nota, rnd, lfbr, r) IN
  IF rs = -1 THEN NoBlock
  ELSE LET S == NotaAt(nota, rnd, rs)
           common == {a \in DOMAIN par : \A b \in S : a \in Anc(par, b)}
       IN IF common = {} THEN NoBlock ELSE Deepest(rnd, common)

-----------------------------------------------------------------------------
(* The CODE's algorithm (ComputeFinalizedBlock): scan rounds downwards for  *)
(* the first non-empty notarized list, then replace the list by the list of *)
(* distinct parents until one block is left.                                *)
RECURSIVE FindStart(_, _, _, _)
FindStart(nota, rnd, lfbr, q) ==
  IF q <= lfbr THEN -1
  ELSE IF NotaAt(nota, rnd, q) # {} THEN q
  ELSE FindStart(nota, rnd, lfbr, q - 1)

RECURSIVE Walk(_, _)
Walk(par, S) ==
  LET P == {par[b] : b \in S} IN
  IF NoBlock \in P THEN NoBlock           \* ran past the root: GetPreviousBlock fails, nil
  ELSE IF Cardinality(P) = 1 THEN CHOOSE x \in P : TRUE
  ELSE Walk(par, P)

CodeCompute(par, rnd, nota, lfbr, r) ==
  LET rs == FindStart(nota, rnd, lfbr, r) IN
  IF rs = -1 THEN NoBlock
  ELSE LET fb == Walk(par, NotaAt(nota, rnd, rs)) IN
       IF fb # NoBlock /\ rnd[fb] = r THEN NoBlock ELSE fb

-----------------------------------------------------------------------------
(* finalizeRound, forward branch: blocks from the computed block back to the *)
(* previous LFB (excluded), at most `ahead` of them; <<FALSE, _>> when the   *)
(* walk arrives in the previous LFB's round at another block ("computed lfb  *)
(* could not connect to prev lfb").                                          *)
RECURSIVE BackChain(_, _, _, _, _, _)
BackChain(par, rnd, b, plfb, ahead, acc) ==
  IF b = NoBlock \/ b = plfb \/ rnd[b] <= rnd[plfb] THEN <<TRUE, acc>>
  ELSE LET acc2 == Append(acc, b)
           p == par[b]
       IN IF p = NoBlock THEN <<FALSE, acc2>>
          ELSE IF rnd[p] = rnd[plfb] /\ p # plfb THEN <<FALSE, acc2>>
          ELSE IF Len(acc2) >= ahead THEN <<TRUE, acc2>>
          ELSE BackChain(par, rnd, p, plfb, ahead, acc2)

Reverse(s) == [i \in 1..Len(s) |-> s[Len(s) + 1 - i]]

(* the blocks of the chain are handed, oldest first, to finalizeBlockProcess, *)
(* which requires the previous round to be finalized with the block's parent  *)
(* ("could not connect to lfb"); blocks with fewer than `confirm` rounds on   *)
(* top are skipped.  A block that is not marked notarized (known only as a    *)
(* parent) is first fetched from the network; `fetch` says whether that       *)
(* succeeds (then it is notarized).  rfin[q] = block round q was finalized    *)
(* with.                                                                      *)
RECURSIVE FinBlocks(_, _, _, _, _, _, _, _, _)
FinBlocks(par, rnd, nota, fetch, chain, r, confirm, lfb, rfin) ==
  IF chain = <<>> THEN <<lfb, rfin>>
  ELSE LET fb == Head(chain) IN
       IF r - rnd[fb] < confirm THEN FinBlocks(par, rnd, nota, fetch, Tail(chain), r, confirm, lfb, rfin)
       ELSE IF fb \notin nota /\ ~fetch THEN <<lfb, rfin>>
       ELSE IF rfin[rnd[fb] - 1] = NoBlock \/ rfin[rnd[fb] - 1] # par[fb] THEN <<lfb, rfin>>
       ELSE FinBlocks(par, rnd, nota, fetch, Tail(chain), r, confirm, fb, [rfin EXCEPT ![rnd[fb]] = fb])

CommonAnc(par, rnd, b1, b2) ==
  LET S == AncEq(par, b1) \cap AncEq(par, b2) IN
  IF S = {} THEN NoBlock ELSE Deepest(rnd, S)

(* a notarized block above the LFB's round that does not descend from it *)
DeepFork(par, rnd, nota, lfb) ==
  \E b \in nota : rnd[b] > rnd[lfb] /\ ~Descends(par, b, lfb)
=============================================================================
