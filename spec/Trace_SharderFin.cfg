SPECIFICATION TraceSpec
INVARIANTS
  C26_StoreReadBack C26_ServedBlockExact C26_ConfirmationTxnExact
  C36_FinalizedDescend C36_RoundSingleValued C36_ServedRoundIsOfRound C36_NoForkStored
  C42_SameDecision C42_AllStoreWhenDisabled
  HarnessCalls HarnessRounds HarnessSums HarnessBlocks HarnessTxns HarnessCount HarnessMBMap HarnessLFB HarnessHC
  HarnessConfirmation HarnessReads
POSTCONDITION Accepted
CHECK_DEADLOCK FALSE
