SPECIFICATION TraceSpec
INVARIANTS HarnessKnownEntity C40_Floor C40_Index C40_Prev C40_PruneKeeps
POSTCONDITION Accepted
CHECK_DEADLOCK FALSE
