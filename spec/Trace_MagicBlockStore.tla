------------------------ MODULE Trace_MagicBlockStore ------------------------
(***************************************************************************)
(* Trace specification for C40 (magic-block lookup).                       *)
(* Every line is one call on the REAL round.NewRoundStartingStorage() or   *)
(* on a real chain.Chain that owns such a store (SetMagicBlock,            *)
(* GetMagicBlock, GetMagicBlockNoOffset, GetLatestMagicBlock,              *)
(* GetPrevMagicBlock, PruneRoundStorage).  The spec keeps its own map      *)
(* m : starting round -> entity id and compares every answer of the real   *)
(* code with the reference lookup of MagicBlockStore.tla on m.             *)
(*                                                                         *)
(* Put: m is updated by the spec (the entity must be stored).  Prune: the  *)
(* property does not say how much a prune removes, so m follows the        *)
(* retained starting rounds read back from the real store and              *)
(* C40_PruneKeeps demands that what went is an older prefix not after the  *)
(* pruned point (hence answers from the first retained start on are        *)
(* unchanged); later lookups are checked against the retained map.         *)
(***************************************************************************)
EXTENDS TraceLib

MB == INSTANCE MagicBlockStore WITH Starts <- {}, Ents <- {}, Queries <- {}, VCO <- 0, PutBelowPruned <- FALSE,
        PrevSentinel <- 0, items <- <<>>, rounds <- <<>>, max <- 0, pruned <- 0, last <- <<>>

VARIABLES l, ev, vco, m, pre
vars == <<l, ev, vco, m, pre>>
Null == [ev |-> "none"]

TraceInit == l = 1 /\ ev = Null /\ vco = 0 /\ m = <<>> /\ pre = <<>>
IsEvent(e) == l <= Len(Trace) /\ Trace[l].ev = e /\ l' = l + 1

SeqToSet(s) == {s[i] : i \in DOMAIN s}

TraceReset ==
  /\ IsEvent("Reset")
  /\ ev' = Null /\ vco' = Trace[l].vco /\ m' = <<>> /\ pre' = <<>>

TracePut ==
  /\ IsEvent("Put")
  /\ ev' = Trace[l] /\ pre' = m
  /\ m' = MB!PutRef(m, Trace[l].r, Trace[l].e)
  /\ UNCHANGED vco

TracePrune ==
  /\ IsEvent("Prune")
  /\ ev' = Trace[l] /\ pre' = m
  /\ m' = MB!Restrict(m, DOMAIN m \cap SeqToSet(Trace[l].rounds))
  /\ UNCHANGED vco

Queries == {"Get", "Latest", "Find", "GMB", "GMBNoOff", "GLMB", "GPMB"}
TraceQuery ==
  /\ l <= Len(Trace) /\ Trace[l].ev \in Queries /\ l' = l + 1
  /\ ev' = Trace[l]
  /\ UNCHANGED <<vco, m, pre>>

TraceSkip ==
  /\ l <= Len(Trace) /\ Trace[l].ev \notin (Queries \cup {"Reset", "Put", "Prune"})
  /\ l' = l + 1 /\ ev' = Null
  /\ UNCHANGED <<vco, m, pre>>

TraceNext == TraceReset \/ TracePut \/ TracePrune \/ TraceQuery \/ TraceSkip
TraceSpec == TraceInit /\ [][TraceNext]_vars

-----------------------------------------------------------------------------
Is(e) == ev.ev = e
Sentinel == -1                                   \* Chain.PreviousMagicBlock in the log
Empty == DOMAIN m = {}

(* the harness could not identify the returned entity (not one it stored) *)
HarnessKnownEntity == ev.ev \in Queries \ {"Find"} => ev.e # -2

(* C40: the magic block used for a round is the stored one with the greatest *)
(* starting round not after it (after the view-change offset for the chain   *)
(* lookups), or the latest one when none starts earlier.                     *)
Raw_C40_Floor ==
  /\ Is("Get") => ~ev.panic /\ ev.e = MB!Lookup(m, ev.q)
  /\ Is("Latest") => ~ev.panic /\ ev.e = MB!Latest(m)
  /\ (Is("GMB") /\ ~Empty) => ~ev.panic /\ ev.e = MB!InForce(m, MB!Off(ev.q, vco))
  /\ (Is("GMBNoOff") /\ ~Empty) => ~ev.panic /\ ev.e = MB!InForce(m, ev.q)
  /\ (Is("GLMB") /\ ~Empty) => ~ev.panic /\ ev.e = MB!Latest(m)

(* the sorted index of starting rounds does not depend on the insertion order *)
Raw_C40_Index ==
  /\ (Is("Put") \/ Is("Prune")) => ev.rounds = MB!SortedSeq(DOMAIN m) /\ ev.count = Cardinality(DOMAIN m)
  /\ Is("Put") => ~ev.panic /\ ~ev.err
  /\ Is("Find") => ~ev.panic /\ ev.idx = MB!IndexOfFloor(DOMAIN m, ev.q)

(* the magic block before the one in force *)
Raw_C40_Prev == Is("GPMB") => ~ev.panic /\ ev.e = MB!PrevInForce(m, MB!Off(ev.q, vco), Sentinel)

(* pruning removes only an older prefix, nothing after the pruned point, and *)
(* never anything that was not stored; so every answer for a round at or      *)
(* after the first retained starting round is unchanged.                      *)
Raw_C40_PruneKeeps ==
  Is("Prune") =>
     /\ ~ev.panic
     /\ SeqToSet(ev.rounds) \subseteq DOMAIN pre
     /\ MB!PrefixRemoved(DOMAIN pre, DOMAIN m)
     /\ \A d \in DOMAIN pre \ DOMAIN m : d <= ev.p
     /\ ev.err => DOMAIN m = DOMAIN pre

(* STRICT reading (not part of C40's cfg): the entry in force AT the pruned   *)
(* point survives, i.e. answers for every round >= p are unchanged.           *)
Raw_C40x_PruneKeepsFloorAtPoint ==
  (Is("Prune") /\ ~ev.err) => \A d \in DOMAIN pre \ DOMAIN m : d < ev.p
(* events marked by bin/vcheck as instances of a listed known finding are consumed, not judged *)
C40_Floor == IsKnown(ev) \/ Raw_C40_Floor
C40_Index == IsKnown(ev) \/ Raw_C40_Index
C40_Prev == IsKnown(ev) \/ Raw_C40_Prev
C40_PruneKeeps == IsKnown(ev) \/ Raw_C40_PruneKeeps
C40x_PruneKeepsFloorAtPoint == IsKnown(ev) \/ Raw_C40x_PruneKeepsFloorAtPoint
=============================================================================
