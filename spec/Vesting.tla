------------------------------- MODULE Vesting -------------------------------
(***************************************************************************)
(* One vesting pool of the vesting contract (smartcontract/vestingsc/       *)
(* vesting.go): the owner locks tokens for a list of destinations; between  *)
(* start and expiry each destination's amount becomes payable linearly;     *)
(* trigger (owner) pays all destinations, unlock pays the calling           *)
(* destination or returns the excess to the owner, stop pays one            *)
(* destination what is due and removes it, delete pays what is due and      *)
(* returns the rest to the owner.                                           *)
(*                                                                         *)
(* destination.unlock (vesting.go:113-149):                                 *)
(*     value = left * (now - move) / (expire - move)     (all of it at end) *)
(* where move is the time of the last non-zero payment; the real code       *)
(* computes it in float64 and truncates, the model in exact integers.       *)
(*                                                                         *)
(* C16 is stated over `paid` (tokens transferred to a destination) and the  *)
(* pool balance, see the end of the module.                                 *)
(***************************************************************************)
EXTENDS Integers, FiniteSets, TLC

CONSTANTS Dest,        \* possible destinations
          MaxAmt,      \* largest amount per destination
          MaxExtra,    \* largest excess locked on top of the amounts
          Durs,        \* possible durations
          MaxDelay,    \* start_time - now at creation
          MaxTime,     \* bound of the clock in the model
          MaxStep

VARIABLES now,         \* timestamp of the next transaction
          phase,       \* "none" (no pool yet) | "live" | "deleted"
          start, expire,
          bal,         \* the pool's balance
          present,     \* destinations still in the pool
          amount, vested, move,
          paid,        \* observation: tokens transferred to each destination
          ownerGot,    \* observation: tokens returned to the owner
          last         \* the last step as an observer saw it

vars == <<now, phase, start, expire, bal, present, amount, vested, move, paid, ownerGot, last>>

NoOp == [op |-> "none", ok |-> TRUE, atEnd |-> FALSE, d |-> "none"]

RECURSIVE Sum(_, _)
Sum(f, S) == IF S = {} THEN 0 ELSE LET x == CHOOSE y \in S : TRUE IN f[x] + Sum(f, S \ {x})

Init ==
  /\ now = 0 /\ phase = "none" /\ start = 0 /\ expire = 0 /\ bal = 0 /\ present = {}
  /\ amount = [d \in Dest |-> 0] /\ vested = [d \in Dest |-> 0] /\ move = [d \in Dest |-> 0]
  /\ paid = [d \in Dest |-> 0] /\ ownerGot = 0 /\ last = NoOp

-----------------------------------------------------------------------------
Clip(t) == IF t > expire THEN expire ELSE IF t < start THEN start ELSE t     \* trigger / vest
Left(d) == amount[d] - vested[d]
(* destination.unlock *)
Due(d, t) == IF t = expire THEN Left(d) ELSE (Left(d) * (t - move[d])) \div (expire - move[d])
Need == Sum([d \in Dest |-> IF d \in present THEN Left(d) ELSE 0], Dest)
Excess == bal - Need                                                           \* excess(), unchecked in the code

(* add, vesting.go:560-630: value >= sum of amounts; destinations start at start_time *)
Add(ds, am, extra, delay, dur) ==
  /\ phase = "none" /\ ds # {}
  /\ phase' = "live" /\ present' = ds
  /\ start' = now + delay /\ expire' = now + delay + dur
  /\ amount' = [d \in Dest |-> IF d \in ds THEN am[d] ELSE 0]
  /\ vested' = [d \in Dest |-> 0] /\ move' = [d \in Dest |-> now + delay]
  /\ bal' = Sum([d \in Dest |-> IF d \in ds THEN am[d] ELSE 0], Dest) + extra
  /\ last' = [NoOp EXCEPT !.op = "add"]
  /\ UNCHANGED <<now, paid, ownerGot>>

(* pay the destinations of S what is due at the clipped time t *)
Pay(S, t) ==
  /\ vested' = [d \in Dest |-> IF d \in S THEN vested[d] + Due(d, t) ELSE vested[d]]
  /\ move' = [d \in Dest |-> IF d \in S /\ Due(d, t) > 0 THEN t ELSE move[d]]
  /\ paid' = [d \in Dest |-> IF d \in S THEN paid[d] + Due(d, t) ELSE paid[d]]
PaySum(S, t) == Sum([d \in Dest |-> IF d \in S THEN Due(d, t) ELSE 0], Dest)

Trigger ==                                    \* owner; vesting.go:810-860, 330-375
  /\ phase = "live" /\ present # {}
  /\ IF bal = 0
       THEN /\ last' = [NoOp EXCEPT !.op = "trigger", !.ok = FALSE, !.atEnd = (now >= expire)]
            /\ UNCHANGED <<now, phase, start, expire, bal, present, amount, vested, move, paid, ownerGot>>
       ELSE /\ Pay(present, Clip(now)) /\ bal' = bal - PaySum(present, Clip(now))
            /\ last' = [NoOp EXCEPT !.op = "trigger", !.atEnd = (now >= expire)]
            /\ UNCHANGED <<now, phase, start, expire, present, amount, ownerGot>>

UnlockDest(d) ==                              \* a destination takes what is due; vesting.go:440-470
  /\ phase = "live" /\ d \in present
  /\ IF Due(d, Clip(now)) = 0
       THEN /\ last' = [NoOp EXCEPT !.op = "unlock_dest", !.ok = FALSE, !.atEnd = (now >= expire), !.d = d]
            /\ UNCHANGED <<now, phase, start, expire, bal, present, amount, vested, move, paid, ownerGot>>
       ELSE /\ Pay({d}, Clip(now)) /\ bal' = bal - Due(d, Clip(now))
            /\ last' = [NoOp EXCEPT !.op = "unlock_dest", !.atEnd = (now >= expire), !.d = d]
            /\ UNCHANGED <<now, phase, start, expire, present, amount, ownerGot>>

UnlockOwner ==                                \* drain, vesting.go:472-497
  /\ phase = "live"
  /\ IF Excess = 0
       THEN /\ last' = [NoOp EXCEPT !.op = "unlock_owner", !.ok = FALSE]
            /\ UNCHANGED <<bal, ownerGot>>
       ELSE /\ bal' = bal - Excess /\ ownerGot' = ownerGot + Excess
            /\ last' = [NoOp EXCEPT !.op = "unlock_owner"]
  /\ UNCHANGED <<now, phase, start, expire, present, amount, vested, move, paid>>

Stop(d) ==                                    \* vesting.go:632-680
  /\ phase = "live" /\ d \in present /\ now <= expire
  /\ Pay({d}, Clip(now)) /\ bal' = bal - Due(d, Clip(now))
  /\ present' = present \ {d}
  /\ last' = [NoOp EXCEPT !.op = "stop", !.d = d]
  /\ UNCHANGED <<now, phase, start, expire, amount, ownerGot>>

Delete ==                                     \* vesting.go:682-760
  /\ phase = "live"
  /\ Pay(present, Clip(now))
  /\ ownerGot' = ownerGot + (bal - PaySum(present, Clip(now)))
  /\ bal' = 0 /\ present' = {} /\ phase' = "deleted"
  /\ last' = [NoOp EXCEPT !.op = "delete"]
  /\ UNCHANGED <<now, start, expire, amount>>

Tick(d) == /\ now + d <= MaxTime /\ now' = now + d /\ last' = NoOp
           /\ UNCHANGED <<phase, start, expire, bal, present, amount, vested, move, paid, ownerGot>>

Next == \/ \E ds \in SUBSET Dest, am \in [Dest -> 0..MaxAmt], x \in 0..MaxExtra, dl \in 0..MaxDelay, du \in Durs :
             Add(ds, am, x, dl, du)
        \/ Trigger \/ UnlockOwner \/ Delete
        \/ \E d \in Dest : UnlockDest(d) \/ Stop(d)
        \/ \E d \in 1..MaxStep : Tick(d)
Spec == Init /\ [][Next]_vars

-----------------------------------------------------------------------------
TypeOK == /\ phase \in {"none", "live", "deleted"} /\ now \in 0..MaxTime /\ bal >= 0
          /\ \A d \in Dest : vested[d] >= 0 /\ paid[d] >= 0

(* C16 *)
C16_AtMostAmount == \A d \in Dest : paid[d] <= amount[d] /\ paid[d] = vested[d]
C16_Monotone     == [][\A d \in Dest : paid'[d] >= paid[d] /\ (phase = "live" => amount'[d] = amount[d])]_vars
(* never ahead of the straight line from (start, 0) to (expire, amount) *)
C16_Schedule     == phase # "none" =>
                      \A d \in Dest : paid[d] * (expire - start) <= amount[d] * (Clip(now) - start)
C16_FullAtExpiry == (last.atEnd /\ last.op = "trigger") => \A d \in present : paid[d] = amount[d]
C16_FullAtExpiryDest == (last.atEnd /\ last.op = "unlock_dest") => paid[last.d] = amount[last.d]
C16_Backed       == phase = "live" => Excess >= 0
(* the owner's operations cannot get stuck: everything delete and unlock compute stays in range *)
C16_OwnerCan     == phase = "live" => /\ \A d \in present : Left(d) >= 0 /\ Due(d, Clip(now)) >= 0
                                       /\ PaySum(present, Clip(now)) <= bal
(* nothing is lost: what was locked is in the pool, with the destinations, or back with the owner *)
Locked == Sum(amount, Dest)
NothingLost == phase = "deleted" => bal = 0
=============================================================================
